"""Back end V: Verus on text extracted from /repo on this run (see DESIGN.md 2.1)."""
import json, os, re, subprocess, time
from common import *
import vxgen

VERUS = os.environ.get("VERUS", "verus")

# message classes that are verdicts (an obligation the verifier generated and could not prove)
VERDICT_MSGS = [
    ("unable to prove post-condition of closure", "closure-post"),
    ("postcondition not satisfied", "post"),
    ("precondition not satisfied", "pre"),
    ("assertion failed", "assert"),
    ("possible arithmetic underflow/overflow", "overflow"),
    ("possible division by zero", "divzero"),
    ("invariant not satisfied before loop", "inv-init"),
    ("invariant not satisfied at end of loop body", "inv-step"),
    ("loop invariant not preserved", "inv-step"),
    ("loop invariant not satisfied", "inv-exit"),  # at a `break`: the loop's `ensures` / invariant at that exit
    ("decreases not satisfied", "decreases"),
    ("could not prove termination", "decreases"),
    ("unreachable", "unreachable"),
    ("panic", "panic"),
    ("recommendation not met", None),  # ignored (spec-level hint)
    ("possible bit shift underflow/overflow", "overflow"),
    ("index out of bounds", "bounds"),
    ("possible out-of-bounds", "bounds"),
    ("may be out of bounds", "bounds"),
]
UNDECIDED_PAT = re.compile(r"rlimit|Resource limit|timed out|timeout|internal error|not supported|unsupported|"
                           r"The verifier does not yet support|panicked at", re.I)

FN_RE = re.compile(r"^\s*(?:pub(?:\([a-z]+\))?\s+)?(?:open\s+spec\s+|closed\s+spec\s+|spec\s+|proof\s+|exec\s+|broadcast\s+proof\s+)*fn\s+([A-Za-z_0-9]+)")


def enclosing_fn(lines, idx):
    i = min(idx, len(lines) - 1)
    while i >= 0:
        m = FN_RE.match(lines[i])
        if m:
            return m.group(1), i
        i -= 1
    return None, -1


def run_canary(unit, repo, outdir, verus_args, res):
    path, linemap, cres = vxgen.generate(repo, unit, outdir, canary=True)
    gen_lines = open(path).read().split("\n")
    rc, out, err, dt = sh([VERUS, path] + verus_args, cwd=outdir, timeout=unit.get("timeout", 900))
    failed = set()
    base = os.path.basename(path)
    for l in err.split("\n"):
        l = l.strip()
        if not (l.startswith("{") and '"$message_type"' in l):
            continue
        try:
            d = json.loads(l)
        except Exception:
            continue
        if d.get("level") != "error" or "assertion failed" not in d.get("message", ""):
            continue
        for s in d.get("spans", []):
            if os.path.basename(s.get("file_name", "")) == base and s.get("is_primary"):
                li = s["line_start"] - 1
                if "vx canary" in gen_lines[li]:
                    fn, _ = enclosing_fn(gen_lines, li)
                    lm = linemap[li] if li < len(linemap) else None
                    failed.add(((lm[2] if lm else None), fn))
    expected = set()
    for i, l in enumerate(gen_lines):
        if "vx canary" in l:
            fn, _ = enclosing_fn(gen_lines, i)
            lm = linemap[i] if i < len(linemap) else None
            expected.add(((lm[2] if lm else None), fn))
    missing = sorted(str(x) for x in expected - failed)
    if not expected:
        raise Undecided("canary pass of unit %s found no function body" % unit["_name"])
    if missing:
        raise Undecided("vacuity guard: assert(false) at the start of %s still verifies (contradictory precondition or unreachable body)" % ", ".join(missing))
    return {"functions_with_reachability_canary": len(expected), "all_failed_as_required": True, "wall_s": round(dt, 2)}


def run_unit(unit_name, repo, outdir, prop, tier, rlimit=None, extra_args=None):
    """returns (obligations, info) ; raises Undecided"""
    t0 = time.time()
    unit = vxgen.load_unit(unit_name)
    path, linemap, res = vxgen.generate(repo, unit, outdir, partial=True)
    lost = res.get("errors") or []
    lost_msg = "extraction: " + "; ".join(e["kind"] + ": " + e["msg"] for e in lost) if lost else None
    try:
        return _verify_unit(unit_name, unit, path, linemap, res, repo, outdir, prop, tier, rlimit, extra_args, t0, lost, lost_msg)
    except Undecided:
        if lost_msg:   # the remainder does not stand on its own: the unit is undecided for the reason the extraction gave
            raise Undecided(lost_msg)
        raise


def _verify_unit(unit_name, unit, path, linemap, res, repo, outdir, prop, tier, rlimit, extra_args, t0, lost, lost_msg):
    gen_lines = open(path).read().split("\n")
    args = [VERUS, path, "--output-json", "--error-format=json", "--multiple-errors", "20", "--time",
            "--num-threads", "8"]
    rl = rlimit or unit.get("rlimit")
    if tier == "thorough":
        rl = (rl or 10) * 4
    if rl:
        args += ["--rlimit", str(rl)]
    if extra_args:
        args += extra_args
    rc, out, err, dt = sh(args, cwd=outdir, timeout=unit.get("timeout", 900))
    if rc == -9:
        raise Undecided("verus timeout on unit %s" % unit_name)
    # stdout: one JSON object (--output-json); stderr: one JSON diagnostic per line
    try:
        jstart = out.index("{")
        oj = json.loads(out[jstart:])
    except Exception:
        raise Undecided("verus produced no result object for %s: %s" % (unit_name, (err or out)[-1500:]))
    vr = oj.get("verification-results", {})
    diags = []
    for l in err.split("\n"):
        l = l.strip()
        if l.startswith("{") and '"$message_type"' in l:
            try:
                diags.append(json.loads(l))
            except Exception:
                pass
    hard = []
    failures = []
    base = os.path.basename(path)
    for d in diags:
        if d.get("level") not in ("error",):
            continue
        msg = d.get("message", "")
        if msg.startswith("aborting due to"):
            continue
        kind = None
        matched = False
        for pat, k in VERDICT_MSGS:
            if pat in msg:
                kind = k
                matched = True
                break
        if matched and kind is None:
            continue
        if not matched or d.get("code") or UNDECIDED_PAT.search(msg):
            hard.append(msg + " :: " + (d.get("rendered") or "")[:600])
            continue
        # locate in generated file
        spans = [s for s in d.get("spans", []) if os.path.basename(s.get("file_name", "")) == base]
        prim = [s for s in spans if s.get("is_primary")]
        site = (prim or spans or [None])[0]
        fn, fn_line, item_id, src = None, -1, None, None
        anchor = ""
        if site:
            li = site["line_start"] - 1
            fn, fn_line = enclosing_fn(gen_lines, li)
            lm = linemap[li] if li < len(linemap) else None
            if lm:
                item_id = lm[2]
                if lm[1]:
                    src = (lm[0], lm[1])
            if kind in ("pre", "assert", "overflow", "divzero", "bounds", "panic", "unreachable"):
                txt = "".join(t["text"][t["highlight_start"] - 1:t["highlight_end"] - 1] for t in site.get("text", [])[:1])
                anchor = "@" + slug(txt, 48)
            elif kind == "post":
                # which ensures clause, if it is one of ours
                for s in spans:
                    if s.get("label", "").startswith("failed this postcondition"):
                        txt = "".join(t["text"][t["highlight_start"] - 1:t["highlight_end"] - 1] for t in s.get("text", [])[:1])
                        anchor = "@" + slug(txt, 48)
        failures.append({"kind": kind, "fn": fn, "item": item_id, "anchor": anchor, "src": src,
                         "msg": msg, "rendered": d.get("rendered", "")})
    if hard:
        raise Undecided("verus could not process unit %s: %s" % (unit_name, " | ".join(hard)[:3000]))
    if "verified" not in vr:
        raise Undecided("verus result without counts for %s" % unit_name)
    n_ver, n_err = vr.get("verified", 0), vr.get("errors", 0)
    if n_ver + n_err == 0:
        raise Undecided("unit %s generated zero obligations" % unit_name)
    min_obl = unit.get("min_obligations", 1)
    if n_ver + n_err < min_obl:
        raise Undecided("unit %s generated %d obligations, expected at least %d (vacuity guard)" % (unit_name, n_ver + n_err, min_obl))
    if n_err and not failures:
        raise Undecided("verus reports %d errors for %s but none could be classified: %s" % (n_err, unit_name, err[-1500:]))

    obls = []
    smt_ms = oj.get("times-ms", {}).get("smt", {}).get("total", 0)
    total_ms = oj.get("times-ms", {}).get("total", 0)
    # failed obligations, one per (item, fn, kind, anchor)
    seen = set()
    failed_fns = set()
    for f in failures:
        oid = "%s/V/%s::%s::%s#%s%s" % (prop, unit_name, f["item"] or "prelude", f["fn"] or "?", f["kind"], f["anchor"])
        failed_fns.add((f["item"], f["fn"]))
        if oid in seen:
            continue
        seen.add(oid)
        srcfile = None
        for it in res["items"]:
            if it["id"] == f["item"]:
                srcfile = it["file"] + " :: " + it["select"]
        obls.append(Obligation(oid, "verus", FAILED, detail=f["msg"], fn=srcfile, src=f["src"], raw=f["rendered"]))
    # discharged: every function Verus counted as verified; named from the generated file
    # (functions of extracted items first)
    fn_names = []
    for i, l in enumerate(gen_lines):
        m = FN_RE.match(l)
        if m and "spec fn" not in l and "assume_specification" not in l:
            lm = linemap[i] if i < len(linemap) else None
            fn_names.append(((lm[2] if lm else None), m.group(1), "external_body" in gen_lines[i - 1] if i > 0 else False))
    named = 0
    for item, fn, ext in fn_names:
        if ext or (item, fn) in failed_fns:
            continue
        if named >= n_ver:
            break
        named += 1
        srcfile = None
        for it in res["items"]:
            if it["id"] == item:
                srcfile = it["file"] + " :: " + it["select"]
        obls.append(Obligation("%s/V/%s::%s::%s" % (prop, unit_name, item or "prelude", fn), "verus", DISCHARGED, fn=srcfile))
    # if Verus verified more functions than we could name (e.g. trait default bodies), keep count
    for k in range(n_ver - named):
        obls.append(Obligation("%s/V/%s::<unnamed-%d>" % (prop, unit_name, k), "verus", DISCHARGED))
    if lost:
        if not any(o.status == FAILED for o in obls):
            raise Undecided(lost_msg)
        # a failing obligation among the items that could still be extracted is a verdict; the lost items are undecided
        for e in lost:
            obls.append(Obligation("%s/V/%s::%s" % (prop, unit_name, e.get("id") or "?"), "verus", UNDECIDED, detail=e["kind"] + ": " + e["msg"]))
        info = {"unit": unit_name, "backend": "verus", "generated_file": path, "verified": n_ver, "errors": n_err,
                "wall_s": round(time.time() - t0, 2), "cmd": " ".join(args), "partial_extraction": [e.get("id") for e in lost],
                "items": [{"id": it["id"], "file": it["file"], "select": it["select"], "src_lines": it["src_lines"]} for it in res["items"]]}
        return obls, info
    # ---- vacuity guard: with `assert(false)` at the start of every extracted body, every such
    # function must FAIL; one that still verifies has a contradictory precondition
    canary_info = run_canary(unit, repo, outdir, args[2:], res)
    rewrites = []
    for it in res["items"]:
        for r in it["rewrites"]:
            rewrites.append({"item": it["id"], "rule": r["rule"], "src_line": r["line"], "from": r["from"][:80]})
    # assumption scan of the generated file
    scan = {}
    for kw in ["assume(", "admit(", "external_body", "assume_specification", "axiom fn", "#[verifier::external"]:
        scan[kw] = sum(1 for l in gen_lines if kw in l and not l.strip().startswith("//"))
    info = {
        "unit": unit_name, "backend": "verus", "generated_file": path, "verified": n_ver, "errors": n_err,
        "wall_s": round(time.time() - t0, 2), "smt_ms": smt_ms, "verus_total_ms": total_ms,
        "cmd": " ".join(args), "rewrites": rewrites, "assumption_scan": scan,
        "items": [{"id": it["id"], "file": it["file"], "select": it["select"], "src_lines": it["src_lines"]} for it in res["items"]],
        "vacuity_canary": canary_info,
    }
    return obls, info
