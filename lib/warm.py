#!/usr/bin/env python3
"""Warm the Kani build caches under /verif/.cache (dependencies only matter; the crate itself is
rebuilt from /repo's working tree by every check)."""
import os, sys
sys.path.insert(0, os.path.dirname(os.path.abspath(__file__)))
from common import *
import kani, props

scratch = make_scratch("warm")
try:
    repo_copy = os.path.join(scratch, "repo")
    copy_repo(repo_copy)
    crate = kani.prepare_incrate(repo_copy)
    try:
        print("incrate build: %.0fs" % kani.build_once(crate))
    except Undecided as e:
        print("warm incrate failed:", e)
    minis = sorted(set(u["crate"] for p in props.PROPS.values() for u in p["units"] if u["kind"] == "kani-mini"))
    for m in minis:
        try:
            c = kani.prepare_mini(scratch, m, repo_copy)
            print("mini %s build: %.0fs" % (m, kani.build_once(c, os.path.join(CACHE, "kani-target-" + m))))
        except Undecided as e:
            print("warm mini %s failed:" % m, e)
finally:
    rm_rf(scratch)
