#!/usr/bin/env python3
"""probe_natives.py [seed]  -- developer aid, NOT part of any check and not a deciding technique: calls every native documented in
/repo/book/src/std/*.md with extreme arguments of its parameter types under finite limits (through the replay runner, built with
`cd /verif/replay && CARGO_TARGET_DIR=<dir> cargo build --offline`, path in $XR) and lists panics and calls that do not come back.
It pointed at findings 36-41; each of them was then put under contract (DESIGN.md section 7).  Scratch files go to $PROBE_TMP."""
import re, glob, itertools, random, subprocess, os, sys, json
from concurrent.futures import ThreadPoolExecutor
random.seed(int(sys.argv[1]) if len(sys.argv)>1 else 1)
XR=os.environ.get("XR", "/var/tmp/xv/xrb/debug/xr")
TMP=os.environ.get("PROBE_TMP", "/var/tmp/xray-probe")
os.makedirs(TMP, exist_ok=True)
INT=["0","1","-1","2","3","7","64","65","9223372036854775807","9223372036854775808","-9223372036854775808","-9223372036854775809","18446744073709551615","18446744073709551616","(10**30)","65536","(-(10**30))","4294967296"]
FLT=["0.0","1.0","-1.0","0.5","1e308","-1e308","1e-320","1e19","2.5","-0.5","1e15","9007199254740993.0"]
STR=["''","'a'","'é'","'abc'","'0'","'-'","'.70000f'","'>5'","'aé😀b'","' '","'a,b'","'1e400'","'-0'","'+5'","'0x10'","'999999999999999999999999'","'\\n'","'%'","'{}'"]
BOOL=["true","false"]
SEQI=["[1].skip(1)","[1]","[3,1,2]","range(1000000000000)","count()","[1,1,1]","range(5).map((x:int)->{x})","[1,2]+[3]","[5,4,3,2,1].skip(1).take(3)"]
SEQF=["[1.0].skip(1)","[1.0]","[3.0,1.0,2.0]","[1e308,1e308]","[1e-320, -1e308]"]
SEQS=["['a'].skip(1)","['a']","['b','a','é']"]
GENI=["[1].skip(1).to_generator()","[1].to_generator()","[3,1,2].to_generator()","count().to_generator()","[1,1,1].to_generator()"]
FN1B=["(x:int)->{true}","(x:int)->{false}","(x:int)->{x>1}","(x:int)->{error('e')}"]
FN1I=["(x:int)->{x}","(x:int)->{0}","(x:int)->{-x}"]
FN2I=["(a:int,b:int)->{a+b}","(a:int,b:int)->{a}"]
FN2B=["(a:int,b:int)->{a==b}","(a:int,b:int)->{true}","(a:int,b:int)->{false}"]
CMP=["cmp{int,int}","(a:int,b:int)->{0}","(a:int,b:int)->{1}","(a:int,b:int)->{-1}","(a:int,b:int)->{b-a}"]

CPLX=["complex(0.0)","complex(1e308)","complex_from_polar(1e308, 1.0)","complex(-1.0)","complex(0.5)+complex(1)*complex_from_polar(1.0,1.5707963267948966)","complex(1e-320)"]
FRAC=["fraction(0)","fraction(1,2)","fraction(-1,3)","fraction(9223372036854775807,1)","fraction(10**30, 7)","fraction(1, 10**30)","fraction(0.1)","fraction(-7, 18446744073709551616)"]
DUR=["days(0.0)","days(1e308)","seconds(-1e300)","seconds(0.5)","years(1e15)","seconds(1e-320)","hours(9223372036854775807.0)"]
DATE=["date(0)","date(2451545)","date(9223372036854775807)","date(-9223372036854775808)","date(10**30)","date(-1)"]
DTIME=["datetime(0.0)","datetime(1e308)","datetime(-1e308)","datetime(1e18)","datetime(253402300800.0)","datetime(-62135596801.0)"]
DDIST=["uniform_distribution(0,5)","binomial_distribution(10,0.5)","poisson_distribution(1e300)","geometric_distribution(1e-320)","custom_distribution([(1,0.5),(2,0.5)])","hypergeometric_distribution(10,5,3)","negative_binomial_distribution(1.5,0.5)","uniform_distribution(-9223372036854775808,9223372036854775807)","binomial_distribution(9223372036854775807, 0.5)","sample_distribution([1,2,2,3])","poisson_distribution(0.5)"]
CDIST=["normal_distribution(0.0,1.0)","beta_distribution(1.0,1.0)","exponential_distribution(1e308)","gamma_distribution(1e-320,1.0)","rectangular_distribution(0.0,1e308)","standard_uniform_distribution()","students_t_distribution(1.0)","weibull_distribution(1.0,1e308)","lognormal_distribution(700.0, 1.0)","chisq_distribution(1e308)","triangular_distribution(0.0,1.0)","fisher_snedecor_distribution(1.0,2.0)"]
SETI=["set<int>()","set<int>().update([1])","set<int>().update([1,2,3,1])","set<int>().update([9223372036854775808, -1, 0])","set((x:int)->{0}, eq{int,int}).update([1,2,3])"]
MAPI=["mapping<int>().update([(1,2)]).discard(1)","mapping<int>().update([(1,2)])","mapping<int>().update([(1,2),(3,4)])","mapping((x:int)->{0}, eq{int,int}).update([(1,2),(3,4),(5,6)])"]
STKI=["stack().push(1).tail()","stack().push(1)","stack().push(1).push(2).push(3)"]
OPTI=["some(1)","some(2).map((x:int)->{x})","some(9223372036854775808)"]
def pool(t):
    t=t.strip()
    opt=t.endswith("?")
    if opt: t=t[:-1].strip()
    m={"int":INT,"float":FLT,"str":STR,"bool":BOOL,"Sequence<int>":SEQI,"Sequence<float>":SEQF,"Sequence<str>":SEQS,
       "Sequence<T>":SEQI,"Sequence<T0>":SEQI,"Sequence<T1>":SEQI,"Generator<T>":GENI,"Generator<int>":GENI,"Generator<T0>":GENI,"Generator<T1>":GENI,
       "Complex":CPLX,"Fraction":FRAC,"Duration":DUR,"Date":DATE,"Datetime":DTIME,"DiscreteDistribution":DDIST,"ContinuousDistribution":CDIST,"Set<T>":SETI,"Set<int>":SETI,"Mapping<K,V>":MAPI,"Stack<T>":STKI,"Optional<T>":OPTI,"Optional<int>":OPTI,"K":INT[:6],"V":INT[:6],"Generator<float>":["[1.0].to_generator()","[1e308,1e308].to_generator()","[1.0].skip(1).to_generator()"],"Sequence<bool>":["[true]","[true].skip(1)","[false,true]"],"Sequence<(int, float)>":["[(1,0.5),(2,0.5)]","[(1,0.0)]","[(1,1e308),(2,1e308)]","[(1,-1.0)]","range(4611686018427387904).map((i:int)->{(i,1.0)})"],"(T, T)->bool":FN2B,"(T) -> (bool)":FN1B,"T":INT[:6],"T0":INT[:6],"T1":INT[:6],"U":INT[:6],
       "(T)->(bool)":FN1B,"(T)->bool":FN1B,"(T0)->(bool)":FN1B,"(T)->(U)":FN1I,"(T)->(T)":FN1I,"(T, T)->(T)":FN2I,"(T,T)->(T)":FN2I,"(T, T)->(bool)":FN2B,"(T,T)->(bool)":FN2B,"(T,T)->(int)":CMP,"(T, T)->(int)":CMP,
       "(T)->(int)":FN1I,"(T0)->(T1)":FN1I}
    return m.get(t)
def split_params(s):
    out=[];d=0;cur=""
    for ch in s:
        if ch in "(<": d+=1
        if ch in ")>": d-=1
        if ch=="," and d==0: out.append(cur);cur=""
        else: cur+=ch
    if cur.strip(): out.append(cur)
    return out
fns=[]
for f in sorted(glob.glob("/repo/book/src/std/*.md")):
    for l in open(f):
        m=re.match(r"##+ (?:dyn )?fn `([a-z_0-9]+)(?:<[^>]*>)?\((.*)\)\s*->",l)
        if m:
            name,ps=m.group(1),m.group(2)
            ps=[p.split(":",1)[1] if ":" in p else p for p in split_params(ps)]
            pools=[pool(p) for p in ps]
            if any(p is None for p in pools): continue
            fns.append((os.path.basename(f),name,pools))
print("functions:",len(fns),file=sys.stderr)
jobs=[]
for (f,name,pools) in fns:
    combos=set()
    total=1
    for p in pools: total*=len(p)
    n=min(total, 40)
    tries=0
    while len(combos)<n and tries<400:
        tries+=1
        combos.add(tuple(random.choice(p) for p in pools))
    for c in combos:
        jobs.append((f,name,"%s(%s)"%(name,", ".join(c)),len(jobs)))
print("jobs:",len(jobs),file=sys.stderr)
def run(j):
    f,name,e,i=j
    p=os.path.join(TMP, "t%d_%d.xr"%(os.getpid(),i))
    open(p,"w").write("fn main() -> bool { is_error(%s) }\n"%e)
    try:
        o=subprocess.run([XR,p,"--search","2000","--size","20000000","--calls","100000","--recursion","500"],capture_output=True,text=True,timeout=15).stdout.strip()
    except subprocess.TimeoutExpired: o="TIMEOUT"
    os.unlink(p)
    return (f,name,e,o[:300])
with ThreadPoolExecutor(16) as ex:
    res=list(ex.map(run,jobs))
bad=[r for r in res if r[3].startswith("panic") or r[3]=="TIMEOUT" or "panic" in r[3]]
ce=sum(1 for r in res if r[3].startswith("compile_error"))
print("compile errors:",ce,"of",len(res),file=sys.stderr)
seen={}
for r in bad:
    key=(r[1], re.sub(r"[0-9]+","N",r[3])[:120])
    seen.setdefault(key,[]).append(r)
for k,v in seen.items():
    print("==",k[0],"|",v[0][3].replace("\n"," ")[:200]); 
    for r in v[:3]: print("     ",r[2])
json.dump(res,open(os.path.join(TMP, "res.json"),"w"))
