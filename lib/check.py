#!/usr/bin/env python3
"""./check <Cxx> quick|thorough

Decides one property of /verif/properties.jsonl for /repo's *current working tree* by contract-based
deductive verification (Verus / Kani).  Exit 0: every obligation discharged (or exactly the listed
known findings failed); exit 1 + `VIOLATION property=<id> replay=<path>`: an obligation that is
discharged on the unchanged tree failed; exit 2: undecided (lost anchor, dialect, tool failure).
"""
import json, os, sys, time, traceback
sys.path.insert(0, os.path.dirname(os.path.abspath(__file__)))
from common import *
import props, verus, kani


def load_known():
    p = os.path.join(VERIF, "known_findings.json")
    if not os.path.exists(p):
        return {"findings": [], "fixed": []}
    return json.load(open(p))


def main():
    if len(sys.argv) < 3 or sys.argv[1] not in props.PROPS:
        print("usage: check <property> quick|thorough   (properties: %s)" % " ".join(sorted(props.PROPS)))
        return 64
    prop, tier = sys.argv[1], sys.argv[2]
    if os.environ.get("VERIF_TIER") in ("quick", "thorough") and len(sys.argv) < 3:
        tier = os.environ["VERIF_TIER"]
    seed = int(os.environ.get("VERIF_SEED", "0") or 0)
    P = props.PROPS[prop]
    t0 = time.time()
    ev_path = os.path.join(os.environ.get("XRAY_VERIF_OUT", VERIF), "evidence", prop + ".json")  # XRAY_VERIF_OUT: selftest runs write elsewhere
    os.makedirs(os.path.dirname(ev_path), exist_ok=True)
    if os.path.exists(ev_path):
        os.remove(ev_path)
    scratch = make_scratch(prop)
    obls, infos, undecided_msgs = [], [], []
    cmds = []
    try:
        repo_copy = os.path.join(scratch, "repo")
        copy_repo(repo_copy)
        for u in P["units"]:
            if tier == "quick" and u.get("thorough_only"):
                continue
            try:
                if u["kind"] == "verus":
                    o, info = verus.run_unit(u["unit"], repo_copy, os.path.join(scratch, "verus"), prop, tier)
                    obls += o
                    infos.append(info)
                    cmds.append(info["cmd"])
                elif u["kind"] == "kani-incrate":
                    crate = kani.prepare_incrate(repo_copy)
                    hs = [h for h in u["harnesses"] if tier == "thorough" or not h.get("thorough_only")]
                    o, inf, build_s = kani.run_harnesses(prop, crate, hs, tier)
                    obls += o
                    infos += inf
                    infos.append({"kani_incrate_build_s": round(build_s, 1)})
                    cmds += [i["cmd"] for i in inf if "cmd" in i]
                elif u["kind"] == "kani-mini":
                    crate = kani.prepare_mini(scratch, u["crate"], repo_copy)
                    hs = [h for h in u["harnesses"] if tier == "thorough" or not h.get("thorough_only")]
                    tgt = os.path.join(CACHE, "kani-target-" + u["crate"])
                    o, inf, build_s = kani.run_harnesses(prop, crate, hs, tier, target=tgt)
                    obls += o
                    infos += inf
                    infos.append({"kani_mini_build_s": round(build_s, 1), "crate": u["crate"]})
                    cmds += [i["cmd"] for i in inf if "cmd" in i]
                elif u["kind"] == "scan":
                    import scan
                    o, info = scan.run_unit(u, repo_copy, os.path.join(scratch, "scan"), prop, tier)
                    obls += o
                    infos.append(info)
                    cmds.append(info.get("cmd", "vx scan"))
                else:
                    raise Undecided("unknown unit kind " + u["kind"])
            except Undecided as e:
                undecided_msgs.append(str(e))
    except Exception as e:  # tool crash: never a verdict
        undecided_msgs.append("driver error: " + "".join(traceback.format_exception_only(type(e), e)).strip())
        traceback.print_exc()
    finally:
        keep = os.environ.get("XRAY_VERIF_KEEP")
        if not keep:
            rm_rf(scratch)
        else:
            print("scratch kept at", scratch)

    known = load_known()
    known_ids = {f["obligation"]: f for f in known.get("findings", []) if f.get("property") == prop}
    failed = [o for o in obls if o.status == FAILED]
    undec = [o for o in obls if o.status == UNDECIDED]
    kf = [o for o in failed if o.id in known_ids]
    new = [o for o in failed if o.id not in known_ids]
    n_dis = sum(1 for o in obls if o.status == DISCHARGED)
    n_bnd = sum(1 for o in obls if o.status == BOUNDED_OK)
    wall = time.time() - t0

    # ---------------- replay files for new violations
    replay_path = None
    any_witness = False
    if new:
        rdir = os.path.join(os.environ.get("XRAY_VERIF_OUT", VERIF), "replays")
        os.makedirs(rdir, exist_ok=True)
        replay_path = os.path.join(rdir, "%s-%s.json" % (prop, time.strftime("%Y%m%d-%H%M%S")))
        rep = {"property": prop, "tier": tier, "repo_fingerprint": repo_fingerprint(), "failed_obligations": []}
        for o in new:
            ent = o.to_json()
            ent["verifier_output"] = o.raw
            if o.witness:
                any_witness = True
                ent["witness"] = o.witness
                ent["replayed_on_real_code"] = o.witness.get("replay")
            rep["failed_obligations"].append(ent)
        with open(replay_path, "w") as f:
            json.dump(rep, f, indent=1)

    # ---------------- evidence
    level = P["level"]
    samples = [o.to_json() for o in obls[:6]] + [o.to_json() for o in failed[:6]]
    fns = sorted(set(o.fn for o in obls if o.fn))
    coverage = {
        # obligations that fail exactly as a listed known finding are reported under
        # `known_findings_failed` and are not part of the proved set
        "obligations": len([o for o in obls if o.status != BOUNDED_OK and o not in kf]),
        "discharged": n_dis,
        "bounded_obligations": [o.to_json() for o in obls if o.status == BOUNDED_OK],
        "bounded_ok": n_bnd,
        "failed": len(failed),
        "known_findings_failed": [o.id for o in kf],
        "undecided": [o.to_json() for o in undec] + [{"unit_error": m[:1500]} for m in undecided_msgs],
        "checker_cmd": " ; ".join(cmds)[:6000] or "none",
        "trusted_base": props.TRUSTED_COMMON + (props.TRUSTED_INCRATE if any(u["kind"] == "kani-incrate" for u in P["units"]) else []),
        "functions_under_contract": fns,
        "units": infos,
        "unreached": P.get("unreached", []),
        "samples": samples,
        "repo_fingerprint": repo_fingerprint(),
        "exhaustive": False,
        "explanation": P.get("explanation", ""),
        "evaluations": len(obls),
        "distinct_nontrivial": len(set(o.id for o in obls)),
        "rule": "one evaluation = one named proof obligation (a Verus function body against its contract, or one assertion / the aggregated safety check of one Kani harness over its full symbolic domain); distinct by obligation id",
    }
    ev = {
        "property_id": prop, "tier": tier, "seed": seed, "level": level, "coverage": coverage,
        "assumptions": P.get("assumptions", []) + ["machine arithmetic: usize is 64-bit in both back ends", "termination is not verified by Kani"],
        "wall_s": round(wall, 2), "violations": len(new),
    }
    with open(ev_path, "w") as f:
        json.dump(ev, f, indent=1)

    # ---------------- verdict
    print("property %s tier %s: %d obligations, %d discharged, %d bounded-ok, %d failed (%d known), %d undecided, %.1fs"
          % (prop, tier, len(obls), n_dis, n_bnd, len(failed), len(kf), len(undec) + len(undecided_msgs), wall))
    for o in kf:
        print("KNOWN-FINDING: property=%s %s -- %s" % (prop, o.id, known_ids[o.id].get("what", "")))
    if new:
        for o in new:
            print("FAILED-OBLIGATION %s :: %s" % (o.id, o.detail))
        tail = "" if any_witness else " no-failing-input-found"
        print("VIOLATION property=%s replay=%s%s" % (prop, replay_path, tail))
        return 1
    if undec or undecided_msgs or not obls:
        for o in undec:
            print("UNDECIDED %s :: %s" % (o.id, o.detail))
        for m in undecided_msgs:
            print("UNDECIDED unit :: %s" % m[:3000])
        if not obls:
            print("UNDECIDED: zero obligations generated")
        return 2
    return 0


if __name__ == "__main__":
    sys.exit(main())
