#!/usr/bin/env python3
"""Write seeded/<id>/meta.json from confirm.json (my own confirmation in the scratch worktree) and detect.json
(runs of /verif/check against the change applied to /repo).  usage: seedmeta.py <seed_dir> <prop> "<needs to manifest>" """
import json, os, sys
sd, prop, needs = sys.argv[1], sys.argv[2], sys.argv[3]
c = json.load(open(os.path.join(sd, "confirm.json")))
d = json.load(open(os.path.join(sd, "detect.json"))) if os.path.exists(os.path.join(sd, "detect.json")) else []
runs = []
for r in d:
    lines = [l.strip() for l in r.get("output", []) if "FAILED-OBLIGATION" in l or "VIOLATION" in l or "UNDECIDED" in l][:6]
    runs.append({"cmd": "git -C /repo apply patch.diff && ./check %s %s && git -C /repo checkout -- ." % (r["prop"], r["tier"]),
                 "exit": r.get("check_rc"), "detected": r.get("detected", False), "lines": [l[:300] for l in lines]})
last = runs[-1] if runs else {}
meta = {
    "seed": os.path.basename(sd.rstrip("/")), "property": prop,
    "origin": "independent sub-agent given only the property text and a scratch worktree",
    "needs_to_manifest": needs,
    "confirmed_by_me": {
        "demo_passes_without_patch": c["demo_without_patch"]["rc"] == 0,
        "demo_fails_with_patch": c["demo_with_patch"]["rc"] != 0,
        "unedited_suite_passes_with_patch": c["suite_with_patch"]["rc"] == 0,
        "commands": [c["demo_without_patch"]["cmd"], "git apply patch.diff", c["suite_with_patch"]["cmd"]],
    },
    "check_runs": runs,
    "detected_by_current_checks": bool(last.get("detected")),
    "undecided_by_current_checks": last.get("exit") == 2,
}
json.dump(meta, open(os.path.join(sd, "meta.json"), "w"), indent=1)
print(meta["seed"], "detected" if meta["detected_by_current_checks"] else ("undecided" if meta["undecided_by_current_checks"] else "missed"))
