"""Shared vocabulary of the check driver: obligations, verdict classes, scratch handling."""
import json, os, shutil, subprocess, tempfile, time, hashlib, re

VERIF = os.path.dirname(os.path.dirname(os.path.abspath(__file__)))
REPO = os.environ.get("XRAY_REPO", "/repo")
CACHE = os.path.join(VERIF, ".cache")
SCRATCH_ROOT = os.environ.get("XRAY_VERIF_SCRATCH", "/var/tmp")

DISCHARGED = "discharged"      # proved for the whole domain (Verus) / complete Kani harness
BOUNDED_OK = "bounded-ok"      # Kani harness with a stated bound: held within the bound
FAILED = "failed"              # verifier refuted / could not establish an obligation that it
                               # establishes on the unchanged tree
UNDECIDED = "undecided"        # lost anchor, dialect, tool crash, timeout, rlimit


class Undecided(Exception):
    pass


class Obligation:
    def __init__(self, oid, backend, status, detail="", time_s=0.0, bound=None, fn=None,
                 witness=None, src=None, raw=None):
        self.id = oid
        self.backend = backend
        self.status = status
        self.detail = detail
        self.time_s = time_s
        self.bound = bound
        self.fn = fn            # real function under contract
        self.witness = witness  # dict or None
        self.src = src          # (file, line) in /repo
        self.raw = raw          # verifier output excerpt

    def to_json(self):
        d = {"id": self.id, "backend": self.backend, "status": self.status}
        if self.detail:
            d["detail"] = self.detail
        if self.time_s:
            d["time_s"] = round(self.time_s, 2)
        if self.bound:
            d["bound"] = self.bound
        if self.fn:
            d["fn"] = self.fn
        if self.src:
            d["src"] = "%s:%s" % self.src
        if self.witness:
            d["witness"] = self.witness
        return d


def make_scratch(tag):
    os.makedirs(SCRATCH_ROOT, exist_ok=True)
    d = tempfile.mkdtemp(prefix="xray-verif-%s-" % tag, dir=SCRATCH_ROOT)
    return d


def copy_repo(dst):
    """fresh copy of /repo's *working tree* (not HEAD), without build output and VCS data"""
    os.makedirs(dst, exist_ok=True)
    subprocess.run(["rsync", "-a", "--delete", "--exclude", "/target", "--exclude", "/.git",
                    REPO.rstrip("/") + "/", dst.rstrip("/") + "/"], check=True)


def rm_rf(p):
    shutil.rmtree(p, ignore_errors=True)


def sh(cmd, cwd=None, env=None, timeout=None):
    t0 = time.time()
    e = dict(os.environ)
    if env:
        e.update(env)
    try:
        p = subprocess.run(cmd, cwd=cwd, env=e, capture_output=True, text=True, timeout=timeout,
                           errors="replace")
        return p.returncode, p.stdout, p.stderr, time.time() - t0
    except subprocess.TimeoutExpired as ex:
        out = ex.stdout or ""
        err = ex.stderr or ""
        if isinstance(out, bytes):
            out = out.decode(errors="replace")
        if isinstance(err, bytes):
            err = err.decode(errors="replace")
        return -9, out, err + "\n[TIMEOUT after %ss]" % timeout, time.time() - t0


def slug(s, n=60):
    s = re.sub(r"\s+", "", s)
    return s[:n]


def repo_fingerprint():
    """hash of the source files of the working tree (for the evidence file)"""
    h = hashlib.sha256()
    for root, dirs, files in os.walk(os.path.join(REPO, "src")):
        dirs.sort()
        for f in sorted(files):
            p = os.path.join(root, f)
            h.update(p.encode())
            with open(p, "rb") as fh:
                h.update(fh.read())
    return h.hexdigest()[:16]
