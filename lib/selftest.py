#!/usr/bin/env python3
"""selftest.py [-j N] [seed ...] -- regression of the machinery against the confirmed seeded changes.
Each seed is applied to its own scratch copy of /repo (never to /repo itself), the property's quick check is run
against that copy (XRAY_REPO) with evidence / replay files redirected (XRAY_VERIF_OUT), and the outcome is compared
with seeded/<id>/meta.json (detected / undecided / missed).  Scratch copies live under /var/tmp and are removed."""
import json, os, shutil, subprocess, sys, tempfile, threading, time
from concurrent.futures import ThreadPoolExecutor
VERIF = os.path.dirname(os.path.dirname(os.path.abspath(__file__)))
args = sys.argv[1:]
jobs = 3
if args[:1] == ["-j"]:
    jobs = int(args[1]); args = args[2:]
seeds = args or sorted(os.listdir(os.path.join(VERIF, "seeded")))
# checks with Kani units share one cargo target directory: one at a time, in a target dir of their own
KANI_PROPS = {"C08", "C09", "C11", "C13", "C14", "C19"}
kani_lock = threading.Lock()

def one(sid):
    sd = os.path.join(VERIF, "seeded", sid)
    meta = json.load(open(os.path.join(sd, "meta.json")))
    prop = meta["property"]
    want = "detected" if meta.get("detected_by_current_checks") else ("undecided" if meta.get("undecided_by_current_checks") else "missed")
    d = tempfile.mkdtemp(prefix="xray-selftest-%s-" % sid, dir="/var/tmp")
    try:
        repo = os.path.join(d, "repo")
        subprocess.run(["rsync", "-a", "--exclude", "target", "--exclude", ".git", "/repo/", repo + "/"], check=True)
        a = subprocess.run(["patch", "-p1", "-s", "-d", repo, "-i", os.path.join(sd, "patch.diff")], capture_output=True, text=True)
        if a.returncode != 0:
            return sid, prop, want, "patch-failed", a.stdout[-300:]
        env = dict(os.environ, XRAY_REPO=repo, XRAY_VERIF_OUT=os.path.join(d, "out"),
                   XRAY_KANI_TARGET=os.path.join(VERIF, ".cache", "kani-target-selftest"))
        t0 = time.time()
        if prop in KANI_PROPS:
            with kani_lock:
                p = subprocess.run([os.path.join(VERIF, "check"), prop, "quick"], capture_output=True, text=True, env=env)
        else:
            p = subprocess.run([os.path.join(VERIF, "check"), prop, "quick"], capture_output=True, text=True, env=env)
        got = {0: "missed", 1: "detected", 2: "undecided"}.get(p.returncode, "rc%d" % p.returncode)
        lines = [l for l in p.stdout.split("\n") if l.startswith("FAILED-OBLIGATION") or l.startswith("UNDECIDED")][:3]
        return sid, prop, want, got, "%.0fs %s" % (time.time() - t0, " | ".join(x[:140] for x in lines))
    finally:
        shutil.rmtree(d, ignore_errors=True)

bad = 0
with ThreadPoolExecutor(max_workers=jobs) as ex:
    for sid, prop, want, got, info in ex.map(one, seeds):
        ok = (want == got) or (want in ("missed", "undecided") and got == "detected")
        bad += 0 if ok else 1
        print("%-10s %-4s want=%-9s got=%-9s %s %s" % (sid, prop, want, got, "ok " if ok else "REGRESSION", info), flush=True)
print("selftest: %d seeds, %d regressions" % (len(seeds), bad))
sys.exit(1 if bad else 0)
