"""Registry: property -> units (which back end, which harnesses / extraction units) and the
evidence boilerplate.  The contracts themselves live in /verif/contracts."""

RT = "__vx::rt::"

TRUSTED_COMMON = [
    "Verus 0.2026.09.13 + Z3 (Verus units); Kani 0.68 + CBMC 6.11 + CaDiCaL (Kani units)",
    "vx extractor (/verif/vx): path-based selection, rewrite rules R-match/R-op/R-deref/R-reborrow/R-drop/R-self (DESIGN.md 2.1)",
    "rustc: type and borrow checking of the real crate",
]
TRUSTED_INCRATE = [
    "in-crate Kani build substitutions: proc-macro2 1.0.106 in the scratch lockfile, ahash 0.7.6 with the two nightly cfg lines removed from build.rs, constant std::hash::RandomState (CBMC cannot call getrandom)",
]

PROPS = {
    "C08": {
        "level": "proof",
        "units": [
            {"kind": "kani-incrate", "harnesses": [
                {"harness": RT + "c08_increment_call_limit", "fn": "src/runtime.rs :: Runtime::increment_call_limit"},
                {"harness": RT + "c08_reset_counters", "fn": "src/runtime.rs :: Runtime::{reset_ud_calls, reset_call_limit}"},
                {"harness": RT + "c08_reset_then_call", "fn": "src/runtime.rs :: Runtime::{reset_call_limit, increment_call_limit}"},
                {"harness": RT + "c08_search_iter_b3", "fn": "src/runtime.rs :: RuntimeLimits::search_iter",
                 "bound": "search limit at most 3 (and the first 4 items of the unlimited stream)", "timeout": 600},
                {"harness": RT + "c08_search_iter_b12", "fn": "src/runtime.rs :: RuntimeLimits::search_iter", "thorough_only": True,
                 "bound": "search limit at most 12 (and the first 4 items of the unlimited stream)", "timeout": 1800},
            ]},
            {"kind": "verus", "unit": "tail"},
            {"kind": "verus", "unit": "budget"},
            {"kind": "verus", "unit": "seqsearch"},
            {"kind": "verus", "unit": "timeout"},
            {"kind": "verus", "unit": "depthorder"},
            {"kind": "verus", "unit": "snth"},
            {"kind": "scan", "spec": "ufcall_sites"},
        ],
        "unreached": [
            "the searching builtins other than the loops of sequence take_while / skip_until / nth (find, contains, the natives written over generators ...): that each consumes one permit per element examined",
            "that a native cannot evaluate a user-function BODY by other means than a frame (the frame construction sites are enumerated by S-ufcall: only eval_func_with_values and the root scope; natives that call `nc(..)` of another native directly do not run user code)",
        ],
        "assumptions": ["an evaluation performs fewer than 2^64 consecutive tail calls / nested frames (usize counters)",
                        "V-budget: std's repeat_with / take / chain / once, either::Either and Zip by their documented meaning (stream model: length and item at each index); V-seqsearch: iterator model of V-derive, the budget stream restated for finite streams (budget_shape)"],
    },
    "C10": {
        "level": "other",
        "explanation": "Narrow claim on six mechanisms, each decided by a Verus contract on real text. (1) Runtime::check_timeout answers the Timeout violation exactly when the configured deadline is not after the clock reading it takes (with V-tail, claimed under C07/C08, proving that the trampoline performs this check before any frame of a user function is built: once the time limit has elapsed no further user-function call begins). (2) With a search limit configured the search budget is a FINITE stream ending in a violation, so every loop that draws one item per step and stops at the violation terminates within the limit. (3) The numeric loop of `digits` terminates (decreases |n|, proved) and its divisions are defined. (4) Two internally iterating adaptors of XGenerator::_iter: the Chain arm hands flat_map a lazy iterator for each part (no call that needs the part to be finite -- `collect` does), and every call of the step function of the Repeat arm terminates (decreases clause), an empty generator repeating to the empty stream. (1) is now decided under this property too: unit V-tail (the trampoline draws on the call limit and checks the timeout before it builds a frame). (6) The Windows and Group arms of XGenerator::_iter draw one permit of their own search budget for every element they buffer (units V-gwindows, V-ggroup: the step closures' contracts), so filling a window or a group of an endless generator ends in MaximumSearch. (5) The index natives combination, combination_with_replacement and permutation: their loops run for up to n resp. k*k steps for usize arguments; every iteration first draws one permit of the call's search budget (ghost iteration counter == permits drawn, proved as a loop invariant on the real text), so with a search limit L a call ends within L iterations or in MaximumSearch, and the loops terminate without one (decreases clauses). NOT decided: that every native loop and every other internally iterating adaptor (group, windows, product, skip over a huge count, multinom) draws on the budget or is otherwise bounded -- a claim about all natives, listed as unreached.",
        "units": [
            {"kind": "verus", "unit": "timeout"},
            {"kind": "verus", "unit": "budgetfin"},
            {"kind": "verus", "unit": "digits"},
            {"kind": "verus", "unit": "gchainarm"},
            {"kind": "verus", "unit": "grepeat"},
            {"kind": "verus", "unit": "grepeatarm"},
            {"kind": "verus", "unit": "comb"},
            {"kind": "verus", "unit": "permut"},
            {"kind": "verus", "unit": "tail"},
            {"kind": "verus", "unit": "gwindows"},
            {"kind": "verus", "unit": "ggroup"},
        ],
        "unreached": [
            "that each searching / iterating native consumes one budget item per unit of work (under contract: the unranking loops of combination / combination_with_replacement / permutation here, the scan loops of sequence take_while / skip_until under C08/C15)",
            "adaptors that iterate internally other than Chain / Repeat / Windows / Group: product, and `skip(n)` for a huge n on an endless generator built from a sequence (seen by probing: count(0).to_generator().skip(10**12).take(1) keeps the interpreter busy under any search limit -- the budget is drawn per element the OUTERMOST iterator yields; no contract here decides it); binom / multinom loops (range-bounded `for` loops; multinom not under contract)",
            "further runaway natives seen by probing the documented natives with extreme arguments under finite limits, not under contract: floor_root / ceil_root with a huge root (written in the language on top of pow and bisect; with a size limit configured they end in AllocationLimitReached since fix 04851f9), and pow itself when NO size limit is configured (the power of a huge exponent is computed whatever the search and call limits say)",
            "the proportionality (complexity) part of the statement: no contract here bounds the amount of work, only termination of the loops listed",
        ],
        "assumptions": ["std::time::Instant as a point on the integer line; Instant::now() as a ghost-logged reading (R-state)",
                        "std's repeat_with / take / chain / once and either::Either by their documented meaning (stream model)"],
    },
    "C17": {
        "level": "other",
        "explanation": "Narrow claim on the hash-table representation of mappings and sets, decided by Verus contracts on real text (the structs, KeyLocation and the bucket aliases are the real definitions). (1) Lookup: XMapping::locate and XSet::locate answer Vacant exactly when the table has no bucket for the key's hash, and otherwise the outcome of scanning THAT bucket in order with the user's equality: Found at the first index whose key is equal, the error value of the first comparison that fails before that, Missing when none is equal; an error value or an out-of-range answer of the hash function is the result as an error value. (2) Insertion / overwrite: XMapping::try_put_located stores the callback's value at a valid location -- Found: the pair keeps its key and gets the value, nothing else changes, len unchanged; Missing: (k, v) appended to the bucket, len + 1; Vacant: a new bucket, len + 1; an error value or violation of the callback is handed on and NOTHING changes -- and put_located / put / try_put do the same through locate; XMapping::get reads the value at a location. (3) Bulk update: XSet::with_update and XMapping::with_update (whole bodies, loop invariant) return a NEW collection that satisfies the representation invariant (len is the number of stored entries, every key lies in the bucket of its own hash), retains every key of the receiver in place, holds every item afterwards, adds a key only when equality answered false for every key stored before it in its bucket (no duplicates), and -- for mappings -- stores for every key the receiver's value or the value of an item that hit it, the most recent item being what a lookup of its key finds (last one wins). (4) Removal: the natives pop / discard of mappings and remove / discard of sets (from the emptiness test to the end of the closure, with their iterator towers over the table) answer, when locate finds the key at (h, i), a NEW collection whose table is the receiver's with bucket h replaced by that bucket without its i-th entry (every other bucket and the order inside bucket h unchanged), len one less; a key that cannot be found gives an error value (pop / remove) resp. the receiver itself (discard), a key that can be found never does; the pre-flight arithmetic cannot overflow. (5) Natives: `lookup` answers some(the value stored at the location locate finds) / none(), `get` with a default answers the stored value without evaluating the default, or what the default evaluates to; `contains` of sets answers whether locate finds the element; `set_default` answers the receiver itself when the key is found (the default is not evaluated) and otherwise a NEW mapping with the evaluated default stored at the location; `update_from_keys` (bulk update with callbacks, on which counting is written) answers the LEFT FOLD over the keys, in order, of the single-key update -- the key is located in the table built so far; found: on_occupied(key, stored value) replaces the value; absent: (key, on_empty(key)) is appended / opens a bucket; nothing else changes -- and a failing callback ends it with that failure. NOT decided: the natives set / update around with_update (argument evaluation, downcasts; they hand one item / the generator's items to with_update), the set algebra and the helpers written in the xray language, consistency requirements on the user's hash / eq (the contracts hold for ANY hash / eq that answer an Int / a Bool).",
        "units": [
            {"kind": "verus", "unit": "locate"},
            {"kind": "verus", "unit": "slocate"},
            {"kind": "verus", "unit": "setupd"},
            {"kind": "verus", "unit": "mapupd"},
            {"kind": "verus", "unit": "mapdel"},
            {"kind": "verus", "unit": "setdel"},
            {"kind": "verus", "unit": "maplookup"},
            {"kind": "verus", "unit": "setlookup"},
            {"kind": "verus", "unit": "tabhash"},
            {"kind": "verus", "unit": "mapeq"},
        ],
        "unreached": [
            "the remaining bulk operations that rebuild the table (clear, update_from_keys, dyn_new / to_generator towers)",
            "the native closures around with_update (set, update, add: argument evaluation, downcasts, pre-flight checks; lookup / get / set_default / update_from_keys are under contract from the statements after the downcasts on), set len; XMapping::new callers; iteration order of `iter`",
            "set algebra and mapping helpers written in the xray language (include.rs); derived eq / hash of mappings and sets",
            "that the representation invariant holds of every collection a program can build (it is a precondition of with_update; `mapping()` / `set()` start from the empty table, where it holds)",
        ],
        "assumptions": ["the evaluator as a deterministic function `apply`; hash answers an Int, eq a Bool (type facts, C01)",
                        "std HashMap<u64, _>::get by vstd's specification (V-locate) resp. a model HashMap with get / get_mut / insert / entry().or_insert() / clone / index by their documented meaning (V-setupd, V-mapupd); slice::Iter / enumerate by the finite iterator model; `total` (sum of the bucket lengths of a finite map) by one axiom; the item stream of with_update is finite; len + number of items < usize::MAX (trusted)",
                        "V-setupd / V-mapupd use `locate` through the postcondition V-slocate / V-locate prove (restated with the inner quantifier named `all_false`)"],
    },
    "C18": {
        "level": "other",
        "explanation": "Narrow claim on the dual representation of strings. Decided by Verus contracts on real text: every method of FencedString that builds or reads the representation (src/util/fenced_string.rs: from_string, from_str, len, substr, substring, char_index_of_byte, bytes, as_str, is_empty, push, push_ascii, shrink_to_fit, to_lowercase, to_uppercase, and the `+` impl) against the representation invariant (an empty offset table means pure ASCII text, a non-empty one has one entry per code point, entry i being the byte offset of code point i): the constructor establishes the invariant over exactly the given text (and keeps no table for ASCII text); `len` is the number of code points; `substr` / `substring` of (start, end) with start <= len denote exactly the code points [start, min(end, len)) whichever representation the string has, and `substring` returns a well-formed string; push / `+` give the concatenation with a table for the whole, for each of the four combinations of representations; case mapping returns the mapped text with a table for ITS code points; the natives get / find / rfind / substring (src/builtin/str.rs) turn every out-of-range request into an error value before they reach those functions, and find / rfind answer code-point positions; the native `+` on strings answers the concatenation (after an overflow-free pre-flight check), and the generator consumer `join` (on which the language's join / repetition are written) answers e0 + d + e1 + ... + e(n-1), well-formed, the leftmost error value or violation ending it. UTF-8 itself is abstracted by uninterpreted functions (number of code points, byte offset of a code point) with the boundary / slicing / concatenation facts the code relies on as axioms; `String` / `Vec` / `str` / `Either` are model types of the same names. NOT decided: the literal grammar and escapes, formatted strings, comparison, and every string function written in the xray language (split, replace, strip, partition, ...).",
        "units": [
            {"kind": "verus", "unit": "fstr"},
            {"kind": "verus", "unit": "strnat"},
            {"kind": "verus", "unit": "strjoin"},
        ],
        "unreached": [
            "the literal grammar (xray.pest), escapes (str_escapes.rs), formatted strings (xformatter.rs)",
            "string functions written in the xray language (include.rs: split, replace, strip, partition, chars, reverse, ...), comparison (bytewise on the buffer), repetition, ord / chr, the regex natives",
            "what std's case mapping answers (lower / upper are uninterpreted); FencedString::iter (chars of the buffer)",
        ],
        "assumptions": ["UTF-8 abstracted: nchars / off / ascii are uninterpreted, with axioms: offsets are strictly increasing from 0 to the byte length; a piece cut at two code-point offsets has the code points in between, offsets shifted, and stays ASCII; ASCII text has one byte per code point and conversely; the empty text is ASCII; a concatenation has the code points of the first text followed by those of the second",
                        "String / str / Vec / slices / either::Either are model types (byte / element sequences) with slicing, to_string, get, push, push_str, extend, char_indices, iter().map().collect(), (a..b).chain(..).collect() by their documented meaning; a String holds at most isize::MAX bytes; std panics on a str slice off a char boundary are not modelled beyond the range bounds (the offsets used are code-point offsets by the invariant)"],
    },
    "C06": {
        "level": "other",
        "explanation": "Narrow claim on the hand-written forwarding code. Almost all propagation in the crate is `?` on RuntimeResult and the early-return macros, which the type system makes impossible to skip. Decided here by Verus contracts on real text: the macros xraise!/forward_err! return the error they receive; the search-budget closure of XGenerator::iter lets the budget's violation win and otherwise returns the element unchanged; the element closures of the adaptors Aggregate, Filter, TakeWhile, SkipUntil hand on a violation of the incoming element and a violation or error value answered by the user callback, unchanged and never as None. Decided by enumeration: every function of the crate that inspects a Result's failure case other than by `?`/macros is listed with its classification (documented handler, library-error conversion, forwarding arm with pinned text), with the number of sites pinned. The element closures of SuccessorsUntil, WithCount, Windows and Group (units of C16) carry the same clauses: a violation of the incoming element or of the search budget is the element yielded, an error value of the element or of the user callback is the element yielded, and the adaptor's state is untouched. NOT decided: leftmost-error order of constructions (std collect semantics), that a user function yields an unused erroring argument, that collections never contain errors, the adaptors Map, Zip, Product.",
        "units": [
            {"kind": "verus", "unit": "fwd"},
            {"kind": "verus", "unit": "errh"},
            {"kind": "scan", "spec": "inspect_sites"},
            # the element closures of further adaptors (units built for C16): their contracts state, for every incoming
            # element, that a violation and an error value (of the element or of the user callback) are handed on
            {"kind": "verus", "unit": "gsucc"},
            {"kind": "verus", "unit": "gwithcount"},
            {"kind": "verus", "unit": "gwindows"},
            {"kind": "verus", "unit": "ggroup"},
        ],
        "unreached": [
            "leftmost-error order in construction / argument evaluation (runtime_scope.rs: std's collect on nested Results)",
            "user-function call path: whether an erroring argument that the body never uses is propagated",
            "the adaptors Map, Zip, Product of XGenerator::_iter; mapping/set/sequence insertion natives",
        ],
        "assumptions": ["the user callback is represented by a ghost log of its answer (stub contract of eval_func_with_values)"],
    },
    "C07": {
        "level": "proof",
        "units": [
            {"kind": "verus", "unit": "tail"},
            {"kind": "verus", "unit": "tailfwd"},
            {"kind": "verus", "unit": "shortcut"},
            {"kind": "scan", "spec": "tca_sites"},
        ],
        "unreached": [
            "that the trampoline computes what ordinary recursion computes (needs a semantics of evaluation)",
            "that a forwarded tail evaluation's result is returned unchanged by the carriers other than `if`, `and`, `or` (V-shortcut proves it for these three on the real text; for the rest the skeletons keep the evaluation calls and their flag, not the data flow of the result)",
            "in the Call arm: that the callee is the local recursion cell (the `if let` conditions are dropped by the skeleton; only `tail_available` is kept)",
        ],
        "assumptions": ["contracts of from_template / eval / increment_call_limit / check_timeout as stated in tail.prelude.rs (ghost history)",
                        "an evaluation performs fewer than 2^64 consecutive tail calls"],
    },
    "C09": {
        "level": "proof",
        "units": [
            {"kind": "kani-incrate", "harnesses": [
                {"harness": RT + "c09_allocate", "fn": "src/runtime.rs :: Runtime::allocate"},
                {"harness": RT + "c09_deallocate", "fn": "src/runtime.rs :: Runtime::deallocate"},
                {"harness": RT + "c09_allocate_deallocate_balance", "fn": "src/runtime.rs :: Runtime::{allocate, deallocate}"},
                {"harness": RT + "c09_can_allocate_by", "fn": "src/runtime.rs :: Runtime::can_allocate_by"},
                {"harness": RT + "c09_allocate_monotone_in_limit", "fn": "src/runtime.rs :: Runtime::allocate"},
                {"harness": RT + "c09_managed_error_new_and_drop", "fn": "src/xvalue.rs :: ManagedXError::{new, drop}"},
            ]},
            {"kind": "verus", "unit": "size"},
            {"kind": "verus", "unit": "intsize"},
            {"kind": "verus", "unit": "managed"},
            {"kind": "verus", "unit": "nlargest"},
            {"kind": "verus", "unit": "nlpre"},
            {"kind": "verus", "unit": "galloc"},
            {"kind": "verus", "unit": "tabsize"},
            {"kind": "verus", "unit": "stack"},
            {"kind": "verus", "unit": "intops"},
            {"kind": "verus", "unit": "ssample"},
            {"kind": "scan", "spec": "preflight_sites"},
        ],
        "unreached": ["dyn_size of Regex (memory_usage of the regex-automata crate); that every container value is built through ManagedXValue::new (argued from the private fields of the struct); the pre-flight checks of the individual natives (V-intops decides those of the integer builtins, V-nlargest the capacity request of n_largest / n_smallest)"],
        "assumptions": [],
    },
    "C11": {
        "level": "proof",
        "units": [
            {"kind": "kani-incrate", "harnesses": [
                {"harness": RT + "c11_default_table", "fn": "src/builtin/builtin_permissions.rs :: NOW, PRINT, PRINT_DEBUG, RANDOM, REGEX, SLEEP"},
            ]},
            {"kind": "verus", "unit": "perm"},
            {"kind": "verus", "unit": "guard"},
            {"kind": "scan", "spec": "effect_sites"},
        ],
        "unreached": [],
        "assumptions": [],
    },
    "C13": {
        "level": "proof",
        "units": [
            {"kind": "kani-incrate", "harnesses": [
                {"harness": RT + "c13_checked_float_ctor", "fn": "src/xvalue.rs :: XValue::float"},
                {"harness": RT + "c13_neg_preserves_finiteness", "fn": "src/builtin/floats.rs :: add_float_neg (operation lemma for the site's operand expression `-a`)"},
            ]},
            {"kind": "scan", "spec": "float_ctor"},
        ],
        "unreached": [],
        "assumptions": [],
    },
    "C15": {
        "level": "proof",
        "units": [
            {"kind": "verus", "unit": "seq"},
            {"kind": "verus", "unit": "comb"},
            {"kind": "verus", "unit": "permut"},
            {"kind": "verus", "unit": "ssample"},
            {"kind": "verus", "unit": "seqsearch"},
            {"kind": "verus", "unit": "rangector"},
            {"kind": "verus", "unit": "idx"},
            {"kind": "verus", "unit": "sequpd"},
            {"kind": "verus", "unit": "snth"},
            {"kind": "verus", "unit": "seqchain"},
            {"kind": "verus", "unit": "seqmap"},
        ],
        "unreached": [
            "of XSequence::chain the emptiness shortcuts and downcasts before the extracted statements (V-seqchain proves the representability guard, the flattening, the exactly shifted midpoints and that they stay sorted; the Chain arm of len is under contract); len on Map/Zip/Slice, the index native `get` is under contract from the statement after the downcast on; get on Zip (get on Map is under contract: f applied to what the inner element answers) (macros over dyn Any downcasts, Cow, iterator chains: outside Verus' dialect; BigInt promotion closure makes them intractable for CBMC)",
            "of push / rpush / insert / pop / set / swap the prefix before the extracted statements (argument evaluation, downcast, the finiteness test and the allocation pre-flight); of the index natives combination / combination_with_replacement / permutation that the indices are the i-th combination / permutation in lexicographic order (decided: panic-freedom, the error cases, count, bounds and monotonicity of the indices); every other native builtin body; Map/Zip representations (call the evaluator); include.rs",
        ],
        "assumptions": ["LazyBigint operations by the contracts unit V-int proves (canonical representation of the mathematical result)",
                        "V-sequpd / V-seqsearch: the argument sequence is finite and holds values; XSequence::iter yields the elements in index order; std take / skip / collect / enumerate / zip / size_hint by their documented meaning (trusted iterator model)"],
    },
    "C16": {
        "level": "proof",
        "units": [
            {"kind": "verus", "unit": "gslice"},
            {"kind": "verus", "unit": "gstep"},
            {"kind": "verus", "unit": "gcons"},
            {"kind": "verus", "unit": "gnth"},
            {"kind": "verus", "unit": "genchain"},
            {"kind": "verus", "unit": "gwindows"},
            {"kind": "verus", "unit": "ggroup"},
            {"kind": "verus", "unit": "gchainarm"},
            {"kind": "verus", "unit": "grepeat"},
            {"kind": "verus", "unit": "grepeatarm"},
            {"kind": "verus", "unit": "gsucc"},
            {"kind": "verus", "unit": "gwithcount"},
        ],
        "unreached": [
            "the adaptors Zip, Product of XGenerator::_iter (SuccessorsUntil, WithCount: the step closures are under contract; Chain and Repeat: the closure handed to flat_map resp. the step function are under contract; that flat_map / from_fn concatenate / call them as documented is trusted); that std's filter_map / map_while / map / scan apply the step closure to every element in order (documented meaning, trusted); laziness / look-ahead of the other adaptors, re-iterability, the consumers join / the reducing ones (to_array, len, last, get, nth are under contract from the statement after the downcast), and the adaptors written in the xray language",
        ],
        "assumptions": ["V-gstep: the evaluator as a deterministic function `apply`; predicates answer a Bool (type fact, C01); std's filter_map / map_while / map / scan apply the closure to each element in order",
                        "std::iter::Iterator::{skip, take} by their documented meaning on a sequence view (finite-prefix model of a stream)",
                        "Option::iter().chain(..).min().cloned() on two Options is the smaller present value (R-optmin)"],
    },
    "C19": {
        "level": "proof",
        "units": [
            {"kind": "verus", "unit": "sort"},
            {"kind": "verus", "unit": "runs"},
            {"kind": "verus", "unit": "fmt"},
            {"kind": "verus", "unit": "ffmt"},
            {"kind": "verus", "unit": "relop"},
            {"kind": "verus", "unit": "derive"},
            {"kind": "verus", "unit": "qsel"},
            {"kind": "verus", "unit": "sortfn"},
            {"kind": "kani-mini", "crate": "sort", "harnesses": [
                {"harness": "trysort::harness::insert_head_b5", "fn": "src/util/trysort.rs :: insert_head (unsafe, InsertionHole)",
                 "bound": "slices of at most 5 elements; comparator failing (error value or violation) at any call", "timeout": 600},
                {"harness": "try_heap::heap_harness::heap_push_pop_b6", "fn": "src/util/try_heap.rs :: TryHeap::{push, pop, sift_up, sift_down_to_bottom}, Hole (unsafe)",
                 "bound": "at most 6 pushes followed by one pop; comparator failing (error value or violation) at any call", "timeout": 900},
                {"harness": "trysort::harness::insert_head_b7", "fn": "src/util/trysort.rs :: insert_head (unsafe, InsertionHole)", "thorough_only": True,
                 "bound": "slices of at most 7 elements; comparator failing (error value or violation) at any call", "timeout": 1800},
                {"harness": "try_heap::heap_harness::heap_push_pop_b8", "fn": "src/util/try_heap.rs :: TryHeap::{push, pop, sift_up, sift_down_to_bottom}, Hole (unsafe)", "thorough_only": True,
                 "bound": "at most 8 pushes followed by one pop; comparator failing (error value or violation) at any call", "timeout": 3600},
            ]},
            {"kind": "verus", "unit": "tabhash"},
            {"kind": "verus", "unit": "mapeq"},
            {"kind": "verus", "unit": "seqstr"},
        ],
        "unreached": [
            "trysort::merge (Kani counterexamples did not replay natively: verifier imprecision); of try_sort's driver only the two natural-run loops and `collapse` are under contract (the run reversal, the insertion extension and the merge loop are not)",
            "of the sort / order-statistic natives: the argument evaluation, the collect of the elements and the calls into try_sort / TryHeap themselves (their comparator closures, the already-sorted scan, quickselect's partition and selection loop are under contract); util/try_heap.rs only by the bounded Kani companion (at most 6 elements)",
            "derived to_str of stacks, sets and mappings (the derived to_str of sequences, tuples and optionals is under contract: brackets + the component texts joined by \", \"; a present optional reads as its element, the absent one as None), eq of sets (written in the xray language; the derived eq of mappings is under contract from the length test on), derived hash of stacks (the hash of sets and the derived hash of mappings are under contract: the XOR of the contributions of the non-empty buckets) (the derived hash of tuples, sequences and optionals is under contract: a function of the LIST of component hashes); of the derived eq / cmp closures the argument evaluation and the downcasts (`to_native!`) before the extracted statements; the compile-time halves of the add_dyn_func factories (overload lookup, arity checks); min / max (delegate to code written in the xray language)",
            "the format-specifier grammar (regex) and the numeric formatting in builtin/{int,floats,str}.rs",
        ],
        "assumptions": ["str::repeat by its documented meaning (assume_specification)",
                        "V-relop / V-derive: the evaluator is a deterministic function of the expression (ev) and of callee and arguments (apply); type facts of C01 as preconditions (callee is a function answering Bool / Int; tuple arguments are StructInstance of the table's arity; XStack.length is the number of nodes); std slice::Iter / Zip / search budget modelled by SeqIter / Zip / Budget with the documented meaning of next (trusted); XSequence::len / iter as a finite list of element results"],
    },
    "C14": {
        "level": "proof",
        "units": [
            {"kind": "verus", "unit": "int"},
            {"kind": "verus", "unit": "intops"},
            {"kind": "verus", "unit": "digits"},
            {"kind": "verus", "unit": "binom"},
            {"kind": "verus", "unit": "floatint"},
            {"kind": "kani-mini", "crate": "int", "harnesses": [
                {"harness": "harness::" + h, "fn": "src/util/lazy_bigint.rs :: " + f, "timeout": 300}
                for h, f in [
                    ("from_i64", "impl<T> From<T> for LazyBigint (T = i64)"),
                    ("from_u64", "impl<T> From<T> for LazyBigint (T = u64)"),
                    ("from_usize", "impl<T> From<T> for LazyBigint (T = usize)"),
                    ("from_i128", "impl<T> From<T> for LazyBigint (T = i128)"),
                    ("ss_rem_canonical", "impl Rem for LazyBigint (Short x Short)"),
                    ("ss_div_canonical", "impl Div for LazyBigint (Short x Short, rhs > 0)"),
                    ("neg_value_short", "impl Neg for LazyBigint (Short)"),
                    ("cmp_short", "impl Ord for LazyBigint (Short x Short), derived PartialEq"),
                    ("from_f64_exact", "impl FromPrimitive for LazyBigint :: from_f64 (all finite f64; BigInt::from_f64 stubbed by a constant)"),
                ]
            ] + [
                {"harness": "harness::from_bigint_2digits", "fn": "src/util/lazy_bigint.rs :: impl<T> From<T> for LazyBigint (T = BigInt)",
                 "bound": "BigInt values of at most 127 bits (built from a symbolic i128)", "timeout": 300},
            ]},
        ],
        "unreached": [],
        "assumptions": [
            "num_bigint::BigInt / BigUint operations are the mathematical operations (one external_body axiom per operator impl used, listed by the assumption scan)",
            "num_integer::{div_floor, div_ceil}: floor / ceiling of the quotient; the i64 instance panics on MIN / -1 (precondition div_ok)",
            "std: i64::{abs, signum, is_positive, is_negative, checked_pow} by their documented semantics (assume_specification)",
            "derived PartialEq/Clone of LazyBigint are structural (the #[derive] is dropped by R-drop and replaced by an external_body impl with that spec)",
            "bitwise operations on unbounded integers: only agreement with i64 on i64 operands and commutativity are assumed (6 axioms)",
            "`impl<T> From<T> for LazyBigint` returns the canonical representation (assumed in Verus; discharged by the Kani unit K-int for T in {i64,u64,usize,i32,i128} and bounded BigInt)",
        ],
    },
}

# ---------------------------------------------------------------------------------------------
# MANIFEST tables
CLAIMS = {
    "C08": {
        "engine": "kani",
        "technique": "contract-based deductive verification: Kani (CBMC) loop-free full-domain harnesses in contract form on the real Runtime limit primitives; Verus contracts with a ghost call history on the trampoline and the depth computation, on RuntimeLimits::search_iter / search (stream model of std's adaptors) and on the scan loops of sequence take_while / skip_until",
        "text": "Each limit primitive of src/runtime.rs is checked against its one-step contract for every value of the counter and of the limit (loop-free harness over full-width symbolic scalars = complete proof of that function's contract); the trampoline is proved to count the user call and check the timeout exactly once before any frame is built and to fail with MaximumRecursion exactly when the tail-call count exceeds the limit; the frame height and the depth test are proved as stated. The search budget is proved to be exactly L permits followed by one MaximumSearch violation (endless without a limit), `search` to pair the k-th element with the k-th budget item, and the scan loops of sequence take_while / skip_until to consume a permit before each element they examine.",
        "note": "Decides the counters, their reset, the budget stream and two scan loops; that every call path goes through them is argued from visibility, not proved. Trusted: Kani/CBMC, the in-crate build substitutions.",
    },
    "C10": {
        "engine": "vx+verus",
        "technique": "contract-based deductive verification: Verus contracts on the real text of Runtime::check_timeout (ghost clock), RuntimeLimits::search_iter (stream model of std's adaptors) and the digit loop of the `digits` builtin and the step function of the Repeat adaptor (termination by decreases clauses); the Chain arm's closure (no call that requires a finite part)",
        "text": "Narrow (three mechanisms): check_timeout is proved to answer Timeout exactly when the deadline is not after the clock reading it takes; with a search limit the search budget is proved to be a finite stream ending in the MaximumSearch violation; the digit loop is proved to terminate (|n| decreases) with its divisions defined; every call of the Repeat adaptor's step function is proved to terminate (an empty generator repeats to the empty stream) and a Chain part is handed on lazily.",
        "note": "Termination and the timeout test only; that every native loop draws on a limit, and the proportionality of the work, are listed as unreached.",
    },
    "C17": {
        "engine": "vx+verus",
        "technique": "contract-based deductive verification: Verus contracts on the real text of XMapping::{locate, get, try_put_located, put_located, put, try_put, with_update}, XSet::{locate, with_update} and the removal natives pop / discard / remove (structs, KeyLocation, bucket aliases extracted; loop invariants with proved lemmas; HashMap by vstd's specification resp. a model with get_mut / entry; finite iterator model for the bucket scan)",
        "text": "Narrow (the hash-table representation): insertion / overwrite through a location (try_put_located, put, try_put) and the bulk updates of sets and mappings (with_update) are proved to keep the representation invariant, to retain every key in place, to add a key only when no stored key of its bucket is equal, to count len exactly, and to leave the table unchanged when a callback fails; removal (pop / discard / remove) is proved to drop exactly the located entry; the location of a key is proved to be Vacant exactly when there is no bucket for its hash and otherwise the outcome of the in-order equality scan of that bucket (first equal key: Found with its index; a failing comparison before that: its error value; none: Missing), for every table content, hash and equality function.",
        "note": "The surrounding native closures and the set algebra are listed as unreached; the evaluator is a deterministic function `apply`.",
    },
    "C18": {
        "engine": "vx+verus",
        "technique": "contract-based deductive verification: Verus contracts on the real text of FencedString::{from_string, len, substr, substring, char_index_of_byte, push, push_ascii, to_lowercase, to_uppercase, +} against the representation invariant of the offset table, and on the index guards of the str natives get / find / rfind / substring; UTF-8 abstracted by uninterpreted functions with axioms",
        "text": "Narrow (the dual representation): the constructor is proved to establish the representation invariant, push / + and case mapping to re-establish it over the concatenated / mapped text; len is proved to be the number of code points and substr / substring to denote exactly the code points [start, min(end, len)) for either representation (ASCII text without table, other text with a byte-offset table), substring returning a well-formed string; the natives are proved to hand only in-range requests to them (everything else is an error value) and find / rfind to answer code-point positions.",
        "note": "Literals, escapes, formatting, comparison and the string library written in the xray language are listed as unreached; UTF-8 is axiomatised, not modelled.",
    },
    "C06": {
        "engine": "vx+verus",
        "technique": "contract-based deductive verification: Verus contracts on the real early-return macros and on the forwarding prefixes of generator adaptor closures (ghost log of the callback's answer); enumeration of every Result-inspection site",
        "text": "Narrow (the hand-written forwarding code only): xraise!/forward_err!, the search-budget closure and eight adaptor closures are proved to hand on, unchanged and never as a value or None, every violation and error value they receive; all other places that inspect a failure case are enumerated and classified, with site counts and forwarding arms pinned.",
        "note": "Level `other`: one mechanism of a broad property. Leftmost order, unused erroring arguments of user functions, collections never containing errors and three further adaptors are listed as unreached.",
    },
    "C07": {
        "engine": "vx+verus",
        "technique": "contract-based deductive verification: Verus contract with a ghost call history on the real text of the trampoline; Verus preconditions on skeletons (R-skel) of the tail-flag carriers and of the evaluator's Call arm; site enumeration of the flag's uses",
        "text": "The trampoline is proved, for every number of iterations, to evaluate the body in tail mode once per frame, to re-enter only on TailCall, never to let a TailCall escape to its caller, and to end in MaximumRecursion exactly when the number of consecutive tail self-calls exceeds the recursion limit. Every native that uses the tail flag (enumerated by scan) is proved, on a control-flow skeleton of its real body, to evaluate its documented selected argument with the caller's flag and every other argument in non-tail mode; the evaluator's Call arm constructs a TailCall only when a tail slot is available and hands the flag on to the callee.",
        "note": "Semantic equivalence with ordinary recursion is not decided; the skeletons drop data flow. Dependencies of the trampoline by stated contracts with a ghost history.",
    },
    "C09": {
        "engine": "kani",
        "technique": "contract-based deductive verification: Kani (CBMC) loop-free full-domain harnesses in contract form on Runtime::{allocate, deallocate, can_allocate_by}; Verus contracts on the real text of XValue::size, FencedString::size, the dyn_size arms of XSequence / XGenerator, the dyn_size of XMapping / XSet, and ManagedXValue / ManagedXError::{new, drop} over a ghost ledger of the accounted total",
        "text": "The accounting primitives are proved against one-step contracts for every limit, accounted size and request: Ok adds exactly the size and stays within the limit, Err leaves the total unchanged, deallocate returns exactly the size, allocate-then-drop is the identity, and raising the limit never turns Ok into Err. The accounted size of a value (XValue::size) is proved to be size_of::<XValue>() plus its payload: the bytes of a string's buffer plus its character index, one word per struct field, the reported size of a big integer or native value; the dyn_size of array / zip / chain sequences and generators is at least one word per element held. ManagedXValue::new and ManagedXError::new are proved to record exactly the amount Runtime::allocate added (nothing on failure) and their Drop impls to return exactly the recorded amount.",
        "note": "One OPEN known finding (DESIGN 7 row 42): XStack::dyn_size leaves the nodes of a stack unaccounted once the previous version of the stack has died; the property-derived clause fails, is listed in known_findings.json and printed as KNOWN-FINDING. Decides the primitives and the size function of XValue/FencedString: the dyn_size/full_size impls of native values, that every container goes through ManagedXValue::new, and the natives' pre-flight checks are unreached. Trusted: Kani/CBMC, in-crate build substitutions.",
    },
    "C11": {
        "engine": "vx+verus",
        "technique": "contract-based deductive verification: Verus contracts on the real text of PermissionSet::{get,allow,forbid} and RuntimeLimits::check_permission; Kani for the table of defaults",
        "text": "Permission lookup (stored value else per-permission default), allow/forbid (exactly that key) and check_permission (Ok iff allowed, otherwise the violation names the permission) are proved for all permission sets; the six builtin permissions have the documented defaults and distinct ids.",
        "note": "std HashMap by vstd's specification plus three axioms for &'static str keys. Effect-site guards in the natives are decided by the V-guard unit when present; otherwise unreached.",
    },
    "C13": {
        "engine": "kani",
        "technique": "contract-based deductive verification: Kani harness over all 2^64 bit patterns on the real checked float constructor; constructor-site scan",
        "text": "XValue::float is proved for every f64 bit pattern to build a Float only from a finite operand (payload unchanged) and an error value otherwise.",
        "note": "Decides the checked constructor; the sites that build XValue::Float directly are enumerated by the scan unit when present.",
    },
    "C15": {
        "engine": "vx+verus",
        "technique": "contract-based deductive verification: Verus contracts on the match arms of XSequence::{len, get} for Range and Slice, on XSequence::{slice, value_to_idx, array}, on the guard of the range builtin, on the copying updates push/rpush/insert/pop/set/swap (with Vec::try_extend) and on the scan loops of take_while / skip_until, all extracted from src/builtin/sequence.rs on every run",
        "text": "Narrow: for the lazy Range representation, len is proved overflow-free and equal to the number of elements the range denotes for every (start, end, step) the constructor's guard admits, and get(i) is proved to be start + i*step as an exact integer (the count characterisation is a proved lemma); XSequence::slice (after the downcast) is proved to return None exactly for the whole input, Empty exactly for an empty window, and otherwise a Slice that satisfies the representation invariant and addresses the original source of a sliced input (or nests when the absolute bounds are not representable); the index a Slice hands to its source is idx + start or an error when not representable. The range builtin is proved to build a Range exactly for operands that satisfy that representation invariant (Empty for ranges without elements, an error value for step 0); index normalisation (value_to_idx) is proved to accept exactly -L <= i < L and to count negative indices from the end; push / rpush / insert / pop / set / swap are proved to return a new sequence whose element list is what the same operation gives on the plain list of the argument's elements; take_while / skip_until cut at the first element that fails / satisfies the predicate.",
        "note": "Mechanisms, not the whole property: chaining, Map/Zip, the remaining natives and the library functions written in the xray language are listed as unreached in the evidence. LazyBigint by V-int's contracts; std iterators by their documented meaning.",
    },
    "C16": {
        "engine": "vx+verus",
        "technique": "contract-based deductive verification: Verus contracts on the real text of the Slice arm of XGenerator::_iter, of the merge arithmetic (start, end, guard) of XGenerator::slice, and of the element closures of the adaptors Filter, TakeWhile, SkipUntil, Map, Aggregate, Windows, Group, of XGenerator::chain, of the Chain and Repeat arms of _iter over a possibly endless stream model, and of the loops of the consumers to_array / len / last / get",
        "text": "Narrow (mechanisms): the consumers to_array, len, last and get are proved to return the array of all elements in order, their number, the last element (an error value for the empty generator) and the element at the requested index (an error value beyond the end), and to end with the leftmost error value / a violation when an element is one; the element step of Filter (kept exactly when the predicate answers true), TakeWhile (the stream ends at the first false), SkipUntil (dropped until the first true, then everything passes and the predicate is no longer consulted), Map (replaced by the function's answer) and Aggregate (state := f(state, element), which is the element yielded) is proved for every incoming element, including that a violation is handed on and a callback's error value is the element yielded. Skip/take composition: `Slice(inner, start, end)` is proved to yield exactly elements [start, end) of the inner stream, the merged bounds of nested slices are proved to be the composition (lemma over the window view) and overflow-free under the guard the code tests.",
        "note": "The other adaptors, laziness and re-iterability are listed as unreached; std skip/take are axiomatised on a finite-prefix sequence view and filter_map / map_while / map / scan are trusted to apply the step closure to each element in order; the evaluator is a deterministic function `apply`.",
    },
    "C19": {
        "engine": "vx+verus",
        "technique": "contract-based deductive verification: Verus contracts on the real text of the derived ne/lt/gt/ge/le closures, of the derived eq / cmp closures of tuples, sequences, optionals and stacks, of the derived hash closures of tuples, sequences and optionals, of try_sort's natural-run loops and `collapse`, and of FillSpecs::{get_filler,get_alignment,fillers}; bounded Kani harnesses on the unsafe insert_head and TryHeap",
        "text": "Narrow (mechanisms): ne is proved to be the negation of eq, and lt/gt/ge/le to be the documented sign tests of cmp applied to (a, b) in that order, with the callee's error value handed on; tuple / sequence / stack eq is proved to be the conjunction of the component equalities decided at the first component that is not equal (its error value, or false), with different lengths unequal; tuple / sequence cmp is proved lexicographic (the first non-zero component comparison is the result, a proper prefix is smaller); optional eq is proved to be the element equality on two present values and presence-equality otherwise; the derived hash of a tuple / finite sequence is proved to be a function of the LIST of its component hashes (each computed by the component's own hash function, in order; the first erroring or out-of-range component hash is the result as an error value; an endless sequence has no hash) and the hash of an optional to be its element's hash (0 when absent) -- so values whose components hash equally hash equally; the hash of a set / mapping is proved to be the XOR of the contributions of the buckets that hold entries, an empty bucket (left behind by a removal) contributing nothing. The run-stack decision of the merge sort is proved index- and overflow-safe and equal to the documented TimSort rule for every stack; the padding computation is proved to produce exactly (width - len) copies of the filler in the slot the alignment prescribes (centre: floor half before); the unsafe insertion step and the unsafe binary heap (push / pop with a comparator failing at any call) are checked (bounded, listed separately) to keep every element exactly once, to restore the order on success and to hand on a comparator failure.",
        "note": "The evaluator is abstracted as a deterministic function (ev / apply) and std's iterators (slice::Iter, Zip, the search budget) by their documented meaning; derived hash / to_str, mappings and sets, the format grammar, merge and the sort driver are listed as unreached.",
    },
    "C14": {
        "engine": "vx+verus",
        "technique": "contract-based deductive verification: Verus contracts (*SpecImpl / requires-ensures) on the real text of src/util/lazy_bigint.rs extracted on every run",
        "text": "Every arithmetic operator impl of LazyBigint is proved, for operands of any magnitude, to return the canonical representation of the mathematical result (strongest postcondition) under the representation invariant; canonicity gives eq/hash/text coherence as a lemma.",
        "note": "BigInt operations are axiomatised as mathematical integers; the generic From<T> impl is assumed in Verus and discharged by Kani; binom is the binomial coefficient by Pascal's rule (exactness of the final division proved); multinom, library functions written in the xray language (gcd, factorial...) and text conversion are unreached.",
    },
}

_NA = {
    "C01": "type soundness is an induction over all typing derivations and ~600 natives; XType/Bind (Arc recursion + HashMap, trait objects) is outside Verus' dialect and gave no Kani verdict in 16 min / 9 GB for the smallest harness (DESIGN.md section 6)",
    "C02": "needs a reference semantics for whole programs (precedence in the pest grammar, sugar over pest pairs) -- that would be a model, not a contract on a function within reach",
    "C03": "inductive invariant relating compile-time (depth, cell) pairs to run-time scope chains; the run-time side calls the evaluator (out of Kani's reach) and the interner uses regex",
    "C04": "property of XType::bind_in_assignment / common_type: same measured obstacle as C01",
    "C05": "property of CompilationScope::resolve_overload over XType/Bind: same measured obstacle as C01",
    "C12": "claim about the pest-generated parser on all texts; the number-literal code is an inline arm of a 370-line function over pest pairs",
    "C20": "dates, fractions and JSON serialisation are written in the xray language (include.rs), for which no deductive verifier exists; the Rust remainder is delegated to serde_json / num-bigint",
}
NOT_APPLICABLE = dict(_NA)
NOT_APPLICABLE.update({
    "C18": "measured: the smallest Kani harness on FencedString::from_string (<= 2 chars) exhausted 65 GB in CBMC (String / char_indices); Verus has no byte-level str reasoning for the dual representation (buffer[start_byte..end_byte], char_starts) -- no contract within reach can state the invariant (DESIGN.md section 6)",
})
for _p in list(NOT_APPLICABLE):
    if _p in CLAIMS:
        del NOT_APPLICABLE[_p]
