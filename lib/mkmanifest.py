#!/usr/bin/env python3
"""Regenerate /verif/MANIFEST.json from the registry (props.py) and the tables below."""
import json, os, sys
sys.path.insert(0, os.path.dirname(os.path.abspath(__file__)))
import props

VERIF = os.path.dirname(os.path.dirname(os.path.abspath(__file__)))

CLAIMS = props.CLAIMS
NOT_APPLICABLE = props.NOT_APPLICABLE

m = {
    "version": 1,
    "setup_cmd": "./setup.sh",
    "hooks": {
        "guard": "kani",
        "enable": "no hooks in /repo: harness modules are spliced into a scratch copy of the crate under #[cfg(kani)] (cargo kani sets it); Verus contracts live in /verif/contracts and are attached to text extracted from /repo on every run",
        "baseline_off_cmd": "cd /repo && cargo test --workspace --no-fail-fast --offline",
        "source_commits": [],
        "add_only": True,
    },
    "engines": [
        {"name": "vx+verus", "path": "/verif/vx", "serves_properties": sorted(p for p in CLAIMS if any(u["kind"] == "verus" for u in props.PROPS[p]["units"])),
         "kind_free_text": "mechanical extraction of real function text (syn) + Verus 0.2026.09.13 contracts (requires/ensures/*SpecImpl/invariants) discharged by Z3"},
        {"name": "kani", "path": "/verif/contracts/kani", "serves_properties": sorted(p for p in CLAIMS if any(u["kind"].startswith("kani") for u in props.PROPS[p]["units"])),
         "kind_free_text": "Kani 0.68 / CBMC 6.11 harnesses in contract form (assume PRE; call real fn; assert POST) on the unmodified crate or on mini-crates that #[path]-include real files"},
    ],
    "checks": [],
    "not_applicable": [{"property_id": k, "reason": v} for k, v in sorted(NOT_APPLICABLE.items())],
    "notes": "Single technique family: contract-based deductive verification (Verus, Kani). Exit codes of ./check: 0 held / 1 VIOLATION / 2 undecided (lost anchor, dialect, tool failure; never an alarm). See DESIGN.md.",
}
for pid in sorted(CLAIMS):
    c = CLAIMS[pid]
    m["checks"].append({
        "property_id": pid,
        "quick_cmd": "./check %s quick" % pid,
        "thorough_cmd": "./check %s thorough" % pid,
        "evidence_file": "/verif/evidence/%s.json" % pid,
        "replay_cmd_template": "cat {path}",
        "engine": c["engine"],
        "level_claimed": {"category": props.PROPS[pid]["level"], "text": c["text"], "design_ref": c.get("design_ref", "DESIGN.md section 4")},
        "level_note": c["note"],
        "technique": c["technique"],
    })
overlap = set(CLAIMS) & set(NOT_APPLICABLE)
assert not overlap, overlap
allp = set(json.loads(l)["id"] for l in open(os.path.join(VERIF, "properties.jsonl")))
assert allp == set(CLAIMS) | set(NOT_APPLICABLE), allp ^ (set(CLAIMS) | set(NOT_APPLICABLE))
with open(os.path.join(VERIF, "MANIFEST.json"), "w") as f:
    json.dump(m, f, indent=1)
print("MANIFEST.json written:", len(m["checks"]), "checks,", len(m["not_applicable"]), "not applicable")
