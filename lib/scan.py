"""Obligation enumeration by site scan (vx scan): every constructor / effect site found in the
crate must be listed with the obligation that discharges it; an unlisted site is an undischarged
obligation."""
import json, os, time
from common import *
import vxgen
try:
    import tomllib
except ImportError:  # pragma: no cover
    import tomli as tomllib


def _norm(t):
    return "".join(t.split())


def run_unit(u, repo, outdir, prop, tier):
    t0 = time.time()
    spec = tomllib.load(open(os.path.join(VERIF, "contracts", "scan", u["spec"] + ".toml"), "rb"))
    os.makedirs(outdir, exist_ok=True)
    job = {"repo": repo, "mode": "scan", "calls": spec.get("calls", []), "methods": spec.get("methods", []),
           "fields": spec.get("fields", []), "macros": spec.get("macros", []), "idents": spec.get("idents", []), "pats": spec.get("pats", [])}
    jp = os.path.join(outdir, u["spec"] + ".scan.json")
    json.dump(job, open(jp, "w"))
    vx = vxgen.VX if os.path.exists(vxgen.VX) else os.path.join(VERIF, "vx", "target", "debug", "vx")
    rc, out, err, dt = sh([vx, jp])
    if rc not in (0, 3):
        raise Undecided("vx scan crashed: " + err[-1000:])
    res = json.loads(out)
    if res["errors"]:
        raise Undecided("vx scan: " + "; ".join(e["msg"] for e in res["errors"]))
    sites = res["scan"]["sites"]
    ignore = spec.get("ignore", [])
    listed = spec.get("site", [])
    obls = []
    used = set()
    ignored = 0
    ignore_arg = spec.get("ignore_arg", False)
    # by_text: a listed site is identified by the whole text of the call (method sites carry no separate `arg`)
    by_text = spec.get("by_text", False)
    counts = {}
    for s in sites:
        skip = False
        for ig in ignore:
            ok = True
            for k, v in ig.items():
                if k == "why":
                    continue
                if k == "in_macro":
                    ok = ok and v in s.get("in_macros", [])
                else:
                    ok = ok and s.get(k) == v
            if ok:
                skip = True
        if skip:
            ignored += 1
            continue
        key = None
        for i, l in enumerate(listed):
            if l["file"] == s["file"] and l["enclosing_fn"] == s["enclosing_fn"] and l["what"] == s["what"] \
                    and ("kind" not in l or l["kind"] == s["kind"]) \
                    and (ignore_arg or l.get("arg", s["arg"]) == s["arg"]) \
                    and (not by_text or _norm(l.get("text", "")) == _norm(s.get("text", ""))):
                key = i
                break
        kindtag = (s["kind"] + ":") if any("kind" in l for l in listed) else ""
        oid = "%s/S/%s@%s::%s::%s%s(%s)" % (prop, spec["name"], s["file"], s["enclosing_fn"], kindtag, s["what"],
                                            slug(_norm(s.get("text", "")), 70) if by_text else ("" if ignore_arg else slug(s["arg"], 40)))
        if key is None:
            oid += "#L%d" % s["line"] if ignore_arg else ""
            o = Obligation(oid, "scan", FAILED,
                           detail="unlisted %s site at %s:%d -- obligation `%s` is not discharged for it" % (s["what"], s["file"], s["line"], spec["obligation"]),
                           fn="%s :: %s" % (s["file"], s["enclosing_fn"]), src=(s["file"], s["line"]), raw=json.dumps(s))
            obls.append(o)
            continue
        used.add(key)
        counts[key] = counts.get(key, 0) + 1
        l = listed[key]
        if "arms" in l and s.get("arm", "") not in l["arms"]:
            o = Obligation(oid + "#arm", "scan", FAILED,
                           detail="the arm that inspects the failure at %s:%d changed: `%s` (pinned: %s)" % (s["file"], s["line"], s.get("arm", "")[:120], l["arms"]),
                           fn="%s :: %s" % (s["file"], s["enclosing_fn"]), src=(s["file"], s["line"]), raw=json.dumps(s))
            obls.append(o)
            continue
        o = Obligation(oid, "scan", DISCHARGED, fn="%s :: %s" % (s["file"], s["enclosing_fn"]), src=(s["file"], s["line"]))
        o.detail = l["discharged_by"]
        obls.append(o)
    # pinned number of sites per listed function
    for i, l in enumerate(listed):
        if "count" in l and i in counts and counts[i] != l["count"]:
            kindtag = (l.get("kind", "") + ":") if "kind" in l else ""
            oid = "%s/S/%s@%s::%s::%s%s(%s)#count" % (prop, spec["name"], l["file"], l["enclosing_fn"], kindtag, l["what"], slug(_norm(l.get("text", "")), 70) if by_text else "")
            obls.append(Obligation(oid, "scan", FAILED,
                                   detail="%s::%s has %d `%s` inspection sites, %d are listed: a site was added or removed" % (l["file"], l["enclosing_fn"], counts[i], l["what"], l["count"]),
                                   fn="%s :: %s" % (l["file"], l["enclosing_fn"])))
    if not sites:
        raise Undecided("scan %s found no site at all (pattern lost?)" % spec["name"])
    # (opt-in) every listed site has to be there: a listed check that disappeared is a failed obligation
    if spec.get("require_present", False):
        for i, l in enumerate(listed):
            if i not in used:
                kindtag = (l.get("kind", "") + ":") if "kind" in l else ""
                oid = "%s/S/%s@%s::%s::%s%s(%s)#absent" % (prop, spec["name"], l["file"], l["enclosing_fn"], kindtag, l["what"], slug(_norm(l.get("text", "")), 70) if by_text else "")
                obls.append(Obligation(oid, "scan", FAILED,
                                       detail="the listed `%s` site of %s::%s is gone: %s" % (l["what"], l["file"], l["enclosing_fn"], l.get("text", "")),
                                       fn="%s :: %s" % (l["file"], l["enclosing_fn"])))
    # several occurrences inside one listed function share one obligation id
    seen = {}
    for o in obls:
        seen.setdefault(o.id, o)
    obls = list(seen.values())
    info = {"unit": "scan:" + spec["name"], "backend": "vx-scan", "sites_found": len(sites), "sites_ignored": ignored, "sites_listed": len(listed),
            "listed_but_absent": [listed[i]["file"] + "::" + listed[i]["enclosing_fn"] for i in range(len(listed)) if i not in used],
            "wall_s": round(time.time() - t0, 2), "cmd": "vx scan " + json.dumps({k: v for k, v in job.items() if k != "repo"})}
    return obls, info
