"""Back end K: Kani on the real crate (in-crate harness module spliced into a scratch copy) or on
mini-crates that `#[path]`-include real source files (see DESIGN.md 2.2)."""
import json, os, re, shutil, subprocess, time, threading
from concurrent.futures import ThreadPoolExecutor
from common import *

KANI_TARGET = os.environ.get("XRAY_KANI_TARGET") or os.path.join(CACHE, "kani-target")  # selftest uses its own target dir
COMPAT_AHASH = os.path.join(VERIF, "contracts", "kani", "compat", "ahash-0.7.6")
INCRATE_SRC = os.path.join(VERIF, "contracts", "kani", "incrate")
MINI_SRC = os.path.join(VERIF, "contracts", "kani", "mini")
_build_lock = threading.Lock()


def kani_env(target=None):
    return {"CARGO_NET_OFFLINE": "true", "CARGO_TARGET_DIR": target or KANI_TARGET,
            "CARGO_TERM_COLOR": "never"}


def prepare_incrate(scratch_repo):
    """splice the harness module into a scratch copy of the whole crate; returns the crate dir"""
    dst = os.path.join(scratch_repo, "src", "__vx")
    if os.path.exists(dst):
        return scratch_repo
    shutil.copytree(INCRATE_SRC, dst)
    lib = os.path.join(scratch_repo, "src", "lib.rs")
    with open(lib, "a") as f:
        f.write("\n#[cfg(kani)]\nmod __vx;\n")
    os.makedirs(os.path.join(scratch_repo, ".cargo"), exist_ok=True)
    with open(os.path.join(scratch_repo, ".cargo", "config.toml"), "w") as f:
        f.write("[net]\noffline = true\n")
    with open(os.path.join(scratch_repo, "Cargo.toml"), "a") as f:
        f.write('\n[patch.crates-io]\nahash = { path = "%s" }\n' % COMPAT_AHASH)
    rc, out, err, dt = sh(["cargo", "update", "-p", "proc-macro2", "--precise", "1.0.106", "--offline"],
                          cwd=scratch_repo, env=kani_env())
    if rc != 0:
        raise Undecided("cargo update proc-macro2 failed: " + err[-800:])
    return scratch_repo


def prepare_mini(scratch, name, scratch_repo):
    """mini-crate: copy contracts/kani/mini/<name> and point its #[path] attributes at the scratch
    copy of the real sources (placeholder @REPO@)"""
    src = os.path.join(MINI_SRC, name)
    dst = os.path.join(scratch, "mini-" + name)
    if os.path.exists(dst):
        return dst
    shutil.copytree(src, dst)
    for root, _, files in os.walk(dst):
        for f in files:
            if f.endswith((".rs", ".toml")):
                p = os.path.join(root, f)
                s = open(p).read()
                if "@REPO@" in s or "@VERIF@" in s or "@MINI@" in s:
                    open(p, "w").write(s.replace("@REPO@", scratch_repo).replace("@VERIF@", VERIF).replace("@MINI@", dst))
    os.makedirs(os.path.join(dst, ".cargo"), exist_ok=True)
    with open(os.path.join(dst, ".cargo", "config.toml"), "w") as f:
        f.write("[net]\noffline = true\n")
    lock = os.path.join(src, "Cargo.lock")
    if not os.path.exists(lock) and "[dependencies]\n\n" not in open(os.path.join(src, "Cargo.toml")).read():
        shutil.copy(os.path.join(scratch_repo, "Cargo.lock"), os.path.join(dst, "Cargo.lock"))
    return dst


CHECK_RE = re.compile(r"^Check (\d+): (\S+)\s*$")


def parse_regular(out):
    """parse `--output-format regular` -> list of checks {name,status,description,location}"""
    checks = []
    cur = None
    for l in out.split("\n"):
        m = CHECK_RE.match(l)
        if m:
            cur = {"n": int(m.group(1)), "name": m.group(2), "status": "", "description": "", "location": ""}
            checks.append(cur)
            continue
        if cur is not None:
            s = l.strip()
            if s.startswith("- Status:"):
                cur["status"] = s.split(":", 1)[1].strip()
            elif s.startswith("- Description:"):
                cur["description"] = s.split(":", 1)[1].strip().strip('"')
            elif s.startswith("- Location:"):
                cur["location"] = s.split(":", 1)[1].strip()
            elif s == "" or s.startswith("SUMMARY"):
                cur = None
    return checks


def run_harness(crate_dir, harness, flags, timeout, target=None, mem_gb=12):
    cmd = ["cargo", "kani", "-Z", "stubbing", "-Z", "function-contracts", "--harness", harness,
           "--exact", "--output-format", "regular"] + flags
    env = kani_env(target)
    # memory cap through ulimit -v (kB)
    shell = "ulimit -v %d; exec %s" % (mem_gb * 1024 * 1024, " ".join(cmd))
    rc, out, err, dt = sh(["bash", "-c", shell], cwd=crate_dir, env=env, timeout=timeout)
    return rc, out, err, dt, " ".join(cmd)


def concrete_playback(crate_dir, harness, flags, timeout, target=None):
    """ask Kani for concrete values of every kani::any() of the failing harness (written into the
    scratch copy of the harness file as unit tests), then re-execute those tests NATIVELY
    (`cargo kani playback`: real code, no CBMC) and report which of them fail and how."""
    cmd = ["cargo", "kani", "-Z", "stubbing", "-Z", "function-contracts", "-Z", "concrete-playback",
           "--concrete-playback=inplace", "--harness", harness, "--exact", "--output-format", "terse"] + flags
    rc, out, err, dt = sh(cmd, cwd=crate_dir, env=kani_env(target), timeout=timeout)
    tests = re.findall(r"^\s*-\s*(kani_concrete_playback_[A-Za-z0-9_]+)", out, re.M)
    if not tests:
        return None
    # collect the generated tests' concrete values from the harness file(s)
    vals = {}
    for root, _, files in os.walk(os.path.join(crate_dir, "src")):
        for f in files:
            if not f.endswith(".rs"):
                continue
            txt = open(os.path.join(root, f), errors="replace").read()
            for t in tests:
                m = re.search(r"fn %s\(\) \{(.*?)kani::concrete_playback_run" % re.escape(t), txt, re.S)
                if m:
                    vals[t] = re.findall(r"//\s*(\S+)\s*\n\s*vec!\[", m.group(1))
    cmd2 = ["cargo", "kani", "playback", "-Z", "concrete-playback", "--", "kani_concrete_playback"]
    rc2, out2, err2, dt2 = sh(cmd2, cwd=crate_dir, env=kani_env(target), timeout=max(timeout, 900))
    text = out2 + "\n" + err2
    results = {}
    for t in tests:
        m = re.search(r"test \S*%s \.\.\. (\w+)" % re.escape(t), text)
        results[t] = m.group(1) if m else "not-run"
    panics = re.findall(r"panicked at ([^\n]+):\n([^\n]+)", text)
    return {"values": [{"test": t, "any_values": vals.get(t, []), "native_result": results[t]} for t in tests],
            "native_panics": [{"at": re.sub(r"^.*?/src/", "src/", a), "message": b} for a, b in panics[:6]],
            "replay": {"cmd": " ".join(cmd2), "failed_natively": [t for t in tests if results[t] == "FAILED"]}}


def build_once(crate_dir, target=None, timeout=1500):
    """compile the crate for Kani once (codegen only) so that per-harness runs start warm"""
    with _build_lock:
        rc, out, err, dt = sh(["cargo", "kani", "-Z", "stubbing", "-Z", "function-contracts", "--only-codegen"],
                              cwd=crate_dir, env=kani_env(target), timeout=timeout)
    if rc != 0:
        # compile error in the real crate or in a harness: the tree does not build -> undecided
        tail = "\n".join([l for l in (out + err).split("\n") if l.startswith("error") or "-->" in l][-30:])
        raise Undecided("kani build failed in %s: %s" % (crate_dir, tail or (out + err)[-1500:]))
    return dt


def run_harnesses(prop, crate_dir, specs, tier, target=None, jobs=6, where="incrate"):
    """specs: list of dicts {harness, fn, bound(optional), flags, timeout, oblig: {desc-substring: id}}
    returns (obligations, infos)"""
    build_s = build_once(crate_dir, target)
    obls, infos = [], []

    def one(spec):
        h = spec["harness"]
        flags = list(spec.get("flags", []))
        timeout = spec.get("timeout", 600) * (3 if tier == "thorough" else 1)
        rc, out, err, dt, cmd = run_harness(crate_dir, h, flags, timeout, target, spec.get("mem_gb", 12))
        return spec, rc, out, err, dt, cmd

    with ThreadPoolExecutor(max_workers=jobs) as ex:
        results = list(ex.map(one, specs))

    for spec, rc, out, err, dt, cmd in results:
        h = spec["harness"]
        short = h.split("::")[-1]
        bound = spec.get("bound")
        okstat = BOUNDED_OK if bound else DISCHARGED
        text = out + "\n" + err
        info = {"harness": h, "backend": "kani", "wall_s": round(dt, 1), "cmd": cmd, "bound": bound,
                "fn": spec.get("fn")}
        if rc == -9 or "[TIMEOUT" in err:
            obls.append(Obligation("%s/K/%s" % (prop, short), "kani", UNDECIDED, detail="timeout", time_s=dt, bound=bound, fn=spec.get("fn")))
            info["verdict"] = "timeout"
            infos.append(info)
            continue
        if "VERIFICATION:- " not in text:
            reason = "no verdict"
            if "No harness found" in text or "no harnesses matched" in text.lower():
                reason = "harness not found"
            tail = "\n".join([l for l in text.split("\n") if l.startswith("error")][-8:])
            obls.append(Obligation("%s/K/%s" % (prop, short), "kani", UNDECIDED, detail=reason + ": " + (tail or text[-600:]), time_s=dt, bound=bound, fn=spec.get("fn")))
            info["verdict"] = reason
            infos.append(info)
            continue
        checks = parse_regular(out)
        mtime = re.search(r"Verification Time: ([0-9.]+)s", text)
        info["solver_s"] = float(mtime.group(1)) if mtime else None
        info["checks"] = len(checks)
        # split checks into: assertions written in the harness (the contract's postconditions),
        # and everything else (panics / overflow / pointer checks inside the real code)
        markers = spec.get("markers", ["/__vx/", "src/harness", "_harness.rs"])
        user = [c for c in checks if any(m in c["location"] for m in markers) and (".assertion." in c["name"] or ".cover." in c["name"])]
        user_ids = set(id(c) for c in user)
        other = [c for c in checks if id(c) not in user_ids]
        covers = [c for c in user if c["name"].split(".")[-2:-1] == ["cover"] or ".cover." in c["name"]]
        asserts = [c for c in user if c not in covers]
        unwind_fail = [c for c in checks if "unwinding assertion" in c["description"] and c["status"] == "FAILURE"]
        if unwind_fail:
            obls.append(Obligation("%s/K/%s" % (prop, short), "kani", UNDECIDED, detail="unwinding assertion failed (bound too small): " + unwind_fail[0]["location"], time_s=dt, bound=bound, fn=spec.get("fn")))
            info["verdict"] = "unwind"
            infos.append(info)
            continue
        # vacuity guard: every cover must be satisfied
        bad_cover = [c for c in covers if c["status"] not in ("SATISFIED",)]
        if bad_cover:
            obls.append(Obligation("%s/K/%s#cover" % (prop, short), "kani", UNDECIDED, detail="cover unreachable: " + bad_cover[0]["description"], time_s=dt, bound=bound, fn=spec.get("fn")))
        n_fail = 0
        failed_desc = []
        for c in asserts:
            oid = "%s/K/%s#%s" % (prop, short, slug(c["description"], 60))
            if c["status"] == "SUCCESS":
                obls.append(Obligation(oid, "kani", okstat, time_s=0, bound=bound, fn=spec.get("fn")))
            elif c["status"] == "FAILURE":
                n_fail += 1
                failed_desc.append(c)
                obls.append(Obligation(oid, "kani", FAILED, detail=c["description"] + " @ " + c["location"], bound=bound, fn=spec.get("fn"), raw=json.dumps(c)))
            elif c["status"] in ("UNREACHABLE",):
                # an assertion in a branch no input reaches holds vacuously; harness-level vacuity is
                # guarded by the cover! statements and by requiring a reachable assertion below
                o = Obligation(oid, "kani", okstat, bound=bound, fn=spec.get("fn"))
                o.detail = "unreachable branch"
                obls.append(o)
            else:
                obls.append(Obligation(oid, "kani", UNDECIDED, detail="status " + c["status"], bound=bound, fn=spec.get("fn")))
        # aggregated safety obligation over the real code reached by the harness
        bad_other = [c for c in other if c["status"] == "FAILURE"]
        undet_other = [c for c in other if c["status"] in ("UNDETERMINED", "UNSUPPORTED")]
        oid = "%s/K/%s#no-panic-overflow-or-memory-error" % (prop, short)
        if bad_other:
            n_fail += 1
            for c in bad_other[:4]:
                loc = re.sub(r"^.*?/src/", "src/", c["location"]) if "/src/" in c["location"] and "rustlib" not in c["location"] else c["location"]
                failed_desc.append(c)
                obls.append(Obligation(oid + "@" + slug(c["description"], 40) + "@" + slug(loc.split(" in function ")[-1], 50), "kani", FAILED,
                                       detail=c["description"] + " @ " + loc, bound=bound, fn=spec.get("fn"), raw=json.dumps(c)))
        elif undet_other and "VERIFICATION:- SUCCESSFUL" not in text:
            obls.append(Obligation(oid, "kani", UNDECIDED, detail="undetermined checks: " + undet_other[0]["description"], bound=bound, fn=spec.get("fn")))
        else:
            o = Obligation(oid, "kani", okstat, time_s=dt, bound=bound, fn=spec.get("fn"))
            o.detail = "%d CBMC checks in the real code" % len(other)
            obls.append(o)
        if asserts and not any(c["status"] in ("SUCCESS", "FAILURE") for c in asserts):
            obls.append(Obligation("%s/K/%s#reachability" % (prop, short), "kani", UNDECIDED, detail="no assertion of the harness is reachable (vacuous)", bound=bound, fn=spec.get("fn")))
        info["verdict"] = "fail" if n_fail else "ok"
        info["asserts"] = len(asserts)
        info["covers"] = len(covers)
        if n_fail:
            pb = None
            try:
                pb = concrete_playback(crate_dir, h, list(spec.get("flags", [])), spec.get("timeout", 600), target)
            except Exception as e:  # pragma: no cover
                pb = None
            if pb and not pb["replay"]["failed_natively"]:
                # the verifier's counterexample does not reproduce on the real code: verifier
                # imprecision, not a verdict -> undecided, never an alarm
                info["witness"] = pb
                info["verdict"] = "counterexample-does-not-replay"
                for o in obls:
                    if o.status == FAILED and o.id.startswith("%s/K/%s#" % (prop, short)):
                        o.status = UNDECIDED
                        o.detail = "Kani counterexample did not replay natively (cargo kani playback passed): " + o.detail
            elif pb:
                info["witness"] = pb
                for o in obls:
                    if o.status == FAILED and o.id.startswith("%s/K/%s#" % (prop, short)):
                        o.witness = {"kani_values": pb["values"], "native_panics": pb["native_panics"], "replay": pb["replay"]}
        infos.append(info)
    return obls, infos, build_s
