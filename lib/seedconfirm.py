#!/usr/bin/env python3
"""Confirm a seeded change in its scratch worktree: demo passes without the patch, fails with it,
and the unedited suite passes with it.  usage: seedconfirm.py <worktree> <k> <out_dir>"""
import json, os, re, shutil, subprocess, sys, time

wt, k, out = sys.argv[1], sys.argv[2], sys.argv[3]
seed = os.path.join(wt, "SEED")
env = dict(os.environ, CARGO_TARGET_DIR=os.path.join(wt, "target"), CARGO_NET_OFFLINE="true")


def sh(cmd, **kw):
    p = subprocess.run(cmd, shell=True, cwd=wt, env=env, capture_output=True, text=True, **kw)
    return p.returncode, p.stdout + p.stderr


def clean():
    sh("git checkout -- . && git clean -fdq -- tests test_scripts src")


def install_demo():
    xr = os.path.join(seed, "demo_%s.xr" % k)
    rs = os.path.join(seed, "demo_%s.rs" % k)
    if os.path.exists(xr):
        num = 900 + int(k)
        shutil.copy(xr, os.path.join(wt, "test_scripts", "%d_seeddemo.xr" % num))
        toml = os.path.join(seed, "demo_%s.toml" % k)
        if os.path.exists(toml):
            shutil.copy(toml, os.path.join(wt, "test_scripts", "%d.toml" % num))
        with open(os.path.join(wt, "tests", "run_scripts.rs"), "a") as f:
            f.write("\n#[test]\nfn test_script_%d() {\n    run_script_from_name(function_name!());\n}\n" % num)
        return "cargo test --offline --test run_scripts test_script_%d" % num, "test_script_%d" % num
    shutil.copy(rs, os.path.join(wt, "tests", "seed_demo_%s.rs" % k))
    return "cargo test --offline --test seed_demo_%s" % k, "seed_demo_%s" % k


def summarize(o):
    return [l for l in o.split("\n") if l.startswith("test result") or "FAILED" in l or "panicked" in l][:12]


res = {"worktree": wt, "k": k, "at": time.strftime("%Y-%m-%d %H:%M:%S")}
clean()
demo_cmd, demo_name = install_demo()
rc, o = sh(demo_cmd)
res["demo_without_patch"] = {"cmd": demo_cmd, "rc": rc, "summary": summarize(o)}
rc_a, o_a = sh("git apply SEED/patch_%s.diff" % k)
res["apply"] = {"rc": rc_a, "out": o_a[-500:]}
rc2, o2 = sh(demo_cmd)
res["demo_with_patch"] = {"cmd": demo_cmd, "rc": rc2, "summary": summarize(o2)}
# unedited suite with the patch: remove the demo again
sh("git checkout -- tests test_scripts && git clean -fdq -- tests test_scripts")
rc3, o3 = sh("cargo test --offline --no-fail-fast")
res["suite_with_patch"] = {"cmd": "cargo test --offline --no-fail-fast", "rc": rc3, "summary": summarize(o3)}
clean()
res["confirmed"] = (res["demo_without_patch"]["rc"] == 0 and rc_a == 0 and rc2 != 0 and rc3 == 0)
os.makedirs(out, exist_ok=True)
for f in ["patch_%s.diff" % k, "notes_%s.txt" % k]:
    shutil.copy(os.path.join(seed, f), os.path.join(out, f.replace("_%s" % k, "")))
for ext in ("xr", "rs", "toml"):
    p = os.path.join(seed, "demo_%s.%s" % (k, ext))
    if os.path.exists(p):
        shutil.copy(p, os.path.join(out, "demo." + ext))
json.dump(res, open(os.path.join(out, "confirm.json"), "w"), indent=1)
print(wt, k, "confirmed" if res["confirmed"] else "NOT CONFIRMED", res["demo_without_patch"]["rc"], rc_a, rc2, rc3)
