#!/usr/bin/env python3
"""Regression of the fixed findings: for every `fixed:` entry of known_findings.json, the REVERSE of the fix commit is
applied to a scratch worktree of /repo (XRAY_REPO), the property's quick check runs against it with evidence / replays
redirected (XRAY_VERIF_OUT), and the outcome must be exit 1 (the violation is reported again).  Nothing in /repo or
/verif/evidence is touched.  usage: regress.py [commit ...]      writes regress/<commit>.json"""
import json, os, re, subprocess, sys, time, shutil

VERIF = os.path.dirname(os.path.dirname(os.path.abspath(__file__)))
WT = "/var/tmp/xv/regress-wt"
OUT = "/var/tmp/xv/regress-out"


def sh(cmd, **kw):
    return subprocess.run(cmd, shell=True, capture_output=True, text=True, **kw)


def main():
    only = set(sys.argv[1:])
    d = json.load(open(os.path.join(VERIF, "known_findings.json")))
    entries = []
    for e in d["fixed"]:
        m = re.match(r"fixed: property=(C\d+) ([0-9a-f]{7,}) (\S+)", e)
        if m and (not only or m.group(2) in only):
            entries.append((m.group(1), m.group(2), m.group(3)))
    sh("git -C /repo worktree remove --force %s; git -C /repo worktree prune" % WT)
    r = sh("git -C /repo worktree add --detach %s HEAD" % WT)
    assert r.returncode == 0, r.stderr
    os.makedirs(os.path.join(VERIF, "regress"), exist_ok=True)
    try:
        for prop, c, obl in entries:
            sh("git -C %s checkout -- . " % WT)
            p = sh("git -C /repo diff %s %s~1 -- src | git -C %s apply -" % (c, c, WT))
            res = {"property": prop, "commit": c, "obligation_recorded": obl, "reverse_applies": p.returncode == 0,
                   "apply_err": p.stderr[-300:]}
            if p.returncode == 0:
                env = dict(os.environ, XRAY_REPO=WT, XRAY_VERIF_OUT=OUT,
                           XRAY_KANI_TARGET=os.path.join(VERIF, ".cache", "kani-target-selftest"))
                t0 = time.time()
                q = subprocess.run([os.path.join(VERIF, "check"), prop, "quick"], capture_output=True, text=True, env=env)
                lines = [l for l in q.stdout.split("\n") if l.strip()]
                res.update({"exit": q.returncode, "wall_s": round(time.time() - t0, 1),
                            "lines": [l[:300] for l in lines if "FAILED-OBLIGATION" in l or "VIOLATION" in l or "UNDECIDED" in l][:8],
                            "reported_again": q.returncode == 1})
                um = re.match(r"C\d+/[VKS]/([A-Za-z_0-9\-]+)", obl)
                res["failing_lines_of_the_recorded_unit"] = [l[:200] for l in res["lines"] if "FAILED-OBLIGATION" in l and um and um.group(1) in l]
            json.dump(res, open(os.path.join(VERIF, "regress", c + ".json"), "w"), indent=1)
            print(prop, c, "reverse-applies" if res["reverse_applies"] else "REVERSE-DOES-NOT-APPLY",
                  "exit", res.get("exit"), "REPORTED" if res.get("reported_again") else "not-reported", flush=True)
    finally:
        sh("git -C /repo worktree remove --force %s; git -C /repo worktree prune" % WT)
        shutil.rmtree(OUT, ignore_errors=True)


if __name__ == "__main__":
    main()
