#!/usr/bin/env python3
"""mutunit.py UNIT FN 'old->new' ...  -- developer aid: apply textual mutations to the BODY of one extracted
function of a generated unit file and report whether Verus still verifies it (a contract that keeps verifying
is too weak).  Works on a scratch generation under /var/tmp; never touches /repo."""
import sys, subprocess, re, os, tempfile
sys.path.insert(0, os.path.dirname(__file__))
def main():
    unit, fn = sys.argv[1], sys.argv[2]
    d = tempfile.mkdtemp(prefix="mutunit-", dir="/var/tmp")
    subprocess.run([sys.executable, os.path.join(os.path.dirname(__file__), "vxgen.py"), unit, os.environ.get("XRAY_REPO", "/repo"), d], check=True, capture_output=True)
    f = os.path.join(d, "vx_%s.rs" % unit)
    s = open(f).read()
    k = min(x for x in (s.find("fn " + fn + "("), s.find("fn " + fn + "<")) if x >= 0)
    i = re.compile(r"\n\s*\{\n").search(s, k).start()
    j = s.find("\n// ---- vx:", i)
    if j < 0: j = len(s)
    for m in sys.argv[3:]:
        a, b = m.split("->", 1)
        body = s[i:j]
        if a not in body:
            print("NOT FOUND:", a); continue
        open(os.path.join(d, "m.rs"), "w").write(s[:i] + body.replace(a, b) + s[j:])
        o = subprocess.run(["verus", os.path.join(d, "m.rs")], capture_output=True, text=True)
        r = re.findall(r"verification results.*", o.stdout + o.stderr)
        print("%-60s %s" % (m, r or "COMPILE ERROR"))
    subprocess.run(["rm", "-rf", d])
main()
