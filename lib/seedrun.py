#!/usr/bin/env python3
"""Run a property's check against a seeded change: apply to /repo, check, undo.
usage: seedrun.py <seed_dir> <prop> [tier]"""
import json, os, subprocess, sys, time
sd, prop = os.path.abspath(sys.argv[1]), sys.argv[2]
tier = sys.argv[3] if len(sys.argv) > 3 else "quick"
patch = os.path.join(sd, "patch.diff")
st = subprocess.run(["git", "-C", "/repo", "status", "--porcelain", "--untracked-files=no"], capture_output=True, text=True).stdout.strip()
assert st == "", "/repo not clean: " + st
a = subprocess.run(["git", "-C", "/repo", "apply", patch], capture_output=True, text=True)
res = {"prop": prop, "tier": tier, "apply_rc": a.returncode, "apply_err": a.stderr[-400:]}
try:
    if a.returncode == 0:
        t0 = time.time()
        p = subprocess.run(["/verif/check", prop, tier], capture_output=True, text=True)
        res.update({"check_rc": p.returncode, "wall_s": round(time.time() - t0, 1),
                    "output": [l for l in p.stdout.split("\n") if l.strip()][-25:]})
finally:
    subprocess.run(["git", "-C", "/repo", "checkout", "--", "."])
res["detected"] = res.get("check_rc") == 1
mp = os.path.join(sd, "detect.json")
hist = json.load(open(mp)) if os.path.exists(mp) else []
hist.append(res)
json.dump(hist, open(mp, "w"), indent=1)
print(sd, prop, "rc", res.get("check_rc"), "DETECTED" if res["detected"] else "missed/undecided")
for l in res.get("output", [])[-8:]:
    print("   ", l)
