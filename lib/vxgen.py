"""Assemble a Verus file for a unit: prelude (hand-written contracts/axioms) + text of /repo
extracted by vx on this run.  Returns the path of the file and the mapping of generated lines to
source lines."""
import json, re, os, subprocess, sys, hashlib
try:
    import tomllib
except ImportError:  # pragma: no cover
    import tomli as tomllib

VERIF = os.path.dirname(os.path.dirname(os.path.abspath(__file__)))
VX = os.path.join(VERIF, "vx", "target", "release", "vx")
MARK = "// @@EXTRACTED@@"


try:  # one class for the whole driver: a unit that cannot be extracted is undecided, the other units still run
    sys.path.insert(0, os.path.dirname(os.path.abspath(__file__)))
    from common import Undecided
except Exception:  # pragma: no cover
    class Undecided(Exception):
        pass


def load_unit(name):
    p = os.path.join(VERIF, "contracts", "verus", name + ".units.toml")
    with open(p, "rb") as f:
        u = tomllib.load(f)
    u["_name"] = name
    u["_path"] = p
    return u


def run_vx(repo, unit, outdir, canary=False):
    items = unit["item"]
    common = unit.get("skel_common")
    if common:
        merged_items = []
        for it in items:
            if "skel" in it:
                sk = dict(common)
                sk.update({k: v for k, v in it["skel"].items() if k != "prims"})
                sk["prims"] = list(it["skel"].get("prims", [])) + list(common.get("prims", []))
                it = dict(it, skel=sk)
            merged_items.append(it)
        items = merged_items
    if canary:
        items = [dict(it, canary=True) for it in items]
    job = {"repo": repo, "rewrite": unit.get("rewrite", {}), "items": items}
    os.makedirs(outdir, exist_ok=True)
    jp = os.path.join(outdir, unit["_name"] + (".canary" if canary else "") + ".job.json")
    with open(jp, "w") as f:
        json.dump(job, f)
    vx = VX if os.path.exists(VX) else os.path.join(VERIF, "vx", "target", "debug", "vx")
    p = subprocess.run([vx, jp], capture_output=True, text=True)
    if p.returncode not in (0, 3):
        raise Undecided("vx crashed: " + p.stderr[-2000:])
    res = json.loads(p.stdout)
    return res


def generate(repo, unit, outdir, canary=False, partial=False):
    """partial=True: items whose anchors are lost are left out (listed in res["errors"]) and the rest is still assembled --
    an item that cannot be extracted must not hide a failing obligation of its neighbours"""
    res = run_vx(repo, unit, outdir, canary)
    if res["errors"] and not (partial and res.get("items")):
        raise Undecided("extraction: " + "; ".join(e["kind"] + ": " + e["msg"] for e in res["errors"]))
    prelude_path = os.path.join(VERIF, "contracts", "verus", unit["prelude"])
    prelude = open(prelude_path).read()
    # `// @@INCLUDE name@@`: a shared block of contracts (contracts/verus/_name.inc.rs), textually included
    def _inc(m):
        return open(os.path.join(VERIF, "contracts", "verus", "_%s.inc.rs" % m.group(1))).read()
    prelude = re.sub(r"^// @@INCLUDE ([a-z_0-9]+)@@$", _inc, prelude, flags=re.M)
    if MARK not in prelude:
        raise Undecided("prelude without marker")
    head, tail = prelude.split(MARK, 1)
    lines = head.split("\n")
    linemap = [None] * (len(lines) - 1)  # generated line (0-based idx) -> (file, line) or None
    body = []
    for it in res["items"]:
        hdr = "// ---- vx: %s :: %s  (source lines %d-%d)" % (it["file"], it["select"], it["src_lines"][0], it["src_lines"][1])
        body.append(hdr)
        linemap.append(None)
        tl = it["text"].split("\n")
        for i, l in enumerate(tl):
            body.append(l)
            sl = it["line_map"][i] if i < len(it["line_map"]) else 0
            linemap.append((it["file"], sl, it["id"]) if sl else (it["file"], 0, it["id"]))
    text = head + "\n".join(body) + "\n" + tail
    out = os.path.join(outdir, "vx_" + unit["_name"] + ("_canary" if canary else "") + ".rs")
    with open(out, "w") as f:
        f.write(text)
    return out, linemap, res


if __name__ == "__main__":
    u = load_unit(sys.argv[1])
    repo = sys.argv[2] if len(sys.argv) > 2 else "/repo"
    od = sys.argv[3] if len(sys.argv) > 3 else "/var/tmp/xv/vt"
    os.makedirs(od, exist_ok=True)
    out, lm, res = generate(repo, u, od)
    print(out)
