//! xr -- native replayer: runs an xray script on the real interpreter (crate at the path given in
//! Cargo.toml) and prints one classified outcome line.  Used to replay witnesses and by the
//! seeded-change demonstrations.
//!
//! usage: xr <script.xr> [--size N] [--depth N] [--recursion N] [--calls N] [--search N]
//!           [--forbid perm]* [--allow perm]* [--entry main]
use rand::rngs::StdRng;
use std::panic::{catch_unwind, AssertUnwindSafe};
use xray::builtin::builtin_permissions as bp;
use xray::root_runtime_scope::RootEvaluationScope;
use xray::runtime::{RTCell, RuntimeLimits};
use xray::std_compilation_scope;
use xray::time_provider::SystemTimeProvider;

fn perm(name: &str) -> xray::permissions::Permission {
    match name {
        "now" => bp::NOW,
        "print" => bp::PRINT,
        "print_debug" => bp::PRINT_DEBUG,
        "random" => bp::RANDOM,
        "regex" => bp::REGEX,
        "sleep" => bp::SLEEP,
        _ => panic!("unknown permission {name}"),
    }
}

fn main() {
    let args: Vec<String> = std::env::args().collect();
    let src = std::fs::read_to_string(&args[1]).expect("script");
    let mut limits = RuntimeLimits::default();
    let mut entry = "main".to_string();
    let mut i = 2;
    while i < args.len() {
        let v = args.get(i + 1).cloned().unwrap_or_default();
        match args[i].as_str() {
            "--size" => limits.size_limit = Some(v.parse().unwrap()),
            "--depth" => limits.depth_limit = Some(v.parse().unwrap()),
            "--recursion" => limits.recursion_limit = Some(v.parse().unwrap()),
            "--calls" => limits.ud_call_limit = Some(v.parse().unwrap()),
            "--search" => limits.maximum_search = Some(v.parse().unwrap()),
            "--forbid" => limits.permissions.forbid(&perm(&v)),
            "--allow" => limits.permissions.allow(&perm(&v)),
            "--entry" => entry = v.clone(),
            x => panic!("unknown flag {x}"),
        }
        i += 2;
    }
    std::panic::set_hook(Box::new(|info| {
        eprintln!("panic: {info}");
    }));
    let out: Vec<u8> = Vec::new();
    let res = catch_unwind(AssertUnwindSafe(|| {
        let mut comp = std_compilation_scope();
        if let Err(e) = comp.feed_file(&src) {
            return format!("compile_error={e}");
        }
        let runtime: RTCell<_, StdRng, _> = limits.to_runtime(out, SystemTimeProvider);
        let eval = match RootEvaluationScope::from_compilation_scope(&comp, runtime.clone()) {
            Ok(e) => e,
            Err(v) => return format!("violation={v:?}"),
        };
        let Ok(f) = eval.get_user_defined_function(&entry) else {
            return "no_entry".to_string();
        };
        let r = match eval.run_function(f, vec![]) {
            Err(v) => format!("violation={v:?}"),
            Ok(v) => match v.unwrap_value() {
                Ok(v) => format!("value={:?}", v.value),
                Err(e) => format!("error={:?}", e.error),
            },
        };
        let so = String::from_utf8_lossy(&runtime.stats.borrow().stdout).to_string();
        if so.is_empty() {
            r
        } else {
            format!("{r}\nstdout={so:?}")
        }
    }));
    match res {
        Ok(s) => println!("{s}"),
        Err(p) => {
            let msg = p
                .downcast_ref::<String>()
                .cloned()
                .or_else(|| p.downcast_ref::<&str>().map(|s| s.to_string()))
                .unwrap_or_default();
            println!("panic={msg}");
        }
    }
}
