#!/bin/bash
# Run once after a fresh restore, offline: build the extractor and warm the Kani dependency cache.
set -e
cd "$(dirname "$0")"
export CARGO_NET_OFFLINE=true
(cd vx && cargo build --release --offline 2>&1 | tail -2)
mkdir -p .cache evidence replays
# warm the Kani dependency build (optional: checks rebuild whatever is missing)
python3 lib/warm.py || true
