//! Contracts of the fallible sort in harness form.  Elements are `u8` keys paired with their
//! original position, so that loss / duplication of an element (the hazard of the `ptr::copy`
//! based holes) and instability are observable; CBMC's pointer checks cover memory safety of the
//! unsafe blocks.
use super::*;

const N: usize = 7;

#[derive(Clone, Copy, PartialEq, Eq)]
struct El {
    key: u8,
    id: u8,
}

/// outcome of the k-th comparison: 0 = compare normally, 1 = error value, 2 = violation
struct Cmp {
    calls: u32,
    fail_at: u32,
    fail_kind: u8,
}
impl Cmp {
    fn is_less(&mut self, a: &El, b: &El) -> Result<Result<bool, u8>, u16> {
        self.calls += 1;
        if self.fail_at != 0 && self.calls == self.fail_at {
            if self.fail_kind == 1 {
                return Ok(Err(7));
            } else {
                return Err(9);
            }
        }
        Ok(Ok(a.key < b.key))
    }
}

fn any_input(len: usize) -> [El; N] {
    let mut v = [El { key: 0, id: 0 }; N];
    let mut i = 0;
    while i < N {
        v[i] = El { key: kani::any(), id: i as u8 };
        i += 1;
    }
    let _ = len;
    v
}

fn is_permutation(before: &[El], after: &[El]) -> bool {
    // ids are distinct in `before`: a permutation iff every original element occurs exactly once
    let mut i = 0;
    while i < before.len() {
        let mut c = 0;
        let mut j = 0;
        while j < after.len() {
            if after[j] == before[i] {
                c += 1;
            }
            j += 1;
        }
        if c != 1 {
            return false;
        }
        i += 1;
    }
    true
}

fn sorted_stable(v: &[El]) -> bool {
    let mut i = 1;
    while i < v.len() {
        if v[i - 1].key > v[i].key || (v[i - 1].key == v[i].key && v[i - 1].id > v[i].id) {
            return false;
        }
        i += 1;
    }
    true
}

// `try_sort` itself (harness over the insertion-sort path, len <= 4 and <= 5, comparator failing at its
// k-th call) did not finish: CBMC unwinds the run-detection / collapse / merge loops of the long-slice
// path as well (no verdict in 25 min).  Not registered; the driver loop of try_sort is unreached.

// `merge` (unsafe, MergeHole) was put under the same contract (harness merge_b6, len <= 6, every
// mid, comparator failing at its k-th call).  CBMC answered with counterexamples that do NOT replay on
// the real code (`cargo kani playback`: all pass natively; the same inputs as constants verify, as
// constrained symbolic values they fail -- an imprecision in CBMC's model of the hole's drop).  A
// counterexample that does not replay is not a verdict, so the harness is not registered and `merge`
// is listed as unreached.

/// insert_head: v[1..] sorted => v sorted afterwards (on success), permutation always.
#[kani::proof]
#[kani::unwind(9)]
fn insert_head_b5() {
    insert_head_bounded(5)
}

/// thorough tier: the same contract for slices of at most 7 elements
#[kani::proof]
#[kani::unwind(9)]
fn insert_head_b7() {
    insert_head_bounded(7)
}

fn insert_head_bounded(max_len: usize) {
    let len: usize = kani::any();
    kani::assume(len <= max_len);
    let before = any_input(len);
    kani::assume(len < 2 || sorted_stable(&before[1..len]));
    let mut v = before;
    let mut c = Cmp { calls: 0, fail_at: kani::any(), fail_kind: kani::any() };
    kani::assume(c.fail_kind == 1 || c.fail_kind == 2);
    let mut f = |a: &El, b: &El| c.is_less(a, b);
    let r = insert_head(&mut v[..len], &mut f);
    assert!(is_permutation(&before[..len], &v[..len]), "insert_head: no element lost or duplicated");
    if let Ok(Ok(())) = r {
        assert!(sorted_stable(&v[..len]) , "insert_head: on success the slice is sorted (stable)");
    }
    kani::cover!(len == max_len && matches!(r, Ok(Ok(()))), "success reachable");
}
