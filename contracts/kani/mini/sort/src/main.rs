//! K-sort mini-crate: the real `src/util/trysort.rs` (unsafe merge sort with a fallible comparator),
//! `src/util/try_heap.rs` (unsafe binary heap with a fallible comparator) and `src/util/forward_err.rs` of the scratch copy, included textually and compiled unmodified.
//! The harness module sits inside the same module so that it can reach the private functions.
#![allow(dead_code, unused_imports, unused_macros)]

#[macro_use]
#[path = "@REPO@/src/util/forward_err.rs"]
mod forward_err;

pub mod trysort {
    include!("@REPO@/src/util/trysort.rs");

    #[cfg(kani)]
    #[path = "@MINI@/src/harness.rs"]
    mod harness;
}

/// `crate::xvalue::XResult` as util/try_heap.rs names it (violation outside, error value inside)
pub mod xvalue {
    pub struct ErrV<W, R, T>(pub u8, pub core::marker::PhantomData<(W, R, T)>);
    pub struct Viol(pub u16);
    pub type XResult<I, W, R, T> = Result<Result<I, ErrV<W, R, T>>, Viol>;
}

pub mod try_heap {
    include!("@REPO@/src/util/try_heap.rs");

    #[cfg(kani)]
    #[path = "@MINI@/src/heap_harness.rs"]
    mod heap_harness;
}

fn main() {}
