//! K-sort mini-crate: the real `src/util/trysort.rs` (unsafe merge sort with a fallible comparator)
//! and `src/util/forward_err.rs` of the scratch copy, included textually and compiled unmodified.
//! The harness module sits inside the same module so that it can reach the private functions.
#![allow(dead_code, unused_imports, unused_macros)]

#[path = "@REPO@/src/util/forward_err.rs"]
mod forward_err;

pub mod trysort {
    include!("@REPO@/src/util/trysort.rs");

    #[cfg(kani)]
    #[path = "@MINI@/src/harness.rs"]
    mod harness;
}

fn main() {}
