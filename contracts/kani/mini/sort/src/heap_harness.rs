//! TryHeap (src/util/try_heap.rs: binary heap over a fallible `is_le`, `Hole` with raw-pointer moves) in
//! harness form, BOUNDED: at most 6 elements.  Elements are `u8` keys paired with their insertion number,
//! so that loss / duplication of an element is observable; the comparator fails (error value or violation)
//! at its k-th call for a symbolic k.  CBMC's pointer checks cover the unsafe blocks.
use super::*;
use crate::xvalue::{ErrV, Viol, XResult};


#[derive(Clone, Copy, PartialEq, Eq)]
struct El {
    key: u8,
    id: u8,
}

fn count(data: &[El], e: El) -> usize {
    let mut c = 0;
    let mut j = 0;
    while j < data.len() {
        if data[j] == e {
            c += 1;
        }
        j += 1;
    }
    c
}

/// max-heap w.r.t. the comparator: every parent is >= its children
fn is_heap(data: &[El]) -> bool {
    let mut i = 1;
    while i < data.len() {
        if data[(i - 1) / 2].key < data[i].key {
            return false;
        }
        i += 1;
    }
    true
}

#[kani::proof]
#[kani::unwind(8)]
fn heap_push_pop_b6() {
    heap_push_pop::<6>()
}

/// thorough tier: the same contract with at most 8 pushes
#[kani::proof]
#[kani::unwind(10)]
fn heap_push_pop_b8() {
    heap_push_pop::<8>()
}

fn heap_push_pop<const N: usize>() {
    let n: usize = kani::any();
    kani::assume(n <= N);
    let fail_at: u32 = kani::any();
    let fail_kind: u8 = kani::any();
    kani::assume(fail_kind == 1 || fail_kind == 2);
    let mut calls: u32 = 0;
    let is_le = |a: &El, b: &El| -> XResult<bool, (), (), ()> {
        calls += 1;
        if fail_at != 0 && calls == fail_at {
            if fail_kind == 1 {
                return Ok(Err(ErrV(7, core::marker::PhantomData)));
            } else {
                return Err(Viol(9));
            }
        }
        Ok(Ok(a.key <= b.key))
    };
    let mut h = TryHeap::with_capacity(N, is_le);
    let mut pushed = [El { key: 0, id: 0 }; N];
    let mut i = 0;
    let mut failed = false;
    while i < n {
        let e = El { key: kani::any(), id: i as u8 };
        pushed[i] = e;
        i += 1;
        let r = h.push(e);
        // whatever the comparator answered: every element pushed so far is in the heap exactly once
        assert!(h.data.len() == i, "push: the heap holds as many elements as were pushed");
        let mut j = 0;
        while j < i {
            assert!(count(&h.data, pushed[j]) == 1, "push: no element lost or duplicated");
            j += 1;
        }
        if !matches!(r, Ok(Ok(()))) {
            failed = true;
            break;
        }
        assert!(is_heap(&h.data), "push: heap order restored on success");
    }
    if !failed && i > 0 {
        let before = i;
        let r = h.pop();
        assert!(h.data.len() == before - 1 || !matches!(r, Ok(Ok(_))), "pop: one element leaves the heap on success");
        if let Ok(Ok(Some(top))) = r {
            let mut j = 0;
            while j < before {
                assert!(pushed[j].key <= top.key, "pop: the largest element is returned");
                if pushed[j] != top {
                    assert!(count(&h.data, pushed[j]) == 1, "pop: every other element stays exactly once");
                }
                j += 1;
            }
            assert!(is_heap(&h.data), "pop: heap order restored on success");
        }
    }
    kani::cover!(n == N && !failed, "six successful pushes reachable");
}
