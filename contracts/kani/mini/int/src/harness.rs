//! Contracts of `LazyBigint` in harness form (assume PRE; call the real fn; assert POST; forget).
//! Oracle: num-bigint on the same operands (same circuits on both sides), plus canonicity.
use crate::lazy_bigint::LazyBigint;
use num_bigint::BigInt;
use num_traits::{One, Pow, Signed, ToPrimitive, Zero};
use std::convert::TryFrom;
use std::mem::forget;

fn canonical(x: &LazyBigint) -> bool {
    match x {
        LazyBigint::Short(_) => true,
        LazyBigint::Long(b) => i64::try_from(b).is_err(),
    }
}
fn to_big(x: &LazyBigint) -> BigInt {
    match x {
        LazyBigint::Short(s) => BigInt::from(*s),
        LazyBigint::Long(b) => b.clone(),
    }
}
fn same(x: &LazyBigint, want: &BigInt) -> bool {
    canonical(x) && &to_big(x) == want
}

// ------------------------------------------------------------------ From<T> (assumed by V-int)
#[kani::proof]
#[kani::unwind(4)]
fn from_i64() {
    let x: i64 = kani::any();
    let r = LazyBigint::from(x);
    assert!(matches!(r, LazyBigint::Short(v) if v == x), "From<i64> is Short with the same value");
    forget(r);
}
#[kani::proof]
#[kani::unwind(4)]
fn from_u64() {
    let x: u64 = kani::any();
    let r = LazyBigint::from(x);
    match &r {
        LazyBigint::Short(v) => assert!(x <= i64::MAX as u64 && *v as u64 == x, "From<u64>: Short iff fits, value preserved"),
        LazyBigint::Long(b) => assert!(x > i64::MAX as u64 && b.to_u64() == Some(x), "From<u64>: Long iff it does not fit, value preserved"),
    }
    forget(r);
}
#[kani::proof]
#[kani::unwind(4)]
fn from_usize() {
    let x: usize = kani::any();
    let r = LazyBigint::from(x);
    match &r {
        LazyBigint::Short(v) => assert!(x <= i64::MAX as usize && *v as usize == x, "From<usize>: Short iff fits, value preserved"),
        LazyBigint::Long(b) => assert!(x > i64::MAX as usize && b.to_u64() == Some(x as u64), "From<usize>: Long iff it does not fit, value preserved"),
    }
    forget(r);
}
#[kani::proof]
#[kani::unwind(4)]
fn from_i128() {
    let x: i128 = kani::any();
    let r = LazyBigint::from(x);
    match &r {
        LazyBigint::Short(v) => assert!(i64::try_from(x).is_ok() && *v as i128 == x, "From<i128>: Short iff fits, value preserved"),
        LazyBigint::Long(b) => assert!(i64::try_from(x).is_err() && b.to_i128() == Some(x), "From<i128>: Long iff it does not fit, value preserved"),
    }
    forget(r);
}
#[kani::proof]
#[kani::unwind(4)]
fn from_bigint_2digits() {
    // BigInt built from a symbolic i128: every BigInt of up to 127 bits
    let x: i128 = kani::any();
    let b = BigInt::from(x);
    let r = LazyBigint::from(b);
    match &r {
        LazyBigint::Short(v) => assert!(i64::try_from(x).is_ok() && *v as i128 == x, "From<BigInt>: Short iff fits, value preserved"),
        LazyBigint::Long(b) => assert!(i64::try_from(x).is_err() && b.to_i128() == Some(x), "From<BigInt>: Long iff it does not fit, value preserved"),
    }
    forget(r);
}

// ------------------------------------------------------------------ Short x Short: complete
macro_rules! short_short {
    ($name:ident, $pre:expr, $op:expr, $msg:literal) => {
        #[kani::proof]
        fn $name() {
            let a: i64 = kani::any();
            let b: i64 = kani::any();
            let pre: fn(i64, i64) -> bool = $pre;
            kani::assume(pre(a, b));
            let op: fn(LazyBigint, LazyBigint) -> LazyBigint = $op;
            let r = op(LazyBigint::Short(a), LazyBigint::Short(b));
            assert!(canonical(&r), $msg);
            forget(r);
        }
    };
}
short_short!(ss_rem_canonical, |_, b| b != 0, |a, b| a % b, "Short%Short is canonical, no panic (rhs != 0)");
short_short!(ss_div_canonical, |_, b| b > 0, |a, b| a / b, "Short/Short is canonical, no panic (rhs > 0: the call sites' precondition)");
// div_floor / div_ceil promote to BigInt on i64::MIN / -1 (since fix b99f206): the BigInt path is
// beyond CBMC (measured: no verdict in 5 min) -- Verus-only.

// Value harnesses for the Short fast paths of + - * % did not finish (CBMC: > 8 min, the
// unreachable-but-compiled BigInt promotion closure dominates) -- those contracts are Verus-only.

#[kani::proof]
fn neg_value_short() {
    let a: i64 = kani::any();
    kani::assume(a != i64::MIN);
    let r = -LazyBigint::Short(a);
    assert!(matches!(r, LazyBigint::Short(v) if v == -a), "neg of a non-MIN Short is Short(-a)");
    forget(r);
}

#[kani::proof]
fn cmp_short() {
    let a: i64 = kani::any();
    let b: i64 = kani::any();
    let (la, lb) = (LazyBigint::Short(a), LazyBigint::Short(b));
    assert!(la.cmp(&lb) == a.cmp(&b), "cmp of Shorts is the i64 order");
    assert!((la == lb) == (a == b), "eq of Shorts is i64 equality");
    forget(la);
    forget(lb);
}

// ------------------------------------------------------------------ float -> int (floor/ceil/trunc)
/// FromPrimitive::from_f64: None iff n is not integral; Some(Short(s)) => s is exactly n;
/// Some(Long(_)) only outside the i64 range.
/// num-bigint's float decoding (digit loops) exhausts CBMC (measured: 65 GB); the harness only needs
/// *that* the Long branch is taken, not the digits
pub(crate) fn bigint_from_f64_stub(_n: f64) -> Option<BigInt> {
    Some(BigInt::from(1u128 << 100))
}

#[kani::proof]
#[kani::unwind(6)]
#[kani::stub(<num_bigint::BigInt as num_traits::FromPrimitive>::from_f64, bigint_from_f64_stub)]
fn from_f64_exact() {
    use num_traits::FromPrimitive;
    let n: f64 = kani::any();
    kani::assume(n.is_finite()); // PRE: floats of the language are finite (C13)
    let r = LazyBigint::from_f64(n);
    match &r {
        None => assert!(n.fract() != 0.0, "None only for a non-integral float"),
        Some(LazyBigint::Short(s)) => {
            assert!(n.fract() == 0.0, "Some only for an integral float");
            assert!(*s as i128 == n as i128, "Short(s) denotes exactly n");
        }
        Some(LazyBigint::Long(_)) => {
            assert!(n.fract() == 0.0, "Some only for an integral float");
            assert!(n >= 9223372036854775808.0 || n < -9223372036854775808.0, "Long only outside the i64 range (canonical)");
        }
    }
    kani::cover!(matches!(&r, Some(LazyBigint::Short(_))), "short reachable");
    kani::cover!(matches!(&r, Some(LazyBigint::Long(_))), "long reachable");
    forget(r);
}
