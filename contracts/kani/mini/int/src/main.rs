//! K-int mini-crate: the real `src/util/lazy_bigint.rs` of the scratch copy, compiled unmodified.
#![allow(dead_code, unused_imports)]
#[path = "@REPO@/src/util/lazy_bigint.rs"]
pub mod lazy_bigint;

#[cfg(kani)]
mod harness;

fn main() {}
