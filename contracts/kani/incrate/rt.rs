//! K-rt: one-step contracts of the limit / accounting / permission primitives
//! (`runtime.rs`, `permissions.rs`, `builtin_permissions.rs`, `xvalue.rs`).
//!
//! Contract form (DESIGN 2.2d): `assume(PRE); snapshot; call real fn; assert(POST); forget`.
//! Every harness is loop-free over full-width symbolic scalars => complete, unless its name
//! ends in `_bNN` (bounded, bound NN).
use crate::builtin::builtin_permissions as bp;
use crate::permissions::{Permission, PermissionSet};
use crate::runtime::{RTCell, Runtime, RuntimeLimits};
use crate::runtime_violation::RuntimeViolation;
use crate::time_provider::SystemTimeProvider;
use crate::units::AllocatedMemory;
use std::mem::forget;

type W = Vec<u8>;
type R = rand::rngs::StdRng;
type T = SystemTimeProvider;

/// CBMC cannot call getrandom; the hasher seed is irrelevant to every contract below.
pub(crate) fn const_random_state() -> std::hash::RandomState {
    // SAFETY: RandomState is two u64 keys.
    unsafe { std::mem::transmute::<(u64, u64), std::hash::RandomState>((0x1234, 0x5678)) }
}

fn mk(limits: RuntimeLimits) -> RTCell<W, R, T> {
    limits.to_runtime(Vec::new(), SystemTimeProvider)
}

fn any_limit() -> Option<usize> {
    if kani::any() {
        Some(kani::any())
    } else {
        None
    }
}

// ---------------------------------------------------------------- C08: user-call counter

/// increment_call_limit:  None => Ok, counter unchanged;
/// Some(L) => counter' = counter+1  and  (Err(MaximumUDCall) <=> counter' >= L).
#[kani::proof]
#[kani::stub(std::hash::RandomState::new, const_random_state)]
fn c08_increment_call_limit() {
    let limit = any_limit();
    let c: usize = kani::any();
    kani::assume(c < usize::MAX); // PRE: no overflow of the counter itself
    let rt = mk(RuntimeLimits {
        ud_call_limit: limit,
        ..Default::default()
    });
    rt.stats.borrow_mut().ud_calls = c;
    let r = rt.increment_call_limit();
    let c2 = rt.stats.borrow().ud_calls;
    match limit {
        None => {
            assert!(r.is_ok(), "no limit => Ok");
            assert!(c2 == c, "no limit => counter untouched");
        }
        Some(l) => {
            assert!(c2 == c + 1, "counter incremented exactly once");
            assert!(r.is_err() == (c2 >= l), "violation iff counter reaches L");
            if let Err(e) = &r {
                assert!(matches!(e, RuntimeViolation::MaximumUDCall), "violation kind");
            }
        }
    }
    kani::cover!(limit.is_some() && r.is_err(), "err reachable");
    kani::cover!(limit.is_some() && r.is_ok(), "ok reachable");
    forget(r);
    forget(rt);
}

/// reset_ud_calls / reset_call_limit: counter' = 0, nothing else of the accounting changes.
#[kani::proof]
#[kani::stub(std::hash::RandomState::new, const_random_state)]
fn c08_reset_counters() {
    let limit = any_limit();
    let c: usize = kani::any();
    let s: usize = kani::any();
    let which: bool = kani::any();
    let rt = mk(RuntimeLimits {
        ud_call_limit: limit,
        ..Default::default()
    });
    rt.stats.borrow_mut().ud_calls = c;
    rt.stats.borrow_mut().size = AllocatedMemory(s);
    if which {
        rt.reset_ud_calls();
    } else {
        rt.reset_call_limit();
    }
    assert!(rt.stats.borrow().ud_calls == 0, "reset restores the full budget");
    assert!(rt.stats.borrow().size == AllocatedMemory(s), "reset leaves size alone");
    forget(rt);
}

/// History lemma over the step contract, checked on the real code for the first step after a
/// reset: after reset, exactly the (L-1) first calls succeed -- shown as: from counter 0, the
/// k-th call (k = counter before + 1) fails iff k >= L.  (Induction on k is the step harness.)
#[kani::proof]
#[kani::stub(std::hash::RandomState::new, const_random_state)]
fn c08_reset_then_call() {
    let l: usize = kani::any();
    let c: usize = kani::any();
    let rt = mk(RuntimeLimits {
        ud_call_limit: Some(l),
        ..Default::default()
    });
    rt.stats.borrow_mut().ud_calls = c;
    rt.reset_call_limit();
    let r = rt.increment_call_limit();
    assert!(r.is_err() == (1 >= l), "first call after reset fails iff L <= 1");
    forget(r);
    forget(rt);
}
