//! K-rt: one-step contracts of the limit / accounting / permission primitives
//! (`runtime.rs`, `permissions.rs`, `builtin_permissions.rs`, `xvalue.rs`).
//!
//! Contract form (DESIGN 2.2d): `assume(PRE); snapshot; call real fn; assert(POST); forget`.
//! Every harness is loop-free over full-width symbolic scalars => complete, unless its name
//! ends in `_bNN` (bounded, bound NN).
use crate::builtin::builtin_permissions as bp;
use crate::permissions::{Permission, PermissionSet};
use crate::runtime::{RTCell, Runtime, RuntimeLimits};
use crate::runtime_violation::RuntimeViolation;
use crate::time_provider::SystemTimeProvider;
use crate::units::AllocatedMemory;
use std::mem::forget;

type W = Vec<u8>;
type R = rand::rngs::StdRng;
type T = SystemTimeProvider;

/// CBMC cannot call getrandom; the hasher seed is irrelevant to every contract below.
pub(crate) fn const_random_state() -> std::hash::RandomState {
    // SAFETY: RandomState is two u64 keys.
    unsafe { std::mem::transmute::<(u64, u64), std::hash::RandomState>((0x1234, 0x5678)) }
}

fn mk(limits: RuntimeLimits) -> RTCell<W, R, T> {
    limits.to_runtime(Vec::new(), SystemTimeProvider)
}

fn any_limit() -> Option<usize> {
    if kani::any() {
        Some(kani::any())
    } else {
        None
    }
}

// ---------------------------------------------------------------- C08: user-call counter

/// increment_call_limit:  None => Ok, counter unchanged;
/// Some(L) => counter' = counter+1  and  (Err(MaximumUDCall) <=> counter' >= L).
#[kani::proof]
#[kani::stub(std::hash::RandomState::new, const_random_state)]
fn c08_increment_call_limit() {
    let limit = any_limit();
    let c: usize = kani::any();
    kani::assume(c < usize::MAX); // PRE: no overflow of the counter itself
    let rt = mk(RuntimeLimits {
        ud_call_limit: limit,
        ..Default::default()
    });
    rt.stats.borrow_mut().ud_calls = c;
    let r = rt.increment_call_limit();
    let c2 = rt.stats.borrow().ud_calls;
    match limit {
        None => {
            assert!(r.is_ok(), "no limit => Ok");
            assert!(c2 == c, "no limit => counter untouched");
        }
        Some(l) => {
            assert!(c2 == c + 1, "counter incremented exactly once");
            assert!(r.is_err() == (c2 >= l), "violation iff counter reaches L");
            if let Err(e) = &r {
                assert!(matches!(e, RuntimeViolation::MaximumUDCall), "violation kind");
            }
        }
    }
    kani::cover!(limit.is_some() && r.is_err(), "err reachable");
    kani::cover!(limit.is_some() && r.is_ok(), "ok reachable");
    forget(r);
    forget(rt);
}

/// reset_ud_calls / reset_call_limit: counter' = 0, nothing else of the accounting changes.
#[kani::proof]
#[kani::stub(std::hash::RandomState::new, const_random_state)]
fn c08_reset_counters() {
    let limit = any_limit();
    let c: usize = kani::any();
    let s: usize = kani::any();
    let which: bool = kani::any();
    let rt = mk(RuntimeLimits {
        ud_call_limit: limit,
        ..Default::default()
    });
    rt.stats.borrow_mut().ud_calls = c;
    rt.stats.borrow_mut().size = AllocatedMemory(s);
    if which {
        rt.reset_ud_calls();
    } else {
        rt.reset_call_limit();
    }
    assert!(rt.stats.borrow().ud_calls == 0, "reset restores the full budget");
    assert!(rt.stats.borrow().size == AllocatedMemory(s), "reset leaves size alone");
    forget(rt);
}

/// History lemma over the step contract, checked on the real code for the first step after a
/// reset: after reset, exactly the (L-1) first calls succeed -- shown as: from counter 0, the
/// k-th call (k = counter before + 1) fails iff k >= L.  (Induction on k is the step harness.)
#[kani::proof]
#[kani::stub(std::hash::RandomState::new, const_random_state)]
fn c08_reset_then_call() {
    let l: usize = kani::any();
    let c: usize = kani::any();
    let rt = mk(RuntimeLimits {
        ud_call_limit: Some(l),
        ..Default::default()
    });
    rt.stats.borrow_mut().ud_calls = c;
    rt.reset_call_limit();
    let r = rt.increment_call_limit();
    assert!(r.is_err() == (1 >= l), "first call after reset fails iff L <= 1");
    forget(r);
    forget(rt);
}

// ---------------------------------------------------------------- C09: size accounting
use crate::allocations::Allocateable;

/// an allocateable of arbitrary accounted size
#[derive(Debug)]
struct Sz(usize);
impl Allocateable for Sz {
    fn byte_size(&self) -> AllocatedMemory {
        self.0.into()
    }
}

/// allocate:  None => Ok(0), size unchanged;
/// Some(M): Ok(s) => s == byte_size, size' == size + s, size' <= M;  Err => AllocationLimitReached
/// and size' == size (a failed allocation is not accounted: nothing is constructed that would
/// give it back).
#[kani::proof]
#[kani::stub(std::hash::RandomState::new, const_random_state)]
fn c09_allocate() {
    let limit = any_limit();
    let size: usize = kani::any();
    let req: usize = kani::any();
    kani::assume(size.checked_add(req).is_some()); // PRE: the accounted total is representable
    let rt = mk(RuntimeLimits {
        size_limit: limit,
        ..Default::default()
    });
    rt.stats.borrow_mut().size = AllocatedMemory(size);
    let r = rt.allocate(&Sz(req));
    let size2 = rt.stats.borrow().size.0;
    match (limit, &r) {
        (None, Ok(s)) => {
            assert!(s.0 == 0, "no limit: nothing is accounted (returns 0)");
            assert!(size2 == size, "no limit: size untouched");
        }
        (None, Err(_)) => assert!(false, "no limit: allocation never fails"),
        (Some(m), Ok(s)) => {
            assert!(s.0 == req, "Ok returns the accounted size");
            assert!(size2 == size + req, "Ok adds exactly the accounted size");
            assert!(size2 <= m, "Ok only within the limit");
        }
        (Some(m), Err(e)) => {
            assert!(matches!(e, RuntimeViolation::AllocationLimitReached), "violation kind");
            assert!(size + req > m, "Err only when the limit would be exceeded");
            assert!(size2 == size, "a failed allocation leaves the accounted size unchanged");
        }
    }
    kani::cover!(limit.is_some() && r.is_err(), "err reachable");
    kani::cover!(limit.is_some() && r.is_ok(), "ok reachable");
    forget(r);
    forget(rt);
}

/// deallocate(s): size' == size - s  (requires s <= size: never underflows for sizes handed out
/// by allocate, by the contract above).
#[kani::proof]
#[kani::stub(std::hash::RandomState::new, const_random_state)]
fn c09_deallocate() {
    let limit = any_limit();
    let size: usize = kani::any();
    let s: usize = kani::any();
    kani::assume(s <= size);
    let rt = mk(RuntimeLimits {
        size_limit: limit,
        ..Default::default()
    });
    rt.stats.borrow_mut().size = AllocatedMemory(size);
    rt.deallocate(AllocatedMemory(s));
    assert!(rt.stats.borrow().size.0 == size - s, "deallocate returns exactly s bytes");
    forget(rt);
}

/// allocate followed by deallocate of the returned size is the identity on the accounted total
#[kani::proof]
#[kani::stub(std::hash::RandomState::new, const_random_state)]
fn c09_allocate_deallocate_balance() {
    let limit = any_limit();
    let size: usize = kani::any();
    let req: usize = kani::any();
    kani::assume(size.checked_add(req).is_some());
    let rt = mk(RuntimeLimits {
        size_limit: limit,
        ..Default::default()
    });
    rt.stats.borrow_mut().size = AllocatedMemory(size);
    let r = rt.allocate(&Sz(req));
    if let Ok(s) = &r {
        rt.deallocate(*s);
    }
    assert!(rt.stats.borrow().size.0 == size, "allocate (Ok or Err) then drop restores the baseline");
    forget(r);
    forget(rt);
}

/// can_allocate_by:  Err(AllocationLimitReached) <=> limit = Some(M), f() = Some(n), min(size + n, usize::MAX) > M
/// (no panic for any estimate: the natives pass saturated estimates)
#[kani::proof]
#[kani::stub(std::hash::RandomState::new, const_random_state)]
fn c09_can_allocate_by() {
    let limit = any_limit();
    let size: usize = kani::any();
    let want: Option<usize> = if kani::any() { Some(kani::any()) } else { None };
    // no precondition on the magnitudes: the estimate may be any usize (it saturates in the natives)
    let rt = mk(RuntimeLimits {
        size_limit: limit,
        ..Default::default()
    });
    rt.stats.borrow_mut().size = AllocatedMemory(size);
    let r = rt.can_allocate_by(|| want);
    let should_fail = match (limit, want) {
        // the estimate is added with saturation: exact, except that nothing can exceed a limit of
        // usize::MAX (the accounted total is a usize; `allocate` is the enforcing check)
        (Some(m), Some(n)) => std::cmp::min(size as u128 + n as u128, usize::MAX as u128) > m as u128,
        _ => false,
    };
    assert!(r.is_err() == should_fail, "pre-flight check fails exactly when the limit would be exceeded");
    assert!(rt.stats.borrow().size.0 == size, "pre-flight check accounts nothing");
    forget(r);
    forget(rt);
}

/// monotonicity in the limit: what is allowed under M is allowed under every M' >= M
#[kani::proof]
#[kani::stub(std::hash::RandomState::new, const_random_state)]
fn c09_allocate_monotone_in_limit() {
    let m: usize = kani::any();
    let m2: usize = kani::any();
    kani::assume(m2 >= m);
    let size: usize = kani::any();
    let req: usize = kani::any();
    kani::assume(size.checked_add(req).is_some());
    let rt = mk(RuntimeLimits {
        size_limit: Some(m),
        ..Default::default()
    });
    let rt2 = mk(RuntimeLimits {
        size_limit: Some(m2),
        ..Default::default()
    });
    rt.stats.borrow_mut().size = AllocatedMemory(size);
    rt2.stats.borrow_mut().size = AllocatedMemory(size);
    let r = rt.allocate(&Sz(req));
    let r2 = rt2.allocate(&Sz(req));
    assert!(!r.is_ok() || r2.is_ok(), "raising the limit never turns Ok into Err");
    forget(r);
    forget(r2);
    forget(rt);
    forget(rt2);
}

// ---------------------------------------------------------------- C11: permissions

fn any_perm() -> Permission {
    let k: u8 = kani::any();
    match k % 6 {
        0 => bp::NOW,
        1 => bp::PRINT,
        2 => bp::PRINT_DEBUG,
        3 => bp::RANDOM,
        4 => bp::REGEX,
        _ => bp::SLEEP,
    }
}

/// documented defaults: regex and sleep off, the others on -- and distinct ids
#[kani::proof]
fn c11_default_table() {
    assert!(bp::NOW.default && bp::PRINT.default && bp::PRINT_DEBUG.default && bp::RANDOM.default, "now/print/print_debug/random default to allowed");
    assert!(!bp::REGEX.default && !bp::SLEEP.default, "regex and sleep default to forbidden");
    let ids = [bp::NOW.id, bp::PRINT.id, bp::PRINT_DEBUG.id, bp::RANDOM.id, bp::REGEX.id, bp::SLEEP.id];
    let mut i = 0;
    while i < 6 {
        let mut j = i + 1;
        while j < 6 {
            assert!(ids[i] != ids[j], "permission ids are pairwise distinct");
            j += 1;
        }
        i += 1;
    }
}

// PermissionSet::{get, allow, forbid} and RuntimeLimits::check_permission are under Verus contracts
// (unit V-perm): std HashMap is beyond CBMC here (measured: no verdict in 15 min even for concrete
// keys; hashbrown probing + SipHash).

// ---------------------------------------------------------------- C13: checked float constructor
use crate::xvalue::XValue;

/// XValue::float(x): Ok(Ok(Float(y))) => y is x and finite; a non-finite x never yields a Float.
#[kani::proof]
#[kani::unwind(8)]
#[kani::stub(std::hash::RandomState::new, const_random_state)]
fn c13_checked_float_ctor() {
    let x: f64 = kani::any();
    let rt = mk(RuntimeLimits::default());
    let r = XValue::<W, R, T>::float(x, &rt);
    match &r {
        Ok(Ok(XValue::Float(y))) => {
            assert!(x.is_finite(), "a Float value is only built from a finite operand");
            assert!(y.to_bits() == x.to_bits(), "the payload is the operand");
        }
        Ok(Ok(_)) => assert!(false, "float() builds nothing but Float"),
        Ok(Err(_)) => assert!(!x.is_finite(), "an error value only for a non-finite operand"),
        Err(_) => assert!(!x.is_finite(), "no violation for a finite operand"),
    }
    kani::cover!(matches!(&r, Ok(Ok(_))), "finite reachable");
    kani::cover!(matches!(&r, Ok(Err(_))), "non-finite reachable");
    forget(r);
    forget(rt);
}

/// site floats.rs `neg`: the operand is the payload of a Float value (finite by the invariant);
/// negation of a finite f64 is finite.
#[kani::proof]
fn c13_neg_preserves_finiteness() {
    let a: f64 = kani::any();
    kani::assume(a.is_finite());
    assert!((-a).is_finite(), "negation of a finite float is finite");
    kani::cover!(a < 0.0, "domain not empty");
}

// ---------------------------------------------------------------- C09: managed error values
use crate::xvalue::ManagedXError;

/// ManagedXError::new(msg) then drop:  Ok(e) => the accounted total grew by at least the payload
/// and stays within the limit, and dropping e restores the baseline exactly;
/// Err(violation) => nothing stays accounted (the baseline is restored immediately).
#[kani::proof]
#[kani::unwind(6)]
#[kani::stub(std::hash::RandomState::new, const_random_state)]
fn c09_managed_error_new_and_drop() {
    let limit = any_limit();
    let size: usize = kani::any();
    kani::assume(size <= usize::MAX - 4096); // PRE: the accounted total is representable
    let rt = mk(RuntimeLimits {
        size_limit: limit,
        ..Default::default()
    });
    rt.stats.borrow_mut().size = AllocatedMemory(size);
    let r = ManagedXError::new("abc", rt.clone());
    let after = rt.stats.borrow().size.0;
    match r {
        Ok(e) => {
            if let Some(m) = limit {
                assert!(after >= size + 3, "a live error value is accounted for at least its payload");
                assert!(after <= m, "live values never exceed the limit");
            } else {
                assert!(after == size, "no limit: nothing is accounted");
            }
            drop(e);
            assert!(rt.stats.borrow().size.0 == size, "dropping the error value returns its bytes exactly");
        }
        Err(v) => {
            assert!(limit.is_some(), "no limit: construction never fails");
            assert!(after == size, "a failed construction leaves nothing accounted");
            forget(v);
        }
    }
    forget(rt);
}

// ManagedXValue::new + Drop (the same contract as ManagedXError above, payloads Bool / Float / Short Int) was
// tried as `c09_managed_value_new_and_drop`: no CBMC verdict in 20 min (XValue::size and the drop glue of
// XValue reach `dyn XNativeValue` and the function variants).  Not registered; listed as unreached.

// ---------------------------------------------------------------- C08: search budget (bounded stand-in)

/// search_iter, BOUNDED (limit <= 3): exactly L permits, then exactly one MaximumSearch violation, then
/// the end; without a limit the first four items are permits.  Independent of how the stream is built
/// (the unbounded proof for the current shape is the Verus unit V-budget).
#[kani::proof]
#[kani::unwind(6)]
#[kani::stub(std::hash::RandomState::new, const_random_state)]
fn c08_search_iter_b3() {
    search_iter_bounded(3)
}

/// thorough tier: the same contract for limits up to 12
#[kani::proof]
#[kani::unwind(15)]
#[kani::stub(std::hash::RandomState::new, const_random_state)]
fn c08_search_iter_b12() {
    search_iter_bounded(12)
}

fn search_iter_bounded(max_limit: usize) {
    let l: usize = kani::any();
    kani::assume(l <= max_limit);
    let limits = RuntimeLimits {
        maximum_search: Some(l),
        ..Default::default()
    };
    let mut it = limits.search_iter();
    let mut k = 0usize;
    while k < l {
        assert!(matches!(it.next(), Some(Ok(()))), "a permit for each of the first L items");
        k += 1;
    }
    assert!(
        matches!(it.next(), Some(Err(RuntimeViolation::MaximumSearch))),
        "item L+1 is the MaximumSearch violation"
    );
    assert!(it.next().is_none(), "the budget ends after the violation");
    let unlimited = RuntimeLimits::default();
    let mut it2 = unlimited.search_iter();
    let mut j = 0usize;
    while j < 4 {
        assert!(matches!(it2.next(), Some(Ok(()))), "no limit: permits only");
        j += 1;
    }
    forget(limits);
    forget(unlimited);
}
