//! In-crate Kani harness modules.  Spliced into a scratch copy of the crate as
//! `#[cfg(kani)] #[path = ".../mod.rs"] mod __vx;` -- never present in /repo.
#![allow(dead_code, unused_imports, unused_qualifications, unreachable_pub, clippy::all)]

pub(crate) mod rt;
