// V-galloc prelude (C09, "pre-flight checks before large native allocations"): the buffer of the generator
// adaptor Windows (src/builtin/generators.rs, XGenerator::_iter): the initialiser of `memory`, real text.
// R-alloc turns a capacity request into an obligation: it must be covered by a pre-flight allocation check
// on the same path (`preflight_words()`); on this path there is none, so nothing may be reserved up front
// for a size the program chose (the buffer grows as elements arrive, each of them an accounted value).
#![allow(unused_imports, dead_code, unused_variables)]
use vstd::prelude::*;
use std::collections::VecDeque;

verus! {

pub struct Val { pub id: Ghost<int> }
pub uninterp spec fn preflight_words() -> nat;
#[verifier::external_body]
pub fn vx_deque_with_capacity<X>(capacity: usize) -> (r: VecDeque<X>)
    requires capacity <= preflight_words(),
    ensures r@.len() == 0,
{ unimplemented!() }
#[verifier::external_body]
pub fn vx_with_capacity<X>(capacity: usize) -> (r: Vec<X>)
    requires capacity <= preflight_words(),
    ensures r@.len() == 0,
{ unimplemented!() }

// @@INCLUDE stdx@@

// @@EXTRACTED@@

} // verus!
fn main() {}
