// V-runs prelude (C19, sorting): natural-run detection of try_sort (src/util/trysort.rs).
// The comparator is a function that, whenever it answers, decides a fixed strict relation `lt`
// (it may also fail with an error value or a violation -- then the fragment returns that failure).
#![allow(unused_imports, dead_code, unused_variables, unused_mut)]
use vstd::prelude::*;

verus! {

global size_of usize == 8;

pub uninterp spec fn lt<T>(a: T, b: T) -> bool;

/// contract of the comparator parameter `is_less`
pub open spec fn implements_lt<T, F: Fn(&T, &T) -> Result<Result<bool, E1>, E0>, E0, E1>(f: &F) -> bool {
    &&& forall|a: &T, b: &T| #[trigger] f.requires((a, b))
    &&& forall|a: &T, b: &T, r: Result<Result<bool, E1>, E0>| #[trigger] f.ensures((a, b), r) ==>
            (r matches Ok(Ok(x)) ==> x == lt(*a, *b))
}

/// v[s..e) is non-descending / strictly descending w.r.t. lt
pub open spec fn non_descending<T>(v: Seq<T>, s: int, e: int) -> bool {
    forall|i: int| s < i < e ==> !lt(#[trigger] v[i], v[i - 1])
}
pub open spec fn strictly_descending<T>(v: Seq<T>, s: int, e: int) -> bool {
    forall|i: int| s < i < e ==> lt(#[trigger] v[i], v[i - 1])
}

// @@EXTRACTED@@

} // verus!
fn main() {}
