// V-gchainarm prelude (C16, "evaluates only the prefix of an infinite source that the requested elements need"):
// the Chain arm of `XGenerator::_iter` (src/builtin/generators.rs), real text of the closure that `flat_map` applies
// to each part of a chain.
//
// A generator denotes a possibly ENDLESS stream (`slen`: its length if it is finite); `_iter` hands out that stream
// lazily.  `Iterator::collect` consumes its receiver to the end: on an endless stream it does not terminate (and
// allocates without bound), so its contract REQUIRES a finite stream.
//
// Contract of the closure: for every part -- finite or not -- the iterator handed to `flat_map` yields exactly the
// part's stream, and building it terminates whatever the part is (no call may need the part to be finite).
//
// Assumed: the downcast `to_native!(gen, Self)` as a model macro (C01: the parts of a chain are generators);
// `flat_map` concatenates the iterators its closure answers, in order, pulling each only as far as requested
// (std's documented meaning).
#![allow(unused_imports, dead_code, unused_variables, unused_mut, unreachable_code)]
use vstd::prelude::*;

verus! {

pub struct ErrV { pub id: Ghost<int> }
pub struct RuntimeViolation { pub id: Ghost<int> }
pub type RuntimeResult<X> = Result<X, RuntimeViolation>;
pub type XResult<X> = RuntimeResult<Result<X, ErrV>>;
/// the stream a generator denotes: element k for every k below its length (None: endless)
pub struct Stream { pub slen: Option<nat>, pub id: int }
pub uninterp spec fn stream_at(s: Stream, k: int) -> XResult<Val>;
pub struct XGenerator { pub s: Ghost<Stream> }
pub enum XValue { Native(Box<XGenerator>), Other(Ghost<int>) }
/// Rc<ManagedXValue>
pub struct Val { pub value: XValue }
pub struct Rt;
impl Rt { #[verifier::external_body] pub fn clone(&self) -> (r: Rt) { unimplemented!() } }
pub struct Ns;
/// the iterator `_iter` hands out: lazily, the generator's stream from position `pos`
/// (the three parameters stand for the interpreter's W, R, T, so that `BIter<_, _, _>` in the source text resolves)
pub struct GIterP<A, B, C> { pub s: Ghost<Stream>, pub pos: Ghost<nat>, pub p: Ghost<(A, B, C)> }
pub type GIter = GIterP<(), (), ()>;
pub type BIter<A, B, C> = Box<GIterP<A, B, C>>;
impl XGenerator {
    pub open spec fn stream(&self) -> Stream { self.s@ }
    #[verifier::external_body]
    pub fn _iter(&self, ns: &Ns, rt: Rt) -> (r: GIter) ensures r.s@ == self.stream(), r.pos@ == 0 { unimplemented!() }
}
/// Vec<XResult<Val>> as its element list
pub struct Vec<X> { pub v: Ghost<Seq<X>> }
impl<A, B, C> GIterP<A, B, C> {
    /// `Iterator::collect::<Vec<_>>()`: the remaining elements, ALL of them -- terminates only on a finite stream
    #[verifier::external_body]
    pub fn collect<X: VxFromStream>(self) -> (r: X)
        requires self.s@.slen is Some,
        ensures r.as_stream() == self.s@,
    { unimplemented!() }
}
/// what `flat_map` can be handed: something that iterates over a stream
pub trait VxFromStream: Sized { spec fn as_stream(&self) -> Stream; }
impl VxFromStream for Vec<XResult<Val>> {
    uninterp spec fn as_stream(&self) -> Stream;
}
impl VxFromStream for Box<GIter> {
    open spec fn as_stream(&self) -> Stream { self.s@ }
}
/// the downcast of a part of a chain (model macro: C01 -- the parts of a chain are generators)
#[verifier::external_body]
pub fn vx_downcast(b: &Box<XGenerator>) -> (r: &XGenerator) ensures *r == **b { unimplemented!() }
#[verifier::external_body]
pub fn vx_panic<X>() -> (r: X) requires false { unimplemented!() }
macro_rules! to_native { ($x:expr, $t:ty) => { match &$x.value { XValue::Native(__b) => vx_downcast(__b), _ => vx_panic() } } }
pub open spec fn part_stream(gen: Val) -> Stream { gen.value->Native_0.stream() }

// @@EXTRACTED@@

} // verus!
fn main() {}
