// V-permut prelude (C15, the index native behind `permutations`): `permutation` (src/builtin/int.rs) from the guard
// `k > n` to the end of the loops that turn the mixed-radix digits of i into a permutation.  Decided, for every
// (n, i, k): no underflow / overflow / division by zero / index out of range, the answer is "i too large" exactly
// when i is not below the number n (n-1) .. (n-k+1) of k-permutations, and otherwise k indices below n are handed
// to the result.  For C10: every iteration of the digit loop and of the inner fix-up loop draws one permit of the
// call's search budget first, so under a search limit L a call ends within L such iterations or in MaximumSearch.
// NOT decided: that they are pairwise distinct and are the i-th permutation in lexicographic order.
#![allow(unused_imports, dead_code, unused_variables, unused_mut)]
use vstd::prelude::*;
use std::rc::Rc;

verus! {

global size_of usize == 8;

/// a (a+1) .. b, the empty product being 1
pub open spec fn prod_incl(a: int, b: int) -> int decreases b - a + 1 {
    if a > b { 1 } else { prod_incl(a, b - 1) * b }
}
/// n (n-1) .. (n-k+1): the number of k-permutations of n items
pub open spec fn falling(n: int, k: nat) -> int decreases k {
    if k == 0 { 1 } else { falling(n, (k - 1) as nat) * (n - (k - 1)) }
}
pub proof fn lemma_falling_pos(n: int, k: nat)
    requires k <= n,
    ensures falling(n, k) >= 1,
    decreases k,
{
    if k > 0 {
        lemma_falling_pos(n, (k - 1) as nat);
        assert(falling(n, (k - 1) as nat) * (n - (k - 1)) >= 1) by(nonlinear_arith) requires falling(n, (k - 1) as nat) >= 1, n - (k - 1) >= 1;
    }
}
/// the falling factorial does not decrease in k (every factor is at least 1)
pub proof fn lemma_falling_mono(n: int, a: nat, b: nat)
    requires a <= b <= n,
    ensures falling(n, a) <= falling(n, b),
    decreases b - a,
{
    if a < b {
        lemma_falling_mono(n, a, (b - 1) as nat);
        lemma_falling_pos(n, (b - 1) as nat);
        assert(falling(n, (b - 1) as nat) * (n - (b - 1)) >= falling(n, (b - 1) as nat)) by(nonlinear_arith) requires falling(n, (b - 1) as nat) >= 1, n - (b - 1) >= 1;
    }
}

/// `(A..=B)` over usize (R-rangeiter)
pub struct VRangeIncl { pub lo: usize, pub hi: usize }
pub fn vx_range_incl(a: usize, b: usize) -> (r: VRangeIncl) ensures r.lo == a, r.hi == b { VRangeIncl { lo: a, hi: b } }
impl VRangeIncl {
    /// Iterator::product on a RangeInclusive<usize>: multiplies in usize ("panics on overflow when debug assertions
    /// are enabled, wraps otherwise"), so it is only specified while the product fits
    #[verifier::external_body]
    pub fn product(self) -> (r: usize)
        requires prod_incl(self.lo as int, self.hi as int) <= usize::MAX,
        ensures r == prod_incl(self.lo as int, self.hi as int),
    { unimplemented!() }
}
/// `(A..B)` over usize (R-rangeiter) and its reversal: yields B-1, B-2, .., A
pub struct VRange { pub lo: usize, pub hi: usize }
pub fn vx_range(a: usize, b: usize) -> (r: VRange) ensures r.lo == a, r.hi == b { VRange { lo: a, hi: b } }
pub struct VRev { pub lo: usize, pub hi: usize }
impl VRange {
    pub fn rev(self) -> (r: VRev) ensures r.lo == self.lo, r.hi == self.hi { VRev { lo: self.lo, hi: self.hi } }
}
impl VRev {
    pub fn next(&mut self) -> (r: Option<usize>)
        ensures
            old(self).lo < old(self).hi ==> r == Some((old(self).hi - 1) as usize) && final(self).hi == old(self).hi - 1 && final(self).lo == old(self).lo,
            old(self).lo >= old(self).hi ==> r is None && *final(self) == *old(self),
    {
        if self.lo < self.hi { self.hi = self.hi - 1; Some(self.hi) } else { None }
    }
}

/// [T]::reverse: "reverses the order of elements in the slice, in place"
pub assume_specification<T> [ <[T]>::reverse ] (s: &mut [T])
    ensures final(s)@ == old(s)@.reverse();

/// the search budget of one native call (`RuntimeLimits::search_iter`, under contract in V-budget): with a limit L
/// exactly L permits, then exactly one Err(MaximumSearch), then the end; without a limit endless permits
pub struct SearchIt { pub limit: Ghost<Option<nat>>, pub drawn: Ghost<nat>, pub failed: Ghost<bool> }
impl SearchIt {
    #[verifier::external_body]
    pub fn next(&mut self) -> (r: Option<RuntimeResult<()>>)
        ensures
            final(self).limit@ == old(self).limit@, final(self).drawn@ == old(self).drawn@ + 1,
            !old(self).failed@ ==> (r matches Some(x) && match old(self).limit@ {
                Some(l) => (x is Ok <==> old(self).drawn@ < l),
                None => x is Ok,
            }),
            final(self).failed@ == (old(self).failed@ || !(r matches Some(Ok(_)))),
    { unimplemented!() }
}
pub struct Limits { pub search: Ghost<Option<nat>> }
impl Limits {
    #[verifier::external_body]
    pub fn search_iter(&self) -> (r: SearchIt) ensures r.limit@ == self.search@, r.drawn@ == 0, !r.failed@ { unimplemented!() }
}
pub struct Rt { pub limits: Limits }
impl Rt {
    #[verifier::external_body]
    pub fn clone(&self) -> (r: Rt) { unimplemented!() }
    /// RTCell::can_allocate: Err exactly when the size limit refuses (not part of this unit's claim)
    #[verifier::external_body]
    pub fn can_allocate(&self, n: usize) -> (r: RuntimeResult<()>) { unimplemented!() }
}
pub struct RuntimeViolation;
pub struct ManagedXError { pub msg: Ghost<Seq<char>> }
pub type RuntimeResult<T> = Result<T, RuntimeViolation>;
impl ManagedXError {
    #[verifier::external_body]
    pub fn new(error: &str, runtime: Rt) -> (r: RuntimeResult<Rc<ManagedXError>>)
        ensures r matches Ok(e) ==> e.msg@ == error@,
    { unimplemented!() }
}
pub enum Out { Err(Seq<char>), Indices(Seq<usize>) }
#[verifier::external_body]
pub fn xerr(e: Rc<ManagedXError>) -> (r: RuntimeResult<Out>) ensures r == Ok::<Out, RuntimeViolation>(Out::Err(e.msg@)) { unimplemented!() }
/// the part of the native after the loops: wraps each index into a managed Int and the vector into an Array
#[verifier::external_body]
pub fn rest(ret: Vec<usize>) -> (r: RuntimeResult<Out>) ensures r matches Ok(o) ==> o == Out::Indices(ret@) { unimplemented!() }

// @@EXTRACTED@@

} // verus!
fn main() {}
