// V-sequpd prelude (C15, "copying updates (push/rpush/insert/pop/set/swap)"): the builtins of
// src/builtin/sequence.rs that build a new array from an existing sequence, real text from the statement
// after the index normalisation (V-idx) through the end of the native closure; `Vec::try_extend`
// (src/util/try_extend.rs, real body, R-for) under the contract its callers use; `XSequence::array`.
//
// Contract of each: the result is a NEW sequence whose element list is what the same operation gives on
// the plain list `s` of the argument's elements: push `s + [x]`, rpush `[x] + s`, insert
// `s[..i] + [x] + s[i..]`, pop `s[..i] + s[i+1..]`, set `s[..i] + [x] + s[i+1..]`, swap `s` with positions
// i and j exchanged (the argument itself when i == j).  The argument is only read (`&`).
//
// Assumed: the argument sequence is finite and holds values (C06: collections never contain errors);
// std's take / skip / collect / size_hint on the element iterator by their documented meaning (trusted);
// the element iterator yields the elements in index order (XSequence::iter / get, V-seq decides two
// representations).
#![allow(unused_imports, dead_code, unused_variables, unused_mut)]
#![feature(allocator_api)]
use vstd::prelude::*;
use vstd::std_specs::convert::*;
use std::mem::size_of;

verus! {

global size_of usize == 8;
pub mod words {
    use vstd::prelude::*;
    /// `n * size_of::<usize>()` with the word size known to be 8 is the linear term `n * 8`
    pub broadcast proof fn lemma_mul_word(a: int, b: int)
        requires b == 8,
        ensures #[trigger] (a * b) == a * 8,
    {}
}
broadcast use words::lemma_mul_word;


// @@INCLUDE lazyint@@
pub struct P<W, R, T> { pub w: Ghost<W>, pub r: Ghost<R>, pub t: Ghost<T> }
/// the representations a copying update can produce
pub enum XSequence<W, R, T> { Empty, Array(Vec<Val<W, R, T>>), Other(P<W, R, T>) }
pub struct Func { pub id: Ghost<int> }
pub enum XValue<W, R, T> { Native(Box<XSequence<W, R, T>>), Bool(bool), Int(LazyBigint), Function(Func) }
pub mod xvalue { pub use super::XValue; }
/// Rc<ManagedXValue>
pub struct Val<W, R, T> { pub value: XValue<W, R, T> }
impl<W, R, T> Clone for Val<W, R, T> { #[verifier::external_body] fn clone(&self) -> (r: Self) ensures r == *self { unimplemented!() } }
pub struct ErrV { pub id: Ghost<int> }
pub struct RuntimeViolation { pub id: Ghost<int> }
pub type RuntimeResult<X> = Result<X, RuntimeViolation>;
pub type EvaluatedValue<W, R, T> = Result<Val<W, R, T>, ErrV>;
pub type XResult<X> = RuntimeResult<Result<X, ErrV>>;
pub enum TailedEvalResult<W, R, T> { Value(EvaluatedValue<W, R, T>), TailCall(Vec<EvaluatedValue<W, R, T>>) }
pub mod xexpr { pub use super::TailedEvalResult; }
pub struct Rt;
impl Rt {
    #[verifier::external_body] pub fn clone(&self) -> (r: Rt) { unimplemented!() }
    /// pre-flight allocation check (C09)
    #[verifier::external_body] pub fn can_allocate(&self, new_size: usize) -> (r: RuntimeResult<()>) { unimplemented!() }
}
pub struct ManagedXError;
impl ManagedXError {
    #[verifier::external_body]
    pub fn new(error: &str, rt: Rt) -> (r: RuntimeResult<ErrV>) { unimplemented!() }
}
/// builtin/core.rs `xerr`
#[verifier::external_body]
pub fn xerr<W, R, T>(err: ErrV) -> (r: RuntimeResult<TailedEvalResult<W, R, T>>)
    ensures r == Ok::<TailedEvalResult<W, R, T>, RuntimeViolation>(TailedEvalResult::Value(Err(err))),
{ unimplemented!() }
#[verifier::external_body]
pub fn vx_panic<X>() -> (r: X)
    requires false,
{ unimplemented!() }
macro_rules! panic { ($($t:tt)*) => { vx_panic() } }
/// the position the index value `i` denotes in a list of length `l` (V-idx: value_to_idx)
pub open spec fn norm_idx(i: int, l: int) -> Option<int> {
    if 0 <= i < l { Some(i) } else if -l <= i < 0 { Some(i + l) } else { None }
}
pub struct Ns;
pub struct ManagedXValue;
impl ManagedXValue {
    #[verifier::external_body]
    pub fn new<W, R, T>(value: XValue<W, R, T>, rt: Rt) -> (r: RuntimeResult<Val<W, R, T>>)
        ensures r matches Ok(m) ==> m.value == value,
    { unimplemented!() }
}
impl<W, R, T> Val<W, R, T> {
    #[verifier::external_body]
    pub fn into(self) -> (r: TailedEvalResult<W, R, T>) ensures r == TailedEvalResult::Value(Ok(self)) { unimplemented!() }
}
impl ErrV { #[verifier::external_body] pub fn into(self) -> (r: ErrV) ensures r == self { unimplemented!() } }

// ------------------------------------------------------------------ the argument sequence and its iterator
/// the argument (any representation): the list of its elements
pub struct XSeq<W, R, T> { pub e: Ghost<Seq<Val<W, R, T>>> }
/// iterator over element results (XSequence::iter), possibly after take / skip
pub struct ElemIter<W, R, T> { pub r: Ghost<Seq<Val<W, R, T>>> }
impl<W, R, T> XSeq<W, R, T> {
    pub open spec fn elems(&self) -> Seq<Val<W, R, T>> { self.e@ }
    #[verifier::external_body]
    pub fn iter(&self, ns: &Ns, rt: Rt) -> (r: ElemIter<W, R, T>) ensures r.rest() == self.elems() { unimplemented!() }
    /// XSequence::len of a finite sequence
    #[verifier::external_body]
    pub fn len(&self) -> (r: Option<usize>) ensures r == Some(self.elems().len() as usize), self.elems().len() <= usize::MAX /* (a LAZY sequence -- a range, a chain of ranges -- can be this long without holding anything in memory) */ { unimplemented!() }
    /// XSequence::value_to_idx by the contract V-idx proves
    #[verifier::external_body]
    pub fn value_to_idx(&self, i: &LazyBigint, rt: Rt) -> (r: XResult<usize>)
        ensures r matches Ok(x) ==> match norm_idx(i.val(), self.elems().len() as int) {
            Some(k) => x == Ok::<usize, ErrV>(k as usize),
            None => x is Err,
        },
            self.elems().len() <= usize::MAX,   // (the length it normalises against is a usize)
    { unimplemented!() }
    /// XSequence::get at a valid index
    #[verifier::external_body]
    pub fn get(&self, idx: usize, ns: &Ns, rt: Rt) -> (r: XResult<Val<W, R, T>>)
        requires idx < self.elems().len(),
        ensures r matches Ok(x) ==> x == Ok::<Val<W, R, T>, ErrV>(self.elems()[idx as int]),
    { unimplemented!() }
}
/// `collect::<Result<Result<Vec<_>, _>, _>>()` of a stream of values: the vector of them (when no violation occurs)
pub trait Collected<W, R, T>: Sized { spec fn collects(self, s: Seq<Val<W, R, T>>) -> bool; }
impl<W, R, T> Collected<W, R, T> for RuntimeResult<Result<Vec<Val<W, R, T>>, ErrV>> {
    open spec fn collects(self, s: Seq<Val<W, R, T>>) -> bool { self matches Ok(x) ==> (x matches Ok(v) && v@ == s) }
}
impl<W, R, T> ElemIter<W, R, T> {
    pub open spec fn rest(&self) -> Seq<Val<W, R, T>> { self.r@ }
    #[verifier::external_body]
    pub fn take(self, n: usize) -> (r: Self) ensures r.rest() == (if n <= self.rest().len() { self.rest().take(n as int) } else { self.rest() }) { unimplemented!() }
    #[verifier::external_body]
    pub fn skip(self, n: usize) -> (r: Self) ensures r.rest() == (if n <= self.rest().len() { self.rest().skip(n as int) } else { Seq::<Val<W, R, T>>::empty() }) { unimplemented!() }
    #[verifier::external_body]
    pub fn collect<C: Collected<W, R, T>>(self) -> (r: C) ensures r.collects(self.rest()) { unimplemented!() }
    #[verifier::external_body]
    pub fn size_hint(&self) -> (r: (usize, Option<usize>)) { unimplemented!() }
    /// Iterator::next: a value, or a violation raised while computing the element
    #[verifier::external_body]
    pub fn next(&mut self) -> (r: Option<XResult<Val<W, R, T>>>)
        ensures
            old(self).rest().len() == 0 ==> r is None && final(self).rest() == old(self).rest(),
            old(self).rest().len() > 0 ==> final(self).rest() == old(self).rest().skip(1)
                && (r matches Some(Ok(x)) ==> x == Ok::<Val<W, R, T>, ErrV>(old(self).rest()[0])) && r is Some,
    { unimplemented!() }
}
pub assume_specification<X, A: core::alloc::Allocator> [Vec::<X, A>::reserve_exact] (v: &mut Vec<X, A>, additional: usize)
    ensures final(v)@ == old(v)@;

/// util/try_extend.rs: the trait, with the contract its callers rely on
pub trait TryExtend<W, R, T> {
    spec fn tview(&self) -> Seq<Val<W, R, T>>;
    fn try_extend(&mut self, i: ElemIter<W, R, T>) -> (r: XResult<()>)
        ensures
            r matches Ok(x) ==> x == Ok::<(), ErrV>(()) && final(self).tview() == old(self).tview() + i.rest();
}

// ------------------------------------------------------------------ n_largest (unit `nlargest`)
/// the number of words the caller's pre-flight check (`rt.can_allocate(len0 * size_of::<usize>())` in the
/// natives n_largest / n_smallest) covered
pub uninterp spec fn preflight_words() -> nat;
/// R-alloc target: a capacity request must be covered by the pre-flight check
#[verifier::external_body]
pub fn vx_with_capacity<X>(capacity: usize) -> (r: Vec<X>)
    requires capacity <= preflight_words(),
    ensures r@.len() == 0,
{ unimplemented!() }
/// util/try_heap.rs TryHeap (bounded Kani companion: K-sort) as a bag of elements
pub struct Heap<W, R, T> { pub items: Ghost<Seq<Val<W, R, T>>> }
impl<W, R, T> Heap<W, R, T> {
    #[verifier::external_body]
    pub fn len(&self) -> (r: usize) ensures r == self.items@.len() { unimplemented!() }
    #[verifier::external_body]
    pub fn push(&mut self, item: Val<W, R, T>) -> (r: XResult<()>)
        ensures r matches Ok(Ok(_)) ==> final(self).items@ == old(self).items@.push(item),
    { unimplemented!() }
    #[verifier::external_body]
    pub fn pop(&mut self) -> (r: XResult<Option<Val<W, R, T>>>)
        ensures r matches Ok(Ok(o)) ==> match o {
            Some(e) => old(self).items@.len() > 0 && old(self).items@.contains(e) && final(self).items@.len() == old(self).items@.len() - 1,
            None => old(self).items@.len() == 0 && final(self).items@ == old(self).items@,
        },
    { unimplemented!() }
}


/// the element list of a sequence a copying update produced
pub open spec fn vals<W, R, T>(s: XSequence<W, R, T>) -> Seq<Val<W, R, T>> {
    match s { XSequence::Empty => Seq::empty(), XSequence::Array(v) => v@, XSequence::Other(_) => arbitrary() }
}
/// xexpr.rs: `impl From<EvaluatedValue> for TailedEvalResult` (the real impl is extracted below and checked against this)
impl<W, R, T> FromSpecImpl<EvaluatedValue<W, R, T>> for TailedEvalResult<W, R, T> {
    open spec fn obeys_from_spec() -> bool { true }
    open spec fn from_spec(v: EvaluatedValue<W, R, T>) -> Self { TailedEvalResult::Value(v) }
}
/// the native result is a new sequence with the element list `l`
pub open spec fn is_seq<W, R, T>(r: RuntimeResult<TailedEvalResult<W, R, T>>, l: Seq<Val<W, R, T>>) -> bool {
    r matches Ok(t) ==> (t is Value && t->Value_0 is Ok && t->Value_0->Ok_0.value is Native
        && !(*(t->Value_0->Ok_0.value->Native_0) is Other) && vals(*(t->Value_0->Ok_0.value->Native_0)) =~= l)
}

// @@INCLUDE stdx@@

// @@EXTRACTED@@

} // verus!
fn main() {}
