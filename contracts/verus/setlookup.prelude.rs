// V-setlookup prelude (C17, "membership"): the native `contains` of sets (src/builtin/set.rs), real text from the call
// of `locate` to the end of the closure; the struct, `KeyLocation` and the bucket alias are the real definitions;
// `locate` is used through the contract V-slocate proves.
//
// Contract: the answer is the Bool "locate found the element": true when a Found location is what locate can answer,
// false when it can answer an absent one; an error value / violation of locate is the result.
#![allow(unused_imports, dead_code, unused_variables, unused_mut, unreachable_code)]
use vstd::prelude::*;
use vstd::std_specs::core::IndexSpecImpl;
use core::ops::Index;
use std::mem::size_of;

verus! {

global size_of usize == 8;

// @@INCLUDE lazyint@@
// @@INCLUDE tabmodel@@
pub struct Func { pub id: Ghost<int> }
pub enum XValue { Int(LazyBigint), Bool(bool), Function(Func), Native(Box<XSet>) }
pub mod xvalue { pub use super::XValue; }
pub mod xexpr { pub use super::TailedEvalResult; }
/// Rc<ManagedXValue>
pub struct Val { pub value: XValue }
impl Clone for Val { #[verifier::external_body] fn clone(&self) -> (r: Self) ensures r == *self { unimplemented!() } }
pub struct ErrV { pub id: Ghost<int> }
pub struct RuntimeViolation { pub id: Ghost<int> }
pub type RuntimeResult<X> = Result<X, RuntimeViolation>;
pub type EvaluatedValue = Result<Val, ErrV>;
pub type XResult<X> = RuntimeResult<Result<X, ErrV>>;
pub enum TailedEvalResult { Value(EvaluatedValue), TailCall(Vec<EvaluatedValue>) }
impl ErrV { #[verifier::external_body] pub fn into(self) -> (r: ErrV) ensures r == self { unimplemented!() } }
impl Val {
    #[verifier::external_body]
    pub fn into(self) -> (r: TailedEvalResult) ensures r == TailedEvalResult::Value(Ok(self)) { unimplemented!() }
}
pub struct Rt;
impl Rt {
    #[verifier::external_body] pub fn clone(&self) -> (r: Rt) { unimplemented!() }
    /// pre-flight allocation check (C09)
    #[verifier::external_body] pub fn can_allocate(&self, n: usize) -> (r: RuntimeResult<()>) { unimplemented!() }
}
pub struct Ns;
pub struct ManagedXValue;
impl ManagedXValue {
    #[verifier::external_body]
    pub fn new(value: XValue, rt: Rt) -> (r: RuntimeResult<Val>)
        ensures r matches Ok(m) ==> m.value == value,
    { unimplemented!() }
}
pub struct ManagedXError;
impl ManagedXError {
    #[verifier::external_body]
    pub fn new(error: &str, rt: Rt) -> (r: RuntimeResult<ErrV>) { unimplemented!() }
}
/// builtin/core.rs `xerr`
#[verifier::external_body]
pub fn xerr(err: ErrV) -> (r: RuntimeResult<TailedEvalResult>)
    ensures r == Ok::<TailedEvalResult, RuntimeViolation>(TailedEvalResult::Value(Err(err))),
{ unimplemented!() }
pub uninterp spec fn apply(f: Func, args: Seq<EvaluatedValue>) -> EvaluatedValue;

// ------------------------------------------------------------------ specification vocabulary
pub open spec fn hash_ans(hf: XValue, key: Val) -> EvaluatedValue { apply(hf->Function_0, seq![Ok(key)]) }
pub open spec fn eq_ans(ef: XValue, key: Val, k: Val) -> EvaluatedValue { apply(ef->Function_0, seq![Ok(key), Ok(k)]) }
pub open spec fn is_false(a: EvaluatedValue) -> bool { a matches Ok(v) && v.value == XValue::Bool(false) }
pub open spec fn fn_answers_int(f: XValue) -> bool {
    f is Function && forall|s: Seq<EvaluatedValue>| (#[trigger] apply(f->Function_0, s)) matches Ok(c) ==> c.value is Int
}
pub open spec fn fn_answers_bool(f: XValue) -> bool {
    f is Function && forall|s: Seq<EvaluatedValue>| (#[trigger] apply(f->Function_0, s)) matches Ok(c) ==> c.value is Bool
}
/// eq answers false for each of the first n keys
#[verifier::opaque]
pub open spec fn all_false(ef: XValue, key: Val, ks: Seq<Val>, n: int) -> bool {
    forall|j: int| 0 <= j < n ==> is_false(#[trigger] eq_ans(ef, key, ks[j]))
}
/// the outcome of scanning the keys `ks` of the bucket for hash `h` (V-slocate's contract, inner quantifier named)
spec fn scan_result(r: XResult<KeyLocation>, ef: XValue, key: Val, ks: Seq<Val>, h: u64) -> bool {
    r matches Ok(x) ==> {
        &&& all_false(ef, key, ks, ks.len() as int) ==> x == Ok::<KeyLocation, ErrV>(KeyLocation::Missing(h))
        &&& forall|k: int| 0 <= k < ks.len() && !is_false(#[trigger] eq_ans(ef, key, ks[k])) && all_false(ef, key, ks, k)
            ==> match eq_ans(ef, key, ks[k]) {
                Err(e) => x == Err::<KeyLocation, ErrV>(e),
                Ok(_) => x == Ok::<KeyLocation, ErrV>(KeyLocation::Found((h, k as usize))),
            }
    }
}
/// V-slocate's postcondition of `XSet::locate`
spec fn locate_post(s: XSet, key: Val, r: XResult<KeyLocation>) -> bool {
    r matches Ok(x) ==> match hash_ans(s.hash_func.value, key) {
        Err(e) => x == Err::<KeyLocation, ErrV>(e),
        Ok(hv) => {
            let hi = hv.value->Int_0.val();
            if !(0 <= hi <= u64::MAX) { x is Err } else {
                let h = hi as u64;
                &&& !s.inner@.contains_key(h) ==> x == Ok::<KeyLocation, ErrV>(KeyLocation::Vacant(h))
                &&& s.inner@.contains_key(h) ==> scan_result(r, s.eq_func.value, key, s.inner@[h]@, h)
            }
        },
    }
}
impl XSet {
    /// `XSet::locate`, by the contract V-slocate proves of the real method
    #[verifier::external_body]
    fn locate(&self, key: &Val, ns: &Ns, rt: Rt) -> (r: XResult<KeyLocation>)
        requires fn_answers_int(self.hash_func.value), fn_answers_bool(self.eq_func.value),
        ensures locate_post(*self, *key, r),
    { unimplemented!() }
}
/// either no key is equal, or there is a first one that is not unequal
pub proof fn lemma_first(ef: XValue, key: Val, ks: Seq<Val>, n: int) -> (k0: int)
    requires 0 <= n <= ks.len(),
    ensures all_false(ef, key, ks, n) ==> k0 == n,
        !all_false(ef, key, ks, n) ==> 0 <= k0 < n && !is_false(eq_ans(ef, key, ks[k0])) && all_false(ef, key, ks, k0),
    decreases n,
{
    reveal(all_false);
    if n == 0 { 0 } else {
        let k1 = lemma_first(ef, key, ks, n - 1);
        if k1 < n - 1 { k1 } else if is_false(eq_ans(ef, key, ks[n - 1])) { n } else { n - 1 }
    }
}
/// a Found location answered by locate lies inside the table
broadcast proof fn lemma_found_valid(s: XSet, x: Val, h: u64, i: usize)
    requires
        fn_answers_int(s.hash_func.value), fn_answers_bool(s.eq_func.value),
        #[trigger] locate_post(s, x, Ok::<Result<KeyLocation, ErrV>, RuntimeViolation>(Ok(KeyLocation::Found((h, i))))),
    ensures s.inner@.contains_key(h), i < s.inner@[h]@.len(),
{
    let loc = KeyLocation::Found((h, i));
    let r = Ok::<Result<KeyLocation, ErrV>, RuntimeViolation>(Ok(loc));
    assert(r->Ok_0 == Ok::<KeyLocation, ErrV>(loc));
    assert(hash_ans(s.hash_func.value, x) is Ok);
    let hv = hash_ans(s.hash_func.value, x)->Ok_0;
    assert(hv.value is Int);
    assert(0 <= hv.value->Int_0.val() <= u64::MAX);
    let h2 = hv.value->Int_0.val() as u64;
    if s.inner@.contains_key(h2) {
        let ef = s.eq_func.value;
        let ks = s.inner@[h2]@;
        assert(scan_result(r, ef, x, ks, h2));
        let k0 = lemma_first(ef, x, ks, ks.len() as int);
        if k0 < ks.len() {
            let a = eq_ans(ef, x, ks[k0]);
            assert(a is Ok ==> a->Ok_0.value is Bool);
        }
    }
}
/// locate's postcondition determines its answer: two answers are both error values, or the same location
broadcast proof fn lemma_locate_unique(s: XSet, x: Val, x1: Result<KeyLocation, ErrV>, x2: Result<KeyLocation, ErrV>)
    requires
        fn_answers_int(s.hash_func.value), fn_answers_bool(s.eq_func.value),
        #[trigger] locate_post(s, x, Ok::<Result<KeyLocation, ErrV>, RuntimeViolation>(x1)),
        #[trigger] locate_post(s, x, Ok::<Result<KeyLocation, ErrV>, RuntimeViolation>(x2)),
    ensures x1 is Ok == x2 is Ok, x1 is Ok ==> x1 == x2,
{
    let r1 = Ok::<Result<KeyLocation, ErrV>, RuntimeViolation>(x1);
    let r2 = Ok::<Result<KeyLocation, ErrV>, RuntimeViolation>(x2);
    assert(r1->Ok_0 == x1 && r2->Ok_0 == x2);
    if hash_ans(s.hash_func.value, x) is Ok {
        let hv = hash_ans(s.hash_func.value, x)->Ok_0;
        if 0 <= hv.value->Int_0.val() <= u64::MAX {
            let h = hv.value->Int_0.val() as u64;
            if s.inner@.contains_key(h) {
                let ef = s.eq_func.value;
                let ks = s.inner@[h]@;
                assert(scan_result(r1, ef, x, ks, h));
                assert(scan_result(r2, ef, x, ks, h));
                let k0 = lemma_first(ef, x, ks, ks.len() as int);
            }
        }
    }
}
/// the key can be found: locate's postcondition admits a Found answer
spec fn findable(s: XSet, x: Val) -> bool {
    exists|h: u64, i: usize| #[trigger] locate_post(s, x, Ok::<Result<KeyLocation, ErrV>, RuntimeViolation>(Ok(KeyLocation::Found((h, i)))))
}
/// the key is absent: locate's postcondition admits a clean answer that is not Found
spec fn absent(s: XSet, x: Val) -> bool {
    exists|loc: KeyLocation| #[trigger] locate_post(s, x, Ok::<Result<KeyLocation, ErrV>, RuntimeViolation>(Ok(loc))) && !(loc is Found)
}
/// the table t1 is t0 with the i-th entry of bucket h removed
spec fn removed_at(t0: Map<u64, Vec<Val>>, t1: Map<u64, Vec<Val>>, h: u64, i: int) -> bool {
    &&& t0.contains_key(h) && 0 <= i < t0[h]@.len()
    &&& t1.contains_key(h) && t1[h]@ =~= t0[h]@.remove(i)
    &&& t1 =~= t0.insert(h, t1[h])
}

// @@INCLUDE stdx@@

// @@EXTRACTED@@

} // verus!
fn main() {}
