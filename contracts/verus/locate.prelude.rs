// V-locate prelude (C17, "locate by hash then equality scan"): `XMapping::locate` (src/builtin/mapping.rs) and
// `XSet::locate` (src/builtin/set.rs), real text of the whole method; the structs and `KeyLocation` are the
// real definitions (R-self: the bucket type alias -> `Bucket` / `SBucket`, `Rc<ManagedXValue<W, R, T>>` -> `Val`,
// `RTCell` -> `Rt`); real `to_primitive!` / `forward_err!`; `for` by R-for.
//
// Contract: with h = hash(key) (an error value of the hash function, or a hash outside [0, 2^64), is the
// result as an error value): `Vacant(h)` exactly when the table has no bucket for h; otherwise the bucket
// for h is scanned IN ORDER with eq(key, k) and the result is `Found((h, i))` for the FIRST i whose key is
// equal, the error value of the first comparison that fails before that, `Missing(h)` when none is equal.
// I.e. lookup behaves as lookup in the association list of the key's hash class, whatever else the table
// holds (collisions, other buckets, layout).
//
// Assumed: the evaluator as a deterministic function `apply`; hash answers an Int, eq a Bool (type facts);
// std HashMap<u64, _>::get by vstd's specification; slice::Iter / enumerate by the finite iterator model.
#![allow(unused_imports, dead_code, unused_variables, unused_mut, unreachable_code)]
use vstd::prelude::*;
use std::collections::HashMap;

verus! {

// @@INCLUDE lazyint@@
pub struct Func { pub id: Ghost<int> }
pub enum XValue { Int(LazyBigint), Bool(bool), Function(Func) }
/// `$crate::xvalue::XValue` as the macro `to_primitive!` names it
pub mod xvalue { pub use super::XValue; }
pub mod xexpr { pub use super::TailedEvalResult; }

pub struct Val { pub value: XValue }            // Rc<ManagedXValue>
pub struct ErrV { pub id: Ghost<int> }          // Rc<ManagedXError>
pub struct RuntimeViolation { pub id: Ghost<int> }
pub type RuntimeResult<T> = Result<T, RuntimeViolation>;
pub type EvaluatedValue = Result<Val, ErrV>;
pub enum TailedEvalResult { Value(EvaluatedValue), TailCall(Vec<EvaluatedValue>) }
impl TailedEvalResult {
    /// panics on a tail call
    #[verifier::external_body]
    pub fn unwrap_value(self) -> (r: EvaluatedValue)
        requires self is Value,
        ensures r == self->Value_0,
    { unimplemented!() }
}
// `__e.into()` inside xraise!: Rc<ManagedXError> into itself
impl ErrV { #[verifier::external_body] pub fn into(self) -> (r: ErrV) ensures r == self { unimplemented!() } }
// impl From<Rc<ManagedXValue>> for TailedEvalResult (xexpr.rs)
impl Val { #[verifier::external_body] pub fn into(self) -> (r: TailedEvalResult) ensures r == TailedEvalResult::Value(Ok(self)) { unimplemented!() } }

impl Clone for Val { #[verifier::external_body] fn clone(&self) -> (r: Val) ensures r == *self { unimplemented!() } }

// ------------------------------------------------------------------ std iterators (model, trusted)
pub trait VxIt: Sized {
    type Item;
    spec fn rest(&self) -> Seq<Self::Item>;
    fn next(&mut self) -> (r: Option<Self::Item>)
        ensures
            old(self).rest().len() == 0 ==> r is None && final(self).rest() == old(self).rest(),
            old(self).rest().len() > 0 ==> r == Some(old(self).rest()[0]) && final(self).rest() == old(self).rest().skip(1);
}
/// core::slice::Iter over the elements of a Vec
pub struct SeqIter<'a, T> { pub r: Ghost<Seq<&'a T>> }
impl<'a, T> VxIt for SeqIter<'a, T> {
    type Item = &'a T;
    open spec fn rest(&self) -> Seq<&'a T> { self.r@ }
    #[verifier::external_body]
    fn next(&mut self) -> (r: Option<&'a T>) { unimplemented!() }
}
pub open spec fn zip_seq<A, B>(a: Seq<A>, b: Seq<B>) -> Seq<(A, B)> {
    Seq::new(if a.len() <= b.len() { a.len() } else { b.len() }, |i: int| (a[i], b[i]))
}
/// core::iter::Zip: pairs up to the shorter side
pub struct Zip<A, B> { pub a: A, pub b: B }
impl<A: VxIt, B: VxIt> VxIt for Zip<A, B> {
    type Item = (A::Item, B::Item);
    open spec fn rest(&self) -> Seq<(A::Item, B::Item)> { zip_seq(self.a.rest(), self.b.rest()) }
    #[verifier::external_body]
    fn next(&mut self) -> (r: Option<(A::Item, B::Item)>) { unimplemented!() }
}
impl<'a, T> SeqIter<'a, T> {
    pub fn zip<B: VxIt>(self, b: B) -> (r: Zip<SeqIter<'a, T>, B>) ensures r.a == self, r.b == b { Zip { a: self, b } }
}
impl<A: VxIt, B: VxIt> Zip<A, B> {
    pub fn zip<C: VxIt>(self, c: C) -> (r: Zip<Zip<A, B>, C>) ensures r.a == self, r.b == c { Zip { a: self, b: c } }
}
/// core::iter::Enumerate over a finite iterator
pub struct EnumF<A> { pub a: A, pub count: Ghost<int> }
impl<A: VxIt> VxIt for EnumF<A> {
    type Item = (usize, A::Item);
    open spec fn rest(&self) -> Seq<(usize, A::Item)> { Seq::new(self.a.rest().len(), |i: int| ((self.count@ + i) as usize, self.a.rest()[i])) }
    #[verifier::external_body]
    fn next(&mut self) -> (r: Option<(usize, A::Item)>) { unimplemented!() }
}
impl<'a, T> SeqIter<'a, T> {
    // further std adaptors on a slice iterator, by their documented meaning on the remaining items (trusted)
    #[verifier::external_body]
    pub fn take(self, n: usize) -> (r: Self) ensures r.r@ == (if n <= self.r@.len() { self.r@.take(n as int) } else { self.r@ }) { unimplemented!() }
    #[verifier::external_body]
    pub fn skip(self, n: usize) -> (r: Self) ensures r.r@ == (if n <= self.r@.len() { self.r@.skip(n as int) } else { Seq::<&'a T>::empty() }) { unimplemented!() }
    #[verifier::external_body]
    pub fn rev(self) -> (r: Self) ensures r.r@ == self.r@.reverse() { unimplemented!() }
    #[verifier::external_body]
    pub fn chain(self, other: Self) -> (r: Self) ensures r.r@ == self.r@ + other.r@ { unimplemented!() }
    pub fn enumerate(self) -> (r: EnumF<SeqIter<'a, T>>) ensures r.a == self, r.count@ == 0 { EnumF { a: self, count: Ghost(0) } }
}
/// the `hash_func` / `eq_func` fields (Rc<ManagedXValue<W, R, T>>; keeps the struct's type parameters in use)
pub struct ValP<W, R, T> { pub value: XValue, pub p: Ghost<(W, R, T)> }
/// MappingBucket: Vec<(key, value)>
pub struct Bucket<V> { pub v: Vec<(Val, V)> }
impl<V> Bucket<V> {
    #[verifier::external_body]
    pub fn len(&self) -> (r: usize) ensures r == self.v@.len() { unimplemented!() }
    #[verifier::external_body]
    pub fn is_empty(&self) -> (r: bool) ensures r == (self.v@.len() == 0) { unimplemented!() }
    #[verifier::external_body]
    pub fn first(&self) -> (r: Option<&(Val, V)>) ensures r == (if self.v@.len() > 0 { Some(&self.v@[0]) } else { None }) { unimplemented!() }
    #[verifier::external_body]
    pub fn iter<'a>(&'a self) -> (r: SeqIter<'a, (Val, V)>)
        ensures r.r@.len() == self.v@.len(), self.v@.len() <= usize::MAX, forall|i: int| 0 <= i < self.v@.len() ==> *(#[trigger] r.r@[i]) == self.v@[i],
    { unimplemented!() }
}
impl<V> Bucket<V> {
    /// the keys of the bucket, in scan order
    pub open spec fn keys(&self) -> Seq<Val> { Seq::new(self.v@.len(), |i: int| self.v@[i].0) }
}
/// SetBucket: Vec<element>
pub struct SBucket { pub v: Vec<Val> }
impl SBucket {
    #[verifier::external_body]
    pub fn len(&self) -> (r: usize) ensures r == self.v@.len() { unimplemented!() }
    #[verifier::external_body]
    pub fn is_empty(&self) -> (r: bool) ensures r == (self.v@.len() == 0) { unimplemented!() }
    #[verifier::external_body]
    pub fn first(&self) -> (r: Option<&Val>) ensures r == (if self.v@.len() > 0 { Some(&self.v@[0]) } else { None }) { unimplemented!() }
    #[verifier::external_body]
    pub fn iter<'a>(&'a self) -> (r: SeqIter<'a, Val>)
        ensures r.r@.len() == self.v@.len(), self.v@.len() <= usize::MAX, forall|i: int| 0 <= i < self.v@.len() ==> *(#[trigger] r.r@[i]) == self.v@[i],
    { unimplemented!() }
}
pub struct Rt;
impl Rt { #[verifier::external_body] pub fn clone(&self) -> (r: Rt) { unimplemented!() } }
pub type XResult<X> = RuntimeResult<Result<X, ErrV>>;
pub struct ManagedXError;
impl ManagedXError {
    #[verifier::external_body]
    pub fn new(error: &str, rt: Rt) -> (r: RuntimeResult<ErrV>) { unimplemented!() }
}
pub struct Ns;
impl Ns {
    #[verifier::external_body]
    pub fn eval_func_with_values(&self, func: &Func, args: Vec<EvaluatedValue>, rt: Rt, tail_available: bool) -> (r: RuntimeResult<TailedEvalResult>)
        ensures
            !tail_available ==> (r matches Ok(t) ==> t == TailedEvalResult::Value(apply(*func, args@))),
    { unimplemented!() }
}
pub uninterp spec fn apply(f: Func, args: Seq<EvaluatedValue>) -> EvaluatedValue;
#[verifier::external_body]
pub fn vx_panic<T>() -> (r: T)
    requires false,
{ unimplemented!() }
macro_rules! panic { ($($t:tt)*) => { vx_panic() } }
pub mod ext {
    use vstd::prelude::*;
    use super::*;
    pub broadcast proof fn lemma_apply1(f: Func, s: Seq<EvaluatedValue>)
        requires s.len() == 1,
        ensures #[trigger] apply(f, s) == apply(f, seq![s[0]]),
    { assert(s =~= seq![s[0]]); }
    pub broadcast proof fn lemma_apply2(f: Func, s: Seq<EvaluatedValue>)
        requires s.len() == 2,
        ensures #[trigger] apply(f, s) == apply(f, seq![s[0], s[1]]),
    { assert(s =~= seq![s[0], s[1]]); }
}

// ------------------------------------------------------------------ specification vocabulary
/// hash(key) as the function value answers it
pub open spec fn hash_ans(hf: XValue, key: Val) -> EvaluatedValue { apply(hf->Function_0, seq![Ok(key)]) }
/// eq(key, k)
pub open spec fn eq_ans(ef: XValue, key: Val, k: Val) -> EvaluatedValue { apply(ef->Function_0, seq![Ok(key), Ok(k)]) }
pub open spec fn is_true(a: EvaluatedValue) -> bool { a matches Ok(v) && v.value == XValue::Bool(true) }
pub open spec fn is_false(a: EvaluatedValue) -> bool { a matches Ok(v) && v.value == XValue::Bool(false) }
pub open spec fn fn_answers_int(f: XValue) -> bool {
    f is Function && forall|s: Seq<EvaluatedValue>| (#[trigger] apply(f->Function_0, s)) matches Ok(c) ==> c.value is Int
}
pub open spec fn fn_answers_bool(f: XValue) -> bool {
    f is Function && forall|s: Seq<EvaluatedValue>| (#[trigger] apply(f->Function_0, s)) matches Ok(c) ==> c.value is Bool
}
/// the outcome of scanning the keys `ks` of the bucket for hash `h`
spec fn scan_result(r: XResult<KeyLocation>, ef: XValue, key: Val, ks: Seq<Val>, h: u64) -> bool {
    r matches Ok(x) ==> {
        // no key of the bucket is equal: Missing
        &&& (forall|j: int| 0 <= j < ks.len() ==> is_false(#[trigger] eq_ans(ef, key, ks[j]))) ==> x == Ok::<KeyLocation, ErrV>(KeyLocation::Missing(h))
        // otherwise the FIRST key that is not unequal decides: Found at its index, or the comparison's error value
        &&& forall|k: int| 0 <= k < ks.len() && !is_false(#[trigger] eq_ans(ef, key, ks[k]))
                && (forall|j: int| 0 <= j < k ==> is_false(#[trigger] eq_ans(ef, key, ks[j])))
            ==> match eq_ans(ef, key, ks[k]) {
                Err(e) => x == Err::<KeyLocation, ErrV>(e),
                Ok(_) => x == Ok::<KeyLocation, ErrV>(KeyLocation::Found((h, k as usize))),
            }
    }
}

// @@INCLUDE stdx@@

// @@EXTRACTED@@

} // verus!
fn main() {}
