// V-gsucc prelude (C16, "successors_until"): the SuccessorsUntil arm of `XGenerator::_iter` (src/builtin/generators.rs),
// real text of the closure handed to `iter::successors` (whole body; real `XOptional` field access; the downcast
// `to_native!` as a model macro).
//
// Contract of the step (prev -> next element, None ending the stream): a previous element that is not a value (an
// error value or a violation) is repeated (the consumer has already stopped at it); otherwise the user function is
// applied to the previous VALUE: a violation is the next element, an error value is the next element, `none()` ends
// the stream, and `some(v)` makes v the next element.
//
// Assumed: the evaluator as a deterministic function `apply`; the function answers an Optional (type fact, C01);
// `iter::successors(first, f)` yields first, f(first), f(f(first)), .. until None (std's documented meaning).
#![allow(unused_imports, dead_code, unused_variables, unused_mut, unreachable_code)]
use vstd::prelude::*;

verus! {

pub struct Func { pub id: Ghost<int> }
/// builtin/optional.rs
pub struct XOptional { pub value: Option<Val> }
pub enum XValue { Native(Box<XOptional>), Function(Func), Other(Ghost<int>) }
pub mod xvalue { pub use super::XValue; }
pub struct Val { pub value: XValue }            // Rc<ManagedXValue>
pub struct ErrV { pub id: Ghost<int> }          // Rc<ManagedXError>
pub struct RuntimeViolation { pub id: Ghost<int> }
pub type RuntimeResult<T> = Result<T, RuntimeViolation>;
pub type EvaluatedValue = Result<Val, ErrV>;
pub type XResult<T> = RuntimeResult<Result<T, ErrV>>;
impl Clone for Val { #[verifier::external_body] fn clone(&self) -> (r: Val) ensures r == *self { unimplemented!() } }
impl Clone for ErrV { #[verifier::external_body] fn clone(&self) -> (r: ErrV) ensures r == *self { unimplemented!() } }
impl Clone for RuntimeViolation { #[verifier::external_body] fn clone(&self) -> (r: RuntimeViolation) ensures r == *self { unimplemented!() } }
pub assume_specification<T: Clone, E0: Clone> [<Result<T, E0> as Clone>::clone] (x: &Result<T, E0>) -> (r: Result<T, E0>)
    ensures (match *x { Ok(a) => r matches Ok(b) && call_ensures(T::clone, (&a,), b), Err(a) => r matches Err(b) && call_ensures(E0::clone, (&a,), b) });
pub enum TailedEvalResult { Value(EvaluatedValue), TailCall(Vec<EvaluatedValue>) }
impl TailedEvalResult {
    #[verifier::external_body]
    pub fn unwrap_value(self) -> (r: EvaluatedValue)
        requires self is Value,
        ensures r == self->Value_0,
    { unimplemented!() }
}
pub struct Rt;
impl Rt { #[verifier::external_body] pub fn clone(&self) -> (r: Rt) { unimplemented!() } }
/// what a function value answers for an argument list
pub uninterp spec fn apply(f: Func, args: Seq<EvaluatedValue>) -> EvaluatedValue;
pub struct Ns;
impl Ns {
    #[verifier::external_body]
    pub fn eval_func_with_values(&self, func: &Func, args: Vec<EvaluatedValue>, rt: Rt, tail_available: bool) -> (r: RuntimeResult<TailedEvalResult>)
        ensures
            !tail_available ==> (r matches Ok(t) ==> t == TailedEvalResult::Value(apply(*func, args@))),
    { unimplemented!() }
}
/// the downcast of the function's answer (model macro: C01 -- the function answers an Optional)
#[verifier::external_body]
pub fn vx_downcast(b: &Box<XOptional>) -> (r: &XOptional) ensures *r == **b { unimplemented!() }
#[verifier::external_body]
pub fn vx_panic<X>() -> (r: X) requires false { unimplemented!() }
macro_rules! to_native { ($x:expr, $t:ty) => { match &$x.value { XValue::Native(__b) => vx_downcast(__b), _ => vx_panic() } } }
pub mod ext {
    use vstd::prelude::*;
    use super::*;
    pub broadcast proof fn lemma_apply1(f: Func, s: Seq<EvaluatedValue>)
        requires s.len() == 1,
        ensures #[trigger] apply(f, s) == apply(f, seq![s[0]]),
    { assert(s =~= seq![s[0]]); }
}
pub open spec fn answers_optional(f: Func) -> bool {
    forall|s: Seq<EvaluatedValue>| (#[trigger] apply(f, s)) matches Ok(c) ==> c.value is Native
}

// @@INCLUDE stdx@@

// @@EXTRACTED@@

} // verus!
fn main() {}
