// V-ggroup prelude (C16, "per-adaptor iterator construction"): the element closure of the Group adaptor
// (src/builtin/generators.rs, XGenerator::_iter), real text of the whole closure body; real `to_primitive!`.
// Contract of one step, over the ghost content of the current group: the budget's violation wins; the first
// element of a group opens it; a further element joins the group exactly when the equality function answers
// true for (first element of the group, element) -- otherwise the group is yielded (its elements, in order)
// and the element opens the next group; an error value / violation answered by the equality function, or
// arriving on the inner stream, is handed on and the group is untouched; at the end of the stream the open
// group, if any, is yielded.
//
// std's `Vec` (as `MVec`), `mem::take` and the evaluator (deterministic `apply`) are modelled (trusted).
#![allow(unused_imports, dead_code, unused_variables)]
use vstd::prelude::*;

verus! {

pub struct Func { pub id: Ghost<int> }
pub enum XValueP { Bool(bool), Other(Ghost<int>) }
/// Rc<ManagedXValue>: `value` as far as the closure looks at it (the Bool an equality answers)
pub struct Val { pub id: Ghost<int>, pub value: XValueP }
impl Clone for Val { #[verifier::external_body] fn clone(&self) -> (r: Val) ensures r == *self { unimplemented!() } }

/// Vec<T>
pub struct MVec<T> { pub v: Ghost<Seq<T>> }
/// iterator over references (slice::Iter and what is chained to it)
pub struct MIter<'a, T> { pub r: Ghost<Seq<&'a T>> }
/// iterator over values
pub struct OIter<T> { pub r: Ghost<Seq<T>> }
/// core::iter::Once
pub struct Once<X> { pub x: X }
pub mod iter {
    use super::*;
    pub fn once<X>(x: X) -> (r: Once<X>) ensures r.x == x { Once { x } }
}
pub open spec fn refs<'a, T>(s: Seq<T>) -> Seq<&'a T>;   // the references to the elements, in order
pub broadcast axiom fn axiom_refs<'a, T>(s: Seq<T>)
    ensures (#[trigger] refs::<T>(s)).len() == s.len(), forall|i: int| 0 <= i < s.len() ==> *(#[trigger] refs::<T>(s)[i]) == s[i];
pub open spec fn derefs<'a, T>(s: Seq<&'a T>) -> Seq<T> { Seq::new(s.len(), |i: int| *s[i]) }

pub trait IntoMIter<'a, T>: Sized { spec fn mseq(self) -> Seq<&'a T>; }
impl<'a, T> IntoMIter<'a, T> for MIter<'a, T> { open spec fn mseq(self) -> Seq<&'a T> { self.r@ } }
impl<'a, T> IntoMIter<'a, T> for &'a MVec<T> { open spec fn mseq(self) -> Seq<&'a T> { refs(self.v@) } }
impl<'a, T> IntoMIter<'a, T> for Once<&'a T> { open spec fn mseq(self) -> Seq<&'a T> { seq![self.x] } }
pub trait IntoOIter<T>: Sized { spec fn oseq(self) -> Seq<T>; }
impl<T> IntoOIter<T> for OIter<T> { open spec fn oseq(self) -> Seq<T> { self.r@ } }
impl<T> IntoOIter<T> for Once<T> { open spec fn oseq(self) -> Seq<T> { seq![self.x] } }

impl<T> MVec<T> {
    #[verifier::external_body]
    pub fn iter<'a>(&'a self) -> (r: MIter<'a, T>) ensures r.r@ == refs(self.v@) { unimplemented!() }
    /// `vec![a, b, ..]`
    #[verifier::external_body]
    pub fn from_array<const N: usize>(a: [T; N]) -> (r: MVec<T>) ensures r.v@ == a@ { unimplemented!() }
}
impl<'a, T> MIter<'a, T> {
    #[verifier::external_body]
    pub fn chain<I: IntoMIter<'a, T>>(self, other: I) -> (r: MIter<'a, T>) ensures r.r@ == self.r@ + other.mseq() { unimplemented!() }
    #[verifier::external_body]
    pub fn cloned(self) -> (r: OIter<T>) where T: Clone ensures r.r@ == derefs(self.r@) { unimplemented!() }
    /// Iterator::map with a closure whose postcondition determines its result
    #[verifier::external_body]
    pub fn map<U, F: Fn(&'a T) -> U>(self, f: F) -> (r: OIter<U>)
        requires forall|i: int| 0 <= i < self.r@.len() ==> call_requires(f, (#[trigger] self.r@[i],)),
        ensures r.r@.len() == self.r@.len(), forall|i: int| 0 <= i < self.r@.len() ==> call_ensures(f, (self.r@[i],), #[trigger] r.r@[i]),
    { unimplemented!() }
}
impl<'a, T> Once<&'a T> {
    #[verifier::external_body]
    pub fn chain<I: IntoMIter<'a, T>>(self, other: I) -> (r: MIter<'a, T>) ensures r.r@ == seq![self.x] + other.mseq() { unimplemented!() }
}
impl Once<usize> {
    #[verifier::external_body]
    pub fn chain<I: IntoOIter<usize>>(self, other: I) -> (r: OIter<usize>) ensures r.r@ == seq![self.x] + other.oseq() { unimplemented!() }
}
impl<T> OIter<T> {
    #[verifier::external_body]
    pub fn chain<I: IntoOIter<T>>(self, other: I) -> (r: OIter<T>) ensures r.r@ == self.r@ + other.oseq() { unimplemented!() }
    #[verifier::external_body]
    pub fn collect(self) -> (r: MVec<T>) ensures r.v@ == self.r@ { unimplemented!() }
}

// ------------------------------------------------------------------ the Windows adaptor (unit `gwindows`)
pub struct ErrV { pub id: Ghost<int> }
pub struct RuntimeViolation { pub id: Ghost<int> }
pub type RuntimeResult<X> = Result<X, RuntimeViolation>;
pub type XResult<X> = RuntimeResult<Result<X, ErrV>>;
/// VecDeque<Rc<ManagedXValue>>
pub struct MDeque { pub v: Ghost<Seq<Val>> }
impl MDeque {
    #[verifier::external_body]
    pub fn push_back(&mut self, x: Val) ensures final(self).v@ == old(self).v@.push(x) { unimplemented!() }
    #[verifier::external_body]
    pub fn pop_front(&mut self) -> (r: Option<Val>)
        ensures old(self).v@.len() > 0 ==> r == Some(old(self).v@[0]) && final(self).v@ == old(self).v@.skip(1),
            old(self).v@.len() == 0 ==> r is None && final(self).v@ == old(self).v@,
    { unimplemented!() }
    #[verifier::external_body]
    pub fn len(&self) -> (r: usize) ensures r == self.v@.len() { unimplemented!() }
    #[verifier::external_body]
    pub fn iter<'a>(&'a self) -> (r: MIter<'a, Val>) ensures r.r@ == refs(self.v@) { unimplemented!() }
}
/// the sequence value a window becomes: its element list
pub struct XSequence { pub e: Ghost<Seq<Val>> }
impl XSequence {
    /// XSequence::array
    #[verifier::external_body]
    pub fn array(v: MVec<Val>) -> (r: XSequence) ensures r.e@ == v.v@ { unimplemented!() }
}
pub enum XValue { Native(Box<XSequence>), Bool(bool) }
pub struct Rt;
impl Rt { #[verifier::external_body] pub fn clone(&self) -> (r: Rt) { unimplemented!() } }
/// the managed value of a window: which elements it holds
pub uninterp spec fn window_of(v: Val) -> Seq<Val>;
pub struct ManagedXValue;
impl ManagedXValue {
    #[verifier::external_body]
    pub fn new(value: XValue, rt: Rt) -> (r: RuntimeResult<Val>)
        ensures r matches Ok(m) ==> (value matches XValue::Native(b) && window_of(m) == b.e@),
    { unimplemented!() }
}



impl MVec<Val> {
    #[verifier::external_body]
    pub fn new() -> (r: MVec<Val>) ensures r.v@.len() == 0 { unimplemented!() }
    #[verifier::external_body]
    pub fn first(&self) -> (r: Option<&Val>) ensures r == (if self.v@.len() > 0 { Some(&self.v@[0]) } else { None }) { unimplemented!() }
    #[verifier::external_body]
    pub fn push(&mut self, x: Val) ensures final(self).v@ == old(self).v@.push(x) { unimplemented!() }
    #[verifier::external_body]
    pub fn is_empty(&self) -> (r: bool) ensures r == (self.v@.len() == 0) { unimplemented!() }
}
/// std::mem::take on the group buffer
#[verifier::external_body]
pub fn take(v: &mut MVec<Val>) -> (r: MVec<Val>) ensures r.v@ == old(v).v@, final(v).v@.len() == 0 { unimplemented!() }
pub type EvaluatedValue = Result<Val, ErrV>;
pub enum TailedEvalResult { Value(EvaluatedValue), TailCall(Vec<EvaluatedValue>) }
impl TailedEvalResult {
    #[verifier::external_body]
    pub fn unwrap_value(self) -> (r: EvaluatedValue)
        requires self is Value,
        ensures r == self->Value_0,
    { unimplemented!() }
}
pub uninterp spec fn apply(f: Func, args: Seq<EvaluatedValue>) -> EvaluatedValue;
pub struct Ns;
impl Ns {
    #[verifier::external_body]
    pub fn eval_func_with_values(&self, func: &Func, args: Vec<EvaluatedValue>, rt: Rt, tail_available: bool) -> (r: RuntimeResult<TailedEvalResult>)
        ensures
            !tail_available ==> (r matches Ok(t) ==> t == TailedEvalResult::Value(apply(*func, args@))),
    { unimplemented!() }
}
pub mod xvalue { pub use super::XValueP as XValue; }
#[verifier::external_body]
pub fn vx_panic<X>() -> (r: X)
    requires false,
{ unimplemented!() }
macro_rules! panic { ($($t:tt)*) => { vx_panic() } }
pub mod ext {
    use vstd::prelude::*;
    use super::*;
    pub broadcast proof fn lemma_apply2(f: Func, s: Seq<EvaluatedValue>)
        requires s.len() == 2,
        ensures #[trigger] apply(f, s) == apply(f, seq![s[0], s[1]]),
    { assert(s =~= seq![s[0], s[1]]); }
}
pub open spec fn answers_bool(f: Func) -> bool {
    forall|s: Seq<EvaluatedValue>| (#[trigger] apply(f, s)) matches Ok(c) ==> c.value is Bool
}
/// eq(first of the group, element)
pub open spec fn eq_ans(f: Func, first: Val, x: Val) -> EvaluatedValue { apply(f, seq![Ok(first), Ok(x)]) }

// @@INCLUDE stdx@@

// @@EXTRACTED@@

} // verus!
fn main() {}
