// ---- shared block: std functions without a vstd specification, by their documented meaning (trusted), so that
// a body using them stays within the dialect
pub assume_specification<T> [Option::<T>::or] (a: Option<T>, b: Option<T>) -> (r: Option<T>)
    ensures r == (if a is Some { a } else { b });
pub assume_specification<T, U> [Option::<T>::and::<U>] (a: Option<T>, b: Option<U>) -> (r: Option<U>)
    ensures r == (if a is Some { b } else { None::<U> });
pub assume_specification<T, U> [Option::<T>::zip::<U>] (a: Option<T>, b: Option<U>) -> (r: Option<(T, U)>)
    ensures r == (match (a, b) { (Some(x), Some(y)) => Some((x, y)), _ => None::<(T, U)> });
pub assume_specification<X, E> [Result::<X, E>::unwrap_or] (r: Result<X, E>, default: X) -> (o: X)
    ensures o == (match r { Ok(x) => x, Err(_) => default });
pub assume_specification<T> [bool::then_some::<T>] (b: bool, t: T) -> (r: Option<T>)
    ensures r == (if b { Some(t) } else { None::<T> });
pub assume_specification<X: Ord> [std::cmp::min::<X>] (a: X, b: X) -> (r: X)
    ensures r == (if vstd::std_specs::cmp::OrdSpec::cmp_spec(&b, &a) == core::cmp::Ordering::Less { b } else { a });
pub assume_specification<X: Ord> [std::cmp::max::<X>] (a: X, b: X) -> (r: X)
    ensures r == (if vstd::std_specs::cmp::OrdSpec::cmp_spec(&b, &a) == core::cmp::Ordering::Less { a } else { b });
pub assume_specification [usize::abs_diff] (a: usize, b: usize) -> (r: usize)
    ensures r == (if a >= b { (a - b) as usize } else { (b - a) as usize });
// ---- end of shared block
