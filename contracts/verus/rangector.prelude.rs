// V-rangector prelude (C15, "range construction"): the guard of the `range` builtin
// (src/builtin/sequence.rs, add_sequence_range): the final `if` of the native closure, real text, with the
// real `manage_native!`.  Contract: step 0 is an error value; a range that denotes no element becomes the
// Empty representation; `XSequence::Range(start, end, step)` is built exactly for operands that satisfy
// `range_ok` -- the representation invariant under which V-seq proves `len` and `get` of a Range.
#![allow(unused_imports, dead_code, unused_variables)]
use vstd::prelude::*;
use std::marker::PhantomData;

verus! {

/// num_traits::Zero on i64
pub trait Zero { fn is_zero(&self) -> bool; }
impl Zero for i64 {
    #[verifier::external_body]
    fn is_zero(&self) -> (r: bool) ensures r == (*self == 0) { unimplemented!() }
}
/// the inherent methods of i64 (they take precedence over num_traits::Signed)
pub assume_specification [i64::is_positive] (x: i64) -> (r: bool) ensures r == (x > 0);
pub assume_specification [i64::is_negative] (x: i64) -> (r: bool) ensures r == (x < 0);
pub assume_specification [i64::signum] (x: i64) -> (r: i64) ensures r == (if x > 0 { 1i64 } else if x < 0 { -1i64 } else { 0i64 });

pub struct P<W, R, T> { pub w: Ghost<W>, pub r: Ghost<R>, pub t: Ghost<T> }
pub enum XSequence<W, R, T> { Empty, Range(i64, i64, i64), Other(P<W, R, T>) }
pub enum XValue<W, R, T> { Native(Box<XSequence<W, R, T>>), Bool(bool) }
pub struct Val<W, R, T> { pub value: XValue<W, R, T> }
pub struct ErrV { pub id: Ghost<int> }
pub struct RuntimeViolation { pub id: Ghost<int> }
pub type RuntimeResult<X> = Result<X, RuntimeViolation>;
pub enum TailedEvalResult<W, R, T> { Value(Result<Val<W, R, T>, ErrV>), TailCall(Vec<Result<Val<W, R, T>, ErrV>>) }
pub struct Rt;
pub struct ManagedXValue;
impl ManagedXValue {
    #[verifier::external_body]
    pub fn new<W, R, T>(value: XValue<W, R, T>, rt: Rt) -> (r: RuntimeResult<Val<W, R, T>>)
        ensures r matches Ok(m) ==> m.value == value,
    { unimplemented!() }
}
impl<W, R, T> Val<W, R, T> {
    #[verifier::external_body]
    pub fn into(self) -> (r: TailedEvalResult<W, R, T>) ensures r == TailedEvalResult::Value(Ok(self)) { unimplemented!() }
}
pub struct ManagedXError;
impl ManagedXError {
    #[verifier::external_body]
    pub fn new(error: &str, rt: Rt) -> (r: RuntimeResult<ErrV>) { unimplemented!() }
}
/// builtin/core.rs `xerr`
#[verifier::external_body]
pub fn xerr<W, R, T>(err: ErrV) -> (r: RuntimeResult<TailedEvalResult<W, R, T>>)
    ensures r == Ok::<TailedEvalResult<W, R, T>, RuntimeViolation>(TailedEvalResult::Value(Err(err))),
{ unimplemented!() }

/// representation invariant of `XSequence::Range(start, end, step)` (the same predicate V-seq assumes)
pub open spec fn range_ok(start: int, end: int, step: int) -> bool {
    step != 0 && !(step > 0 && start >= end) && !(step < 0 && start <= end)
}

// @@INCLUDE stdx@@

// @@EXTRACTED@@

} // verus!
fn main() {}
