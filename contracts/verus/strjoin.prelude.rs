// V-strjoin prelude (C18, "concatenation / repetition / the join of the parts"): the loop of the generator
// consumer `join` (src/builtin/generators.rs), real text from the creation of the accumulator through the end of
// the native closure (R-for).  Concatenation (`+` of the language), repetition (`mul`) and `join` of sequences are
// written in the xray language on top of this native (include.rs).
//
// The generator is modelled by the finite list `elems()` of the element results its iterator yields (value, error
// value, or violation), in order (V-gcons' model); FencedString by the contracts V-fstr proves of the real
// methods (`default`, `push`, `shrink_to_fit`: the byte text of the result, and that the representation
// invariant `wf` is kept).
//
// Contract: when every element is a value, the result is the string whose text is
// `e0 + d + e1 + d + ... + e(n-1)` (the delimiter between consecutive elements only; the empty text for no
// element), well-formed; the first element that is an error value ends the native with that error value, a
// violation element with a violation.
//
// Assumed: the generator is finite; its values are strings (C01) that satisfy `wf`.
#![feature(allocator_api)]
#![allow(unused_imports, dead_code, unused_variables, unused_mut)]
use vstd::prelude::*;
use vstd::std_specs::convert::*;
use vstd::std_specs::ops::*;
use core::ops::Add;

verus! {

pub struct P<W, R, T> { pub w: Ghost<W>, pub r: Ghost<R>, pub t: Ghost<T> }
/// util/fenced_string.rs, by V-fstr's contracts
pub struct FencedString { pub b: Ghost<Seq<u8>>, pub ok: Ghost<bool> }
impl FencedString {
    pub open spec fn wf(&self) -> bool { self.ok@ }
    pub open spec fn text(&self) -> Seq<u8> { self.b@ }
    #[verifier::external_body]
    pub fn push(&mut self, other: &Self)
        requires old(self).wf(), other.wf(),
        ensures final(self).wf(), final(self).text() == old(self).text() + other.text(),
    { unimplemented!() }
    #[verifier::external_body]
    pub fn shrink_to_fit(&mut self) ensures final(self).text() == old(self).text(), old(self).wf() ==> final(self).wf() { unimplemented!() }
    #[verifier::external_body]
    pub fn size(&self) -> (r: usize) { unimplemented!() }
}
impl Default for FencedString {
    #[verifier::external_body]
    fn default() -> (r: FencedString) ensures r.wf(), r.text() == Seq::<u8>::empty() { unimplemented!() }
}
impl FencedString {
    /// (a String holds at most isize::MAX bytes)
    #[verifier::external_body]
    pub fn bytes(&self) -> (r: usize) ensures r == self.text().len(), r <= isize::MAX { unimplemented!() }
}
/// `impl Add for &FencedString`, by V-fstr's contract of the real impl
impl<'a, 'b> Add<&'b FencedString> for &'a FencedString { type Output = FencedString; #[verifier::external_body] fn add(self, rhs: &'b FencedString) -> FencedString { unimplemented!() } }
pub uninterp spec fn plus(a: FencedString, b: FencedString) -> FencedString;
pub broadcast axiom fn axiom_plus(a: FencedString, b: FencedString)
    requires a.wf(), b.wf(),
    ensures (#[trigger] plus(a, b)).wf(), plus(a, b).text() == a.text() + b.text();
impl<'a, 'b> AddSpecImpl<&'b FencedString> for &'a FencedString {
    open spec fn obeys_add_spec() -> bool { true }
    open spec fn add_req(self, rhs: &'b FencedString) -> bool { self.wf() && rhs.wf() }
    open spec fn add_spec(self, rhs: &'b FencedString) -> FencedString { plus(*self, *rhs) }
}
/// std::borrow::Cow<FencedString>
pub enum Cow<'a> { Borrowed(&'a FencedString), Owned(FencedString) }
impl<'a> Cow<'a> {
    pub open spec fn get(&self) -> FencedString { match self { Cow::Borrowed(b) => **b, Cow::Owned(o) => *o } }
    #[verifier::external_body]
    pub fn as_ref(&self) -> (r: &FencedString) ensures *r == self.get() { unimplemented!() }
}
pub assume_specification<X: ?Sized, A: core::alloc::Allocator> [<Box<X, A> as AsRef<X>>::as_ref] (b: &Box<X, A>) -> (r: &X)
    ensures r == &**b;

pub enum XValue<W, R, T> { String(Box<FencedString>), Bool(bool), Other(P<W, R, T>) }
/// Rc<ManagedXValue>
pub struct Val<W, R, T> { pub value: XValue<W, R, T> }
pub struct ErrV { pub id: Ghost<int> }
pub struct RuntimeViolation { pub id: Ghost<int> }
pub type RuntimeResult<X> = Result<X, RuntimeViolation>;
pub type EvaluatedValue<W, R, T> = Result<Val<W, R, T>, ErrV>;
pub type XResult<X> = RuntimeResult<Result<X, ErrV>>;
pub enum TailedEvalResult<W, R, T> { Value(EvaluatedValue<W, R, T>), TailCall(Vec<EvaluatedValue<W, R, T>>) }
pub mod xexpr { pub use super::TailedEvalResult; }
pub mod xvalue { pub use super::XValue; }
pub struct Rt;
impl Rt {
    #[verifier::external_body] pub fn clone(&self) -> (r: Rt) { unimplemented!() }
    /// pre-flight allocation check (C09)
    #[verifier::external_body]
    pub fn can_allocate(&self, n: usize) -> (r: RuntimeResult<()>) { unimplemented!() }
}
pub struct Ns;
pub struct ManagedXValue;
impl ManagedXValue {
    #[verifier::external_body]
    pub fn new<W, R, T>(value: XValue<W, R, T>, rt: Rt) -> (r: RuntimeResult<Val<W, R, T>>)
        ensures r matches Ok(m) ==> m.value == value,
    { unimplemented!() }
}
impl<W, R, T> Val<W, R, T> {
    #[verifier::external_body]
    pub fn into(self) -> (r: TailedEvalResult<W, R, T>) ensures r == TailedEvalResult::Value(Ok(self)) { unimplemented!() }
}
impl ErrV { #[verifier::external_body] pub fn into(self) -> (r: ErrV) ensures r == self { unimplemented!() } }
/// `panic!` inside to_primitive!: a failed obligation
#[verifier::external_body]
pub fn vx_panic() -> ! requires false { unimplemented!() }
macro_rules! panic { ($($t:tt)*) => { vx_panic() } }

// ------------------------------------------------------------------ the generator and its iterator
pub struct XGenerator<W, R, T> { pub e: Ghost<Seq<XResult<Val<W, R, T>>>> }
pub struct GenIter<W, R, T> { pub r: Ghost<Seq<XResult<Val<W, R, T>>>> }
impl<W, R, T> XGenerator<W, R, T> {
    pub open spec fn elems(&self) -> Seq<XResult<Val<W, R, T>>> { self.e@ }
    #[verifier::external_body]
    pub fn iter(&self, ns: &Ns, rt: Rt) -> (r: GenIter<W, R, T>) ensures r.rest() == self.elems() { unimplemented!() }
}
impl<W, R, T> GenIter<W, R, T> {
    pub open spec fn rest(&self) -> Seq<XResult<Val<W, R, T>>> { self.r@ }
    #[verifier::external_body]
    pub fn next(&mut self) -> (r: Option<XResult<Val<W, R, T>>>)
        ensures
            old(self).rest().len() == 0 ==> r is None && final(self).rest() == old(self).rest(),
            old(self).rest().len() > 0 ==> r == Some(old(self).rest()[0]) && final(self).rest() == old(self).rest().skip(1),
    { unimplemented!() }
}

// ------------------------------------------------------------------ specification vocabulary
pub open spec fn is_val<W, R, T>(x: XResult<Val<W, R, T>>) -> bool { x matches Ok(Ok(_)) }
pub open spec fn val_of<W, R, T>(x: XResult<Val<W, R, T>>) -> Val<W, R, T> { x->Ok_0->Ok_0 }
pub open spec fn vals_before<W, R, T>(g: Seq<XResult<Val<W, R, T>>>, n: int) -> bool {
    forall|j: int| 0 <= j < n ==> is_val(#[trigger] g[j])
}
pub open spec fn stops_at<W, R, T>(r: RuntimeResult<TailedEvalResult<W, R, T>>, g: Seq<XResult<Val<W, R, T>>>, k: int) -> bool {
    match g[k] {
        Err(_) => r is Err,
        Ok(Err(e)) => r matches Ok(t) ==> t == TailedEvalResult::<W, R, T>::Value(Err(e)),
        Ok(Ok(_)) => true,
    }
}
/// the value elements are well-formed strings (C01: the generator's element type is str)
pub open spec fn strings<W, R, T>(g: Seq<XResult<Val<W, R, T>>>) -> bool {
    forall|j: int| 0 <= j < g.len() && is_val(#[trigger] g[j]) ==> val_of(g[j]).value is String && val_of(g[j]).value->String_0.wf()
}
pub open spec fn text_of<W, R, T>(x: XResult<Val<W, R, T>>) -> Seq<u8> { val_of(x).value->String_0.text() }
/// e0 + d + e1 + ... + e(n-1)
pub open spec fn join_spec<W, R, T>(g: Seq<XResult<Val<W, R, T>>>, n: int, d: Seq<u8>) -> Seq<u8>
    decreases n
{
    if n <= 0 { Seq::empty() } else if n == 1 { text_of(g[0]) } else { join_spec(g, n - 1, d) + d + text_of(g[n - 1]) }
}

// @@EXTRACTED@@

} // verus!
fn main() {}
