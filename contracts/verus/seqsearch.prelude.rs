// V-seqsearch prelude (C08 "a searching builtin ... more than L elements" and C15 "searching"): the scan
// loops of the sequence builtins take_while and skip_until (src/builtin/sequence.rs), real text from the
// creation of the element iterator through the end of the `for` loop (R-for); real `xraise!`,
// `to_primitive!`.  The index the loop hands to XSequence::slice is exported through the ghost
// out-parameter `vx_out` (set only when the fragment falls through to its end).
//
// Contract: take_while -- the cut index is the FIRST index whose element fails the predicate, the length
// if there is none; skip_until -- the FIRST index whose element satisfies it, the length if none.  Each
// element is examined only after a permit of the search budget was consumed for it (the budget's
// violation ends the builtin; V-budget decides the budget itself), and the predicate's error value ends
// the builtin with that error value.
//
// Assumed: as in V-derive (deterministic `apply`, type facts as preconditions, std iterators by documented
// meaning: the possibly endless streams `ElemIter`, `Enumerate`, `Zip2`, and the budget stream `Budget`).
#![allow(unused_imports, dead_code, unused_variables, unused_mut, unreachable_code)]
use vstd::prelude::*;

verus! {

// @@INCLUDE lazyint@@
pub struct Func { pub id: Ghost<int> }
pub enum XValue { Int(LazyBigint), Bool(bool), Function(Func), StructInstance(Items) }
/// `$crate::xvalue::XValue` as the macro `to_primitive!` names it
pub mod xvalue { pub use super::XValue; }
pub mod xexpr { pub use super::TailedEvalResult; }

pub struct Val { pub value: XValue }            // Rc<ManagedXValue>
pub struct ErrV { pub id: Ghost<int> }          // Rc<ManagedXError>
pub struct RuntimeViolation { pub id: Ghost<int> }
pub type RuntimeResult<T> = Result<T, RuntimeViolation>;
pub type EvaluatedValue = Result<Val, ErrV>;
pub enum TailedEvalResult { Value(EvaluatedValue), TailCall(Vec<EvaluatedValue>) }
impl TailedEvalResult {
    /// panics on a tail call
    #[verifier::external_body]
    pub fn unwrap_value(self) -> (r: EvaluatedValue)
        requires self is Value,
        ensures r == self->Value_0,
    { unimplemented!() }
}
// `__e.into()` inside xraise!: Rc<ManagedXError> into itself
impl ErrV { #[verifier::external_body] pub fn into(self) -> (r: ErrV) ensures r == self { unimplemented!() } }
// impl From<Rc<ManagedXValue>> for TailedEvalResult (xexpr.rs)
impl Val { #[verifier::external_body] pub fn into(self) -> (r: TailedEvalResult) ensures r == TailedEvalResult::Value(Ok(self)) { unimplemented!() } }

/// Clone for Result clones the payload (std's derive; vstd has no specification for it)
pub assume_specification<T: Clone, E0: Clone> [<Result<T, E0> as Clone>::clone] (x: &Result<T, E0>) -> (r: Result<T, E0>)
    ensures (match *x { Ok(a) => r matches Ok(b) && call_ensures(T::clone, (&a,), b), Err(a) => r matches Err(b) && call_ensures(E0::clone, (&a,), b) });
impl Clone for ErrV { #[verifier::external_body] fn clone(&self) -> (r: ErrV) ensures r == *self { unimplemented!() } }
impl Clone for Val { #[verifier::external_body] fn clone(&self) -> (r: Val) ensures r == *self { unimplemented!() } }

// ------------------------------------------------------------------ std iterators (model, trusted)
pub trait VxIt: Sized {
    type Item;
    spec fn rest(&self) -> Seq<Self::Item>;
    fn next(&mut self) -> (r: Option<Self::Item>)
        ensures
            old(self).rest().len() == 0 ==> r is None && final(self).rest() == old(self).rest(),
            old(self).rest().len() > 0 ==> r == Some(old(self).rest()[0]) && final(self).rest() == old(self).rest().skip(1);
}
/// core::slice::Iter over the elements of a Vec
pub struct SeqIter<'a, T> { pub r: Ghost<Seq<&'a T>> }
impl<'a, T> VxIt for SeqIter<'a, T> {
    type Item = &'a T;
    open spec fn rest(&self) -> Seq<&'a T> { self.r@ }
    #[verifier::external_body]
    fn next(&mut self) -> (r: Option<&'a T>) { unimplemented!() }
}
pub open spec fn zip_seq<A, B>(a: Seq<A>, b: Seq<B>) -> Seq<(A, B)> {
    Seq::new(if a.len() <= b.len() { a.len() } else { b.len() }, |i: int| (a[i], b[i]))
}
/// core::iter::Zip: pairs up to the shorter side
pub struct Zip<A, B> { pub a: A, pub b: B }
impl<A: VxIt, B: VxIt> VxIt for Zip<A, B> {
    type Item = (A::Item, B::Item);
    open spec fn rest(&self) -> Seq<(A::Item, B::Item)> { zip_seq(self.a.rest(), self.b.rest()) }
    #[verifier::external_body]
    fn next(&mut self) -> (r: Option<(A::Item, B::Item)>) { unimplemented!() }
}
impl<'a, T> SeqIter<'a, T> {
    pub fn zip<B: VxIt>(self, b: B) -> (r: Zip<SeqIter<'a, T>, B>) ensures r.a == self, r.b == b { Zip { a: self, b } }
}
impl<A: VxIt, B: VxIt> Zip<A, B> {
    pub fn zip<C: VxIt>(self, c: C) -> (r: Zip<Zip<A, B>, C>) ensures r.a == self, r.b == c { Zip { a: self, b: c } }
}
/// Vec<Rc<ManagedXValue>>: the fields of a tuple / the table of component functions
pub struct Items { pub v: Vec<Val> }
impl Items {
    #[verifier::external_body]
    pub fn iter<'a>(&'a self) -> (r: SeqIter<'a, Val>)
        ensures r.r@.len() == self.v@.len(), forall|i: int| 0 <= i < self.v@.len() ==> *(#[trigger] r.r@[i]) == self.v@[i],
    { unimplemented!() }
}

// ------------------------------------------------------------------ possibly endless streams (model, trusted)
/// an iterator whose remaining items are `sat(0), sat(1), ..`; `slen() == None`: the stream is endless
pub trait SIt: Sized {
    type Item;
    spec fn slen(&self) -> Option<nat>;
    spec fn sat(&self, i: int) -> Self::Item;
    fn next(&mut self) -> (r: Option<Self::Item>)
        ensures
            old(self).slen() == Some(0nat) ==> r is None && final(self).slen() == Some(0nat),
            old(self).slen() != Some(0nat) ==> r == Some(old(self).sat(0))
                && final(self).slen() == odec(old(self).slen())
                && (forall|i: int| 0 <= i ==> #[trigger] final(self).sat(i) == old(self).sat(i + 1));
}
pub open spec fn odec(l: Option<nat>) -> Option<nat> { match l { Some(n) => Some((n - 1) as nat), None => None } }
pub open spec fn osub(l: Option<nat>, k: int) -> Option<nat> { match l { Some(n) => Some((n - k) as nat), None => None } }
pub open spec fn omin(a: Option<nat>, b: Option<nat>) -> Option<nat> {
    match (a, b) { (None, x) => x, (x, None) => x, (Some(x), Some(y)) => Some(if x <= y { x } else { y }) }
}
/// i is a position of a stream of length l
pub open spec fn within(i: int, l: Option<nat>) -> bool { 0 <= i && (l matches Some(n) ==> i < n) }
/// core::iter::Zip: as long as the shorter side
pub struct Zip2<A, B> { pub a: A, pub b: B }
impl<A: SIt, B: SIt> SIt for Zip2<A, B> {
    type Item = (A::Item, B::Item);
    open spec fn slen(&self) -> Option<nat> { omin(self.a.slen(), self.b.slen()) }
    open spec fn sat(&self, i: int) -> (A::Item, B::Item) { (self.a.sat(i), self.b.sat(i)) }
    #[verifier::external_body]
    fn next(&mut self) -> (r: Option<(A::Item, B::Item)>) { unimplemented!() }
}
/// core::iter::Enumerate
pub struct Enumerate<A> { pub a: A, pub count: Ghost<int> }
impl<A: SIt> SIt for Enumerate<A> {
    type Item = (usize, A::Item);
    open spec fn slen(&self) -> Option<nat> { self.a.slen() }
    open spec fn sat(&self, i: int) -> (usize, A::Item) { ((self.count@ + i) as usize, self.a.sat(i)) }
    #[verifier::external_body]
    fn next(&mut self) -> (r: Option<(usize, A::Item)>) { unimplemented!() }
}
/// XSequence (builtin/sequence.rs) as seen here: the list of its element results, finite or endless
/// (`XSequence::len` is `None` exactly for an endless sequence, e.g. `count()`)
pub struct XSeq { pub l: Ghost<Option<nat>>, pub g: Ghost<spec_fn(int) -> RuntimeResult<EvaluatedValue>> }
/// the iterator `XSequence::iter` hands out (elements in index order)
pub struct ElemIter { pub l: Ghost<Option<nat>>, pub g: Ghost<spec_fn(int) -> RuntimeResult<EvaluatedValue>> }
impl SIt for ElemIter {
    type Item = RuntimeResult<EvaluatedValue>;
    open spec fn slen(&self) -> Option<nat> { self.l@ }
    open spec fn sat(&self, i: int) -> RuntimeResult<EvaluatedValue> { (self.g@)(i) }
    #[verifier::external_body]
    fn next(&mut self) -> (r: Option<RuntimeResult<EvaluatedValue>>) { unimplemented!() }
}
impl ElemIter {
    pub fn zip<B: SIt>(self, b: B) -> (r: Zip2<ElemIter, B>) ensures r.a == self, r.b == b { Zip2 { a: self, b } }
    pub fn enumerate(self) -> (r: Enumerate<ElemIter>) ensures r.a == self, r.count@ == 0 { Enumerate { a: self, count: Ghost(0) } }
}
impl XSeq {
    pub open spec fn slen(&self) -> Option<nat> { self.l@ }
    pub open spec fn at(&self, i: int) -> RuntimeResult<EvaluatedValue> { (self.g@)(i) }
    #[verifier::external_body]
    pub fn len(&self) -> (r: Option<usize>)
        ensures
            r == (match self.slen() { Some(n) => Some(n as usize), None => None::<usize> }),
            self.slen() matches Some(n) ==> n <= usize::MAX,
    { unimplemented!() }
    #[verifier::external_body]
    pub fn iter(&self, ns: &Ns, rt: Rt) -> (r: ElemIter)
        ensures r.slen() == self.slen(), forall|i: int| 0 <= i ==> #[trigger] r.sat(i) == self.at(i),
    { unimplemented!() }
}
/// the search budget (RuntimeLimits::search_iter; V-budget proves this shape): endless permits without a
/// limit, otherwise L permits, one MaximumSearch violation, and the end
pub struct Budget { pub l: Ghost<Option<nat>>, pub g: Ghost<spec_fn(int) -> RuntimeResult<()>> }
impl SIt for Budget {
    type Item = RuntimeResult<()>;
    open spec fn slen(&self) -> Option<nat> { self.l@ }
    open spec fn sat(&self, i: int) -> RuntimeResult<()> { (self.g@)(i) }
    #[verifier::external_body]
    fn next(&mut self) -> (r: Option<RuntimeResult<()>>) { unimplemented!() }
}
pub open spec fn is_budget(b: Budget) -> bool {
    match b.slen() {
        None => forall|i: int| 0 <= i ==> (#[trigger] b.sat(i)) is Ok,
        Some(m) => m >= 1 && b.sat(m - 1) is Err && forall|i: int| 0 <= i < m - 1 ==> (#[trigger] b.sat(i)) is Ok,
    }
}
/// builtin/core.rs `search`: zip with the search budget (V-budget)
#[verifier::external_body]
pub fn search<I: SIt>(other: I, rt: Rt) -> (r: Zip2<I, Budget>)
    ensures r.a == other, is_budget(r.b),
{ unimplemented!() }
pub assume_specification [<isize as core::convert::From<bool>>::from] (b: bool) -> (r: isize)
    ensures r == (if b { 1isize } else { 0isize });

/// XStack (builtin/stack.rs): `length` is the number of nodes `iter()` visits (representation invariant,
/// assumed here)
pub struct XStack { pub length: usize, pub e: Ghost<Seq<Val>> }
pub struct StackIter { pub r: Ghost<Seq<Val>> }
impl VxIt for StackIter {
    type Item = Val;
    open spec fn rest(&self) -> Seq<Val> { self.r@ }
    #[verifier::external_body]
    fn next(&mut self) -> (r: Option<Val>) { unimplemented!() }
}
impl StackIter {
    pub fn zip<B: VxIt>(self, b: B) -> (r: Zip<StackIter, B>) ensures r.a == self, r.b == b { Zip { a: self, b } }
}
impl XStack {
    pub open spec fn elems(&self) -> Seq<Val> { self.e@ }
    pub open spec fn wf(&self) -> bool { self.length == self.e@.len() }
    #[verifier::external_body]
    pub fn iter(&self) -> (r: StackIter) ensures r.rest() == self.elems() { unimplemented!() }
}

pub struct Rt;
impl Rt { #[verifier::external_body] pub fn clone(&self) -> (r: Rt) { unimplemented!() } }
pub struct ManagedXValue;
impl ManagedXValue {
    #[verifier::external_body]
    pub fn new(value: XValue, rt: Rt) -> (r: RuntimeResult<Val>)
        ensures r matches Ok(m) ==> m.value == value,
    { unimplemented!() }
}

pub struct XExpr { pub id: Ghost<int> }
/// what an argument expression evaluates to (when evaluation is not cut short by a violation)
pub uninterp spec fn ev(e: XExpr) -> EvaluatedValue;
/// what a function value answers for an argument list
pub uninterp spec fn apply(f: Func, args: Seq<EvaluatedValue>) -> EvaluatedValue;

pub struct Ns;
/// builtin/core.rs `eval`: evaluate in non-tail mode and unwrap the value
#[verifier::external_body]
pub fn eval(expr: &XExpr, ns: &Ns, rt: &Rt) -> (r: RuntimeResult<EvaluatedValue>)
    ensures r matches Ok(v) ==> v == ev(*expr),
{ unimplemented!() }
impl Ns {
    #[verifier::external_body]
    pub fn eval_func_with_values(&self, func: &Func, args: Vec<EvaluatedValue>, rt: Rt, tail_available: bool) -> (r: RuntimeResult<TailedEvalResult>)
        ensures
            !tail_available ==> (r matches Ok(t) ==> t == TailedEvalResult::Value(apply(*func, args@))),
    { unimplemented!() }
}

/// `panic!(..)` inside `to_primitive!`: reaching it is a failed obligation
#[verifier::external_body]
pub fn vx_panic<T>() -> (r: T)
    requires false,
{ unimplemented!() }
macro_rules! panic { ($($t:tt)*) => { vx_panic() } }

// ------------------------------------------------------------------ specification vocabulary
/// the predicate's answer on the k-th element
pub open spec fn pans(f: Val, x: XSeq, k: int) -> EvaluatedValue {
    apply(f.value->Function_0, seq![x.at(k)->Ok_0])
}
pub open spec fn is_true(a: EvaluatedValue) -> bool { a matches Ok(v) && v.value == XValue::Bool(true) }
pub open spec fn is_false(a: EvaluatedValue) -> bool { a matches Ok(v) && v.value == XValue::Bool(false) }
pub open spec fn func_answers_bool(f: Val) -> bool {
    f.value is Function && forall|s: Seq<EvaluatedValue>| (#[trigger] apply(f.value->Function_0, s)) matches Ok(c) ==> c.value is Bool
}
pub mod ext {
    use vstd::prelude::*;
    use super::*;
    /// a one-element argument list is determined by its element (extensionality, proved)
    pub broadcast proof fn lemma_apply1(f: Func, s: Seq<EvaluatedValue>)
        requires s.len() == 1,
        ensures #[trigger] apply(f, s) == apply(f, seq![s[0]]),
    { assert(s =~= seq![s[0]]); }
}
pub open spec fn imin(a: int, b: int) -> int { if a <= b { a } else { b } }
/// the part of the builtin after the scan (XSequence::slice with the index found; V-seq)
#[verifier::external_body]
pub fn vx_rest<T>() -> (r: T) { unimplemented!() }

// @@INCLUDE stdx@@

// @@EXTRACTED@@

} // verus!
fn main() {}
