// V-gslice prelude (C16, one mechanism): skip/take composition of generators
// (XGenerator::slice and the Slice arm of XGenerator::_iter in src/builtin/generators.rs).
//
// A generator is viewed as the sequence of its elements (finite prefix model: the statement is
// proved for every finite stream; an infinite stream is the limit of its prefixes).  The boxed
// iterator `BIter` and std's `skip` / `take` are axiomatised by their documented meaning.
#![allow(unused_imports, dead_code, unused_variables)]
use vstd::prelude::*;

verus! {

global size_of usize == 8;

/// `Rc<ManagedXValue>` holding the inner generator
pub struct Inner;
impl Inner {
    #[verifier::external_body]
    pub fn clone(&self) -> (r: Inner) { unimplemented!() }
}
/// the representation under contract (the other variants do not occur in the extracted text)
pub enum XGenerator { Slice(Inner, usize, Option<usize>), Other }

pub struct BIter { pub view: Ghost<Seq<int>> }
pub enum Either<L, R> { Left(L), Right(R) }

pub open spec fn clamp(i: int, len: int) -> int { if i < 0 { 0 } else if i > len { len } else { i } }
/// elements [a, b) of s, with both bounds clamped to the stream
pub open spec fn window(s: Seq<int>, a: int, b: int) -> Seq<int> {
    let lo = clamp(a, s.len() as int);
    let hi = clamp(b, s.len() as int);
    if lo <= hi { s.subrange(lo, hi) } else { Seq::empty() }
}

impl BIter {
    /// std::iter::Iterator::skip
    #[verifier::external_body]
    pub fn skip(self, n: usize) -> (r: BIter)
        ensures r.view@ == window(self.view@, n as int, self.view@.len() as int),
    { unimplemented!() }
    /// std::iter::Iterator::take
    #[verifier::external_body]
    pub fn take(self, n: usize) -> (r: BIter)
        ensures r.view@ == window(self.view@, 0, n as int),
    { unimplemented!() }
}
pub open spec fn either_view(e: Either<BIter, BIter>) -> Seq<int> {
    match e { Either::Left(i) => i.view@, Either::Right(i) => i.view@ }
}

/// R-optmin target: the smaller of the present values
pub fn vx_opt_min(a: &Option<usize>, b: Option<usize>) -> (r: Option<usize>)
    ensures r == (match (*a, b) {
        (None, None) => None::<usize>,
        (Some(x), None) => Some(x),
        (None, Some(y)) => Some(y),
        (Some(x), Some(y)) => Some(if x <= y { x } else { y }),
    }),
{
    match (a, b) {
        (None, None) => None,
        (Some(x), None) => Some(*x),
        (None, Some(y)) => Some(y),
        (Some(x), Some(y)) => Some(if *x <= y { *x } else { y }),
    }
}

/// the guard under which XGenerator::slice merges nested slices: the absolute bounds are representable
pub open spec fn merge_ok(inner_start: usize, start: usize, end: Option<usize>) -> bool {
    inner_start + start <= usize::MAX && (end matches Some(e) ==> e + inner_start <= usize::MAX)
}

/// what `Slice(inner, start, end)` denotes: elements [start, end) of inner (end = None: to the end).
/// This is the reading under which XGenerator::slice merges nested slices.
pub open spec fn slice_denotes(inner: Seq<int>, start: usize, end: Option<usize>) -> Seq<int> {
    window(inner, start as int, match end { Some(e) => e as int, None => inner.len() as int })
}

/// skip(a) of skip(b) etc. compose as the merged slice says (lemma over `window`)
pub proof fn lemma_slice_of_slice(inner: Seq<int>, s0: usize, e0: Option<usize>, s1: usize, e1: Option<usize>)
    requires s0 + s1 <= usize::MAX, e1 matches Some(e) ==> e + s0 <= usize::MAX,
    ensures
        slice_denotes(slice_denotes(inner, s0, e0), s1, e1)
          == slice_denotes(inner, (s0 + s1) as usize, match (e0, e1) {
                (None, None) => None::<usize>,
                (Some(x), None) => Some(x),
                (None, Some(y)) => Some((y + s0) as usize),
                (Some(x), Some(y)) => Some(if x <= y + s0 { x } else { (y + s0) as usize }),
             }),
{
    let a = slice_denotes(inner, s0, e0);
    let l = slice_denotes(a, s1, e1);
    let r = slice_denotes(inner, (s0 + s1) as usize, match (e0, e1) {
                (None, None) => None::<usize>,
                (Some(x), None) => Some(x),
                (None, Some(y)) => Some((y + s0) as usize),
                (Some(x), Some(y)) => Some(if x <= y + s0 { x } else { (y + s0) as usize }),
             });
    assert(l.len() == r.len());
    assert forall|i: int| 0 <= i < l.len() implies l[i] == r[i] by {}
    assert(l =~= r);
}


// @@INCLUDE stdx@@

// @@EXTRACTED@@

} // verus!
fn main() {}
