// V-ffmt prelude (C19, numeric formatting): the float `format` native (src/builtin/floats.rs) from the parse of the
// specifier to the call of `get_body`, which hands the precision to std's formatter (`format!("{mag:.precision$}")`).
// Decided: the precision handed over is one std's formatter accepts (at most u16::MAX -- std panics with "Formatting
// argument out of range" beyond it), for every specifier the grammar lets through.  `get_body` itself (format!,
// split_once, grouping) is not under contract.
#![allow(unused_imports, dead_code, unused_variables, unused_mut)]
use vstd::prelude::*;
use std::rc::Rc;

verus! {

global size_of usize == 8;

/// f64, opaque
pub struct XF;
impl XF {
    #[verifier::external_body]
    pub fn abs(&self) -> (r: XF) { unimplemented!() }
}
pub struct FormattingType<'a> { pub type_: Option<&'a str>, pub alternative: bool }
/// util/xformatter.rs `XFormatting` (the fields this native reads; the parse is not under contract: any
/// precision a decimal numeral can denote in a usize comes out of it)
pub struct XFormatting<'a> { pub precision: Option<usize>, pub grouping: Option<&'a str>, pub ty: FormattingType<'a>, pub width: Ghost<nat> }
impl<'a> XFormatting<'a> {
    #[verifier::external_body]
    pub fn from_str(s: &'a str) -> (r: Option<XFormatting<'a>>) { unimplemented!() }
    #[verifier::external_body]
    pub fn min_width(&self) -> (r: usize) { unimplemented!() }
}
pub struct XStr;
impl XStr {
    #[verifier::external_body]
    pub fn as_str(&self) -> (r: &str) { unimplemented!() }
}
pub struct StrParts;
/// the nested `fn get_body` of add_float_format: formats the magnitude with `format!("{mag:.precision$}")` (resp. the
/// `e` / `E` forms).  std: "precision .. is limited to u16::MAX", a larger one panics
#[verifier::external_body]
pub fn get_body<'a>(mag: XF, ty: Option<&'a str>, precision: usize, grouping: Option<&'a str>) -> (r: Result<StrParts, String>)
    requires precision <= u16::MAX,
{ unimplemented!() }

pub struct Rt;
impl Rt {
    #[verifier::external_body]
    pub fn clone(&self) -> (r: Rt) { unimplemented!() }
    #[verifier::external_body]
    pub fn can_allocate(&self, n: usize) -> (r: RuntimeResult<()>) { unimplemented!() }
}
pub struct RuntimeViolation;
pub struct ManagedXError;
pub struct Tailed;
pub type RuntimeResult<T> = Result<T, RuntimeViolation>;
impl ManagedXError {
    #[verifier::external_body]
    pub fn new<S>(error: S, runtime: Rt) -> (r: RuntimeResult<Rc<ManagedXError>>) { unimplemented!() }
}
#[verifier::external_body]
pub fn xerr(e: Rc<ManagedXError>) -> (r: RuntimeResult<Tailed>) { unimplemented!() }
/// the rest of the native: sign, fill and the construction of the string
#[verifier::external_body]
pub fn rest(body: StrParts) -> (r: RuntimeResult<Tailed>) { unimplemented!() }

// @@EXTRACTED@@

} // verus!
fn main() {}
