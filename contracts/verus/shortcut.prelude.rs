// V-shortcut prelude (C07 "a self-call ... as the selected branch of a documented short-circuiting function
// returns the same result"): the native closures of `if` (src/builtin/generic.rs), `and`, `or`
// (src/builtin/bool.rs), real text (whole closure bodies; real `xraise!`, `to_primitive!`).
//
// Contract (data flow, complementing V-tailfwd which decides WHICH slot gets the caller's tail flag): the
// result IS the outcome of evaluating the selected branch with the caller's tail flag -- unchanged, tail
// call included -- and the branch that is not selected is not evaluated (its outcome does not occur in the
// result); an error value of the condition is the result.
//
// Assumed: the evaluator as a deterministic function: `ev(e)` (non-tail value of an expression) and
// `evt(e, tail)` (outcome of `ns.eval(e, rt, tail)`, violation or tail call included); the condition is a
// Bool (type fact).
#![allow(unused_imports, dead_code, unused_variables, unused_mut, unreachable_code)]
use vstd::prelude::*;

verus! {

// @@INCLUDE lazyint@@
pub struct Func { pub id: Ghost<int> }
pub enum XValue { Int(LazyBigint), Bool(bool), Function(Func) }
/// `$crate::xvalue::XValue` as the macro `to_primitive!` names it
pub mod xvalue { pub use super::XValue; }
pub mod xexpr { pub use super::TailedEvalResult; }

pub struct Val { pub value: XValue }            // Rc<ManagedXValue>
pub struct ErrV { pub id: Ghost<int> }          // Rc<ManagedXError>
pub struct RuntimeViolation { pub id: Ghost<int> }
pub type RuntimeResult<T> = Result<T, RuntimeViolation>;
pub type EvaluatedValue = Result<Val, ErrV>;
pub enum TailedEvalResult { Value(EvaluatedValue), TailCall(Vec<EvaluatedValue>) }
impl TailedEvalResult {
    /// panics on a tail call
    #[verifier::external_body]
    pub fn unwrap_value(self) -> (r: EvaluatedValue)
        requires self is Value,
        ensures r == self->Value_0,
    { unimplemented!() }
}
// `__e.into()` inside xraise!: Rc<ManagedXError> into itself
impl ErrV { #[verifier::external_body] pub fn into(self) -> (r: ErrV) ensures r == self { unimplemented!() } }
// impl From<Rc<ManagedXValue>> for TailedEvalResult (xexpr.rs)
impl Val { #[verifier::external_body] pub fn into(self) -> (r: TailedEvalResult) ensures r == TailedEvalResult::Value(Ok(self)) { unimplemented!() } }

pub struct Rt;
impl Rt { #[verifier::external_body] pub fn clone(&self) -> (r: Rt) { unimplemented!() } }
pub struct ManagedXValue;
impl ManagedXValue {
    #[verifier::external_body]
    pub fn new(value: XValue, rt: Rt) -> (r: RuntimeResult<Val>)
        ensures r matches Ok(m) ==> m.value == value,
    { unimplemented!() }
}

pub struct XExpr { pub id: Ghost<int> }
/// what an argument expression evaluates to (when evaluation is not cut short by a violation)
pub uninterp spec fn ev(e: XExpr) -> EvaluatedValue;
/// what a function value answers for an argument list
pub uninterp spec fn apply(f: Func, args: Seq<EvaluatedValue>) -> EvaluatedValue;

/// outcome of `ns.eval(e, rt, tail)`: a value, an error value, a tail call, or a violation
pub uninterp spec fn evt(e: XExpr, tail: bool) -> RuntimeResult<TailedEvalResult>;
pub struct Ns;
/// builtin/core.rs `eval`: evaluate in non-tail mode and unwrap the value
#[verifier::external_body]
pub fn eval(expr: &XExpr, ns: &Ns, rt: &Rt) -> (r: RuntimeResult<EvaluatedValue>)
    ensures r matches Ok(v) ==> v == ev(*expr),
{ unimplemented!() }
impl Ns {
    /// RuntimeScope::eval
    #[verifier::external_body]
    pub fn eval(&self, expr: &XExpr, rt: Rt, tail_available: bool) -> (r: RuntimeResult<TailedEvalResult>)
        ensures r == evt(*expr, tail_available),
    { unimplemented!() }
    #[verifier::external_body]
    pub fn eval_func_with_values(&self, func: &Func, args: Vec<EvaluatedValue>, rt: Rt, tail_available: bool) -> (r: RuntimeResult<TailedEvalResult>)
        ensures
            !tail_available ==> (r matches Ok(t) ==> t == TailedEvalResult::Value(apply(*func, args@))),
    { unimplemented!() }
}

/// `panic!(..)` inside `to_primitive!`: reaching it is a failed obligation
#[verifier::external_body]
pub fn vx_panic<T>() -> (r: T)
    requires false,
{ unimplemented!() }
macro_rules! panic { ($($t:tt)*) => { vx_panic() } }

/// `a0.into()` for an EvaluatedValue: impl From<EvaluatedValue> for TailedEvalResult (xexpr.rs; the real impl is
/// checked against this meaning in V-gcons)
impl From<EvaluatedValue> for TailedEvalResult { #[verifier::external_body] fn from(v: EvaluatedValue) -> Self { unimplemented!() } }
impl vstd::std_specs::convert::FromSpecImpl<EvaluatedValue> for TailedEvalResult {
    open spec fn obeys_from_spec() -> bool { true }
    open spec fn from_spec(v: EvaluatedValue) -> Self { TailedEvalResult::Value(v) }
}
/// the condition evaluates to a Bool (or to an error value)
pub open spec fn cond_is_bool(args: &[XExpr]) -> bool {
    ev(args[0]) matches Ok(v) ==> v.value is Bool
}

// @@INCLUDE stdx@@

// @@EXTRACTED@@

} // verus!
fn main() {}
