// ---- shared block: the hash table of mappings / sets as model types (same names as std's, so that the source text is
// unchanged): a `HashMap` is a finite map, a `Vec` its element sequence; the iterator towers the removal natives build
// over them by their documented meaning (trusted)
pub struct Vec<T> { pub v: Ghost<Seq<T>> }
impl<T> View for Vec<T> { type V = Seq<T>; open spec fn view(&self) -> Seq<T> { self.v@ } }
/// (an allocation holds at most isize::MAX bytes)
pub broadcast axiom fn axiom_vec_len<T>(v: Vec<T>) ensures #[trigger] v@.len() <= isize::MAX;
/// slice::Iter and what `take / skip / chain` make of it
pub struct VIter<'a, T> { pub r: Ghost<Seq<&'a T>> }
/// an iterator over owned elements (`cloned()`)
pub struct VOwned<T> { pub r: Ghost<Seq<T>> }
pub uninterp spec fn refs<'a, T>(s: Seq<T>) -> Seq<&'a T>;
pub broadcast axiom fn axiom_refs<'a, T>(s: Seq<T>)
    ensures (#[trigger] refs::<T>(s)).len() == s.len(), forall|i: int| 0 <= i < s.len() ==> *(#[trigger] refs::<T>(s)[i]) == s[i];
pub open spec fn derefs<'a, T>(s: Seq<&'a T>) -> Seq<T> { Seq::new(s.len(), |i: int| *s[i]) }
impl<T> Vec<T> {
    #[verifier::external_body]
    pub fn iter<'a>(&'a self) -> (r: VIter<'a, T>) ensures r.r@ == refs(self@) { unimplemented!() }
    #[verifier::external_body]
    pub fn len(&self) -> (r: usize) ensures r == self@.len() { unimplemented!() }
}
/// `v[..n]`, `v[n..]`, `v[a..b]`: the sub-slices (std panics outside the bounds)
pub struct VSlice<T> { pub v: Ghost<Seq<T>> }
impl<T> VSlice<T> {
    #[verifier::external_body]
    pub fn iter<'a>(&'a self) -> (r: VIter<'a, T>) ensures r.r@ == refs(self.v@) { unimplemented!() }
    #[verifier::external_body]
    pub fn len(&self) -> (r: usize) ensures r == self.v@.len() { unimplemented!() }
}
impl<T> Index<core::ops::RangeTo<usize>> for Vec<T> {
    type Output = VSlice<T>;
    #[verifier::external_body]
    fn index(&self, r: core::ops::RangeTo<usize>) -> (o: &VSlice<T>) ensures o.v@ == self@.subrange(0, r.end as int) { unimplemented!() }
}
impl<T> IndexSpecImpl<core::ops::RangeTo<usize>> for Vec<T> { open spec fn index_req(&self, r: &core::ops::RangeTo<usize>) -> bool { r.end <= self@.len() } }
impl<T> Index<core::ops::RangeFrom<usize>> for Vec<T> {
    type Output = VSlice<T>;
    #[verifier::external_body]
    fn index(&self, r: core::ops::RangeFrom<usize>) -> (o: &VSlice<T>) ensures o.v@ == self@.subrange(r.start as int, self@.len() as int) { unimplemented!() }
}
impl<T> IndexSpecImpl<core::ops::RangeFrom<usize>> for Vec<T> { open spec fn index_req(&self, r: &core::ops::RangeFrom<usize>) -> bool { r.start <= self@.len() } }
impl<T> Index<core::ops::Range<usize>> for Vec<T> {
    type Output = VSlice<T>;
    #[verifier::external_body]
    fn index(&self, r: core::ops::Range<usize>) -> (o: &VSlice<T>) ensures o.v@ == self@.subrange(r.start as int, r.end as int) { unimplemented!() }
}
impl<T> IndexSpecImpl<core::ops::Range<usize>> for Vec<T> { open spec fn index_req(&self, r: &core::ops::Range<usize>) -> bool { r.start <= r.end <= self@.len() } }
impl<T: Clone> Clone for Vec<T> {
    /// (element-wise clone of reference-counted values: the same elements)
    #[verifier::external_body]
    fn clone(&self) -> (r: Self) ensures r@ == self@ { unimplemented!() }
}
impl<'a, T> VIter<'a, T> {
    #[verifier::external_body]
    pub fn take(self, n: usize) -> (r: Self) ensures r.r@ == (if n <= self.r@.len() { self.r@.take(n as int) } else { self.r@ }) { unimplemented!() }
    #[verifier::external_body]
    pub fn skip(self, n: usize) -> (r: Self) ensures r.r@ == (if n <= self.r@.len() { self.r@.skip(n as int) } else { Seq::<&'a T>::empty() }) { unimplemented!() }
    #[verifier::external_body]
    pub fn chain(self, other: Self) -> (r: Self) ensures r.r@ == self.r@ + other.r@ { unimplemented!() }
    #[verifier::external_body]
    pub fn cloned(self) -> (r: VOwned<T>) where T: Clone ensures r.r@ == derefs(self.r@) { unimplemented!() }
}
impl<T> VOwned<T> {
    #[verifier::external_body]
    pub fn collect(self) -> (r: Vec<T>) ensures r@ == self.r@ { unimplemented!() }
}
pub struct HashMap<K, V> { pub m: Ghost<Map<K, V>> }
impl<K, V> View for HashMap<K, V> { type V = Map<K, V>; open spec fn view(&self) -> Map<K, V> { self.m@ } }
/// `map.iter()` and what `filter` makes of it: the entries of a finite map
pub struct HmIter<'a, K, V> { pub m: Ghost<Map<K, V>>, pub p: core::marker::PhantomData<&'a K> }
/// an iterator of owned (key, value) pairs with distinct keys
pub struct HmPairs<K, V> { pub m: Ghost<Map<K, V>> }
impl<K, V> HashMap<K, V> {
    #[verifier::external_body]
    pub fn iter<'a>(&'a self) -> (r: HmIter<'a, K, V>) ensures r.m@ == self@ { unimplemented!() }
    /// (the previous value, if any, is answered and dropped by the caller)
    #[verifier::external_body]
    pub fn insert(&mut self, k: K, v: V) -> (r: Option<V>)
        ensures final(self)@ == old(self)@.insert(k, v), r == (if old(self)@.contains_key(k) { Some(old(self)@[k]) } else { None::<V> }),
    { unimplemented!() }
    /// `HashMap::from_iter(pairs)`
    #[verifier::external_body]
    pub fn from_iter(it: HmPairs<K, V>) -> (r: Self) ensures r@ == it.m@ { unimplemented!() }
}
/// `map.values()` and the sum of a number computed from each value
pub struct HmValues<'a, K, V> { pub m: Ghost<Map<K, V>>, pub p: core::marker::PhantomData<&'a K> }
pub struct HmNums { pub total: Ghost<nat> }
/// the sum of the bucket lengths of a finite table
pub uninterp spec fn total_len<K, X>(m: Map<K, Vec<X>>) -> nat;
impl<K, V> HashMap<K, V> {
    #[verifier::external_body]
    pub fn values<'a>(&'a self) -> (r: HmValues<'a, K, V>) ensures r.m@ == self@ { unimplemented!() }
}
impl<'a, K: 'a, X: 'a> HmValues<'a, K, Vec<X>> {
    #[verifier::external_body]
    pub fn map<F: Fn(&'a Vec<X>) -> usize>(self, f: F) -> (r: HmNums)
        requires forall|v: &'a Vec<X>| #[trigger] call_requires(f, (v,)),
        ensures (forall|v: &'a Vec<X>, o: usize| #[trigger] call_ensures(f, (v,), o) ==> o == v@.len()) ==> r.total@ == total_len(self.m@),
    { unimplemented!() }
}
impl HmNums {
    #[verifier::external_body]
    pub fn sum(self) -> (r: usize) ensures r == self.total@ { unimplemented!() }
}
impl<'a, K: 'a, V: 'a> HmIter<'a, K, V> {
    /// Iterator::filter: the entries the predicate answers true for
    #[verifier::external_body]
    pub fn filter<F: Fn(&(&'a K, &'a V)) -> bool>(self, f: F) -> (r: HmIter<'a, K, V>)
        requires forall|k: &'a K, v: &'a V| #[trigger] call_requires(f, (&(k, v),)),
        ensures
            forall|k: K| #[trigger] r.m@.contains_key(k) ==> self.m@.contains_key(k) && r.m@[k] == self.m@[k],
            // (the predicate answers something for every entry, and that answer decides)
            forall|k: K| #[trigger] self.m@.contains_key(k) ==> exists|o: bool| call_ensures(f, (&(&k, &self.m@[k]),), o) && (r.m@.contains_key(k) <==> o),
    { unimplemented!() }
    /// Iterator::map with a closure that COPIES the entry (checked: the closure's postcondition must say so)
    #[verifier::external_body]
    pub fn map<G: Fn((&'a K, &'a V)) -> (K, V)>(self, g: G) -> (r: HmPairs<K, V>)
        requires
            forall|k: &'a K, v: &'a V| #[trigger] call_requires(g, ((k, v),)),
            forall|k: &'a K, v: &'a V, o: (K, V)| #[trigger] call_ensures(g, ((k, v),), o) ==> o == (*k, *v),
        ensures r.m@ == self.m@,
    { unimplemented!() }
}
/// `map[&k]` (std panics when the key is absent)
impl<'a, K, V> Index<&'a K> for HashMap<K, V> {
    type Output = V;
    #[verifier::external_body]
    fn index(&self, k: &'a K) -> (o: &V) ensures *o == self@[*k] { unimplemented!() }
}
impl<'a, K, V> IndexSpecImpl<&'a K> for HashMap<K, V> { open spec fn index_req(&self, k: &&'a K) -> bool { self@.contains_key(**k) } }
// ---- end of shared block
