// V-comb prelude (C15, the index natives behind combinations / combinations_with_replacement):
// `checked_binomial`, and the whole of `combination` and `combination_with_replacement` between the argument
// conversion and the construction of the result (src/builtin/int.rs) -- the guards, the count, and the unranking
// loops.  Decided, for every (n, i, k): no underflow / overflow / division by zero / truncating cast, the loops
// terminate, `checked_binomial` is n-choose-k exactly when that fits a usize (None exactly when it does not), the
// natives answer "i too large" exactly when i is not below the number of combinations, and the indices handed to
// the result are k in number, below n, and strictly increasing (non-decreasing with replacement).  For C10: every
// iteration of an unranking loop draws one permit of the call's search budget first (ghost iteration counter ==
// permits drawn), so under a search limit L a call ends within L iterations or in the MaximumSearch violation.
#![allow(unused_imports, dead_code, unused_variables, unused_mut)]
use vstd::prelude::*;
use std::rc::Rc;

/// `manage_native!(value, rt)` of builtin/core.rs (wraps a native value into a managed one): its result is
/// not used by the arithmetic under contract
macro_rules! manage_native { ($($a:tt)*) => { managed_stub() } }

verus! {

global size_of usize == 8;

// @@INCLUDE binomc@@

/// num_integer::binomial::<usize>, which the natives used before fix b76d469: it multiplies before dividing, so it is
/// only specified while the result times k+1 still fits.  Not called by the current tree; kept so that a return to it
/// is reported as a failed precondition rather than as a unit that no longer compiles.
#[verifier::external_body]
pub fn binomial(n: usize, k: usize) -> (r: usize)
    requires k <= n, binom_c(n as nat, k as nat) * (k + 1) <= usize::MAX,
    ensures r == binom_c(n as nat, k as nat),
{ unimplemented!() }

#[verifier::external_body]
pub fn managed_stub() -> (r: Out) ensures r == Out::Empty { unimplemented!() }
/// the search budget of one native call (`RuntimeLimits::search_iter`, under contract in V-budget): with a limit L
/// exactly L permits, then exactly one Err(MaximumSearch), then the end; without a limit endless permits
pub struct SearchIt { pub limit: Ghost<Option<nat>>, pub drawn: Ghost<nat>, pub failed: Ghost<bool> }
impl SearchIt {
    #[verifier::external_body]
    pub fn next(&mut self) -> (r: Option<RuntimeResult<()>>)
        ensures
            final(self).limit@ == old(self).limit@, final(self).drawn@ == old(self).drawn@ + 1,
            !old(self).failed@ ==> (r matches Some(x) && match old(self).limit@ {
                Some(l) => (x is Ok <==> old(self).drawn@ < l),
                None => x is Ok,
            }),
            final(self).failed@ == (old(self).failed@ || !(r matches Some(Ok(_)))),
    { unimplemented!() }
}
pub struct Limits { pub search: Ghost<Option<nat>> }
impl Limits {
    #[verifier::external_body]
    pub fn search_iter(&self) -> (r: SearchIt) ensures r.limit@ == self.search@, r.drawn@ == 0, !r.failed@ { unimplemented!() }
}
pub struct Rt { pub limits: Limits }
impl Rt {
    #[verifier::external_body]
    pub fn clone(&self) -> (r: Rt) { unimplemented!() }
    /// RTCell::can_allocate: Err exactly when the size limit refuses (not part of this unit's claim)
    #[verifier::external_body]
    pub fn can_allocate(&self, n: usize) -> (r: RuntimeResult<()>) { unimplemented!() }
}
pub struct RuntimeViolation;
pub struct ManagedXError { pub msg: Ghost<Seq<char>> }
pub struct Tailed;
pub type RuntimeResult<T> = Result<T, RuntimeViolation>;
impl ManagedXError {
    #[verifier::external_body]
    pub fn new(error: &str, runtime: Rt) -> (r: RuntimeResult<Rc<ManagedXError>>)
        ensures r matches Ok(e) ==> e.msg@ == error@,
    { unimplemented!() }
}
pub enum Out { Err(Seq<char>), Empty, Indices(Seq<usize>) }
#[verifier::external_body]
pub fn xerr(e: Rc<ManagedXError>) -> (r: RuntimeResult<Out>) ensures r == Ok::<Out, RuntimeViolation>(Out::Err(e.msg@)) { unimplemented!() }
/// the part of the natives after the unranking loop: wraps each index into a managed Int and the vector into an Array
#[verifier::external_body]
pub fn rest(ret: Vec<usize>) -> (r: RuntimeResult<Out>) ensures r matches Ok(o) ==> o == Out::Indices(ret@) { unimplemented!() }

// @@EXTRACTED@@

} // verus!
fn main() {}
