// V-comb prelude (C15, the index natives behind combinations / combinations_with_replacement):
// the usize arithmetic between the argument guards and the unranking loop of `combination` and
// `combination_with_replacement` (src/builtin/int.rs).  Decided: no underflow / overflow / division by
// zero for any (n, i, k) the guards let through.  The unranking loops themselves are not under contract.
#![allow(unused_imports, dead_code, unused_variables, unused_mut)]
use vstd::prelude::*;
use std::rc::Rc;

/// `manage_native!(value, rt)` of builtin/core.rs (wraps a native value into a managed one): its result is
/// not used by the arithmetic under contract
macro_rules! manage_native { ($($a:tt)*) => { managed_stub() } }

verus! {

global size_of usize == 8;

/// n choose k
pub open spec fn binom_c(n: nat, k: nat) -> nat decreases n {
    if k == 0 { 1 } else if n == 0 { 0 } else { binom_c((n - 1) as nat, (k - 1) as nat) + binom_c((n - 1) as nat, k) }
}
/// num_integer::binomial::<usize>: multiplies before dividing, so it is only specified while the result
/// times k still fits (its documented overflow behaviour: "may overflow for large arguments")
#[verifier::external_body]
pub fn binomial(n: usize, k: usize) -> (r: usize)
    requires k <= n, binom_c(n as nat, k as nat) * (k + 1) <= usize::MAX,
    ensures r == binom_c(n as nat, k as nat),
{ unimplemented!() }

#[verifier::external_body]
pub fn managed_stub() -> (r: Tailed) { unimplemented!() }
pub struct Rt;
impl Rt {
    #[verifier::external_body]
    pub fn clone(&self) -> (r: Rt) { unimplemented!() }
}
pub struct RuntimeViolation;
pub struct ManagedXError;
pub struct Tailed;
pub type RuntimeResult<T> = Result<T, RuntimeViolation>;
impl ManagedXError {
    #[verifier::external_body]
    pub fn new(error: &str, runtime: Rt) -> (r: RuntimeResult<Rc<ManagedXError>>) { unimplemented!() }
}
#[verifier::external_body]
pub fn xerr(e: Rc<ManagedXError>) -> (r: RuntimeResult<Tailed>) { unimplemented!() }
#[verifier::external_body]
pub fn rest() -> (r: RuntimeResult<Tailed>) { unimplemented!() }

// @@EXTRACTED@@

} // verus!
fn main() {}
