// V-binom prelude (C14): the `binom` builtin (src/builtin/int.rs), verified as real text against V-int's
// contracts.  Decided: the guards and the loop keep the divisor of the final `/` positive (the
// precondition V-int's Div contract takes from its call sites), nothing panics, and the result is the
// binomial coefficient C(a, b) (Pascal's rule): the falling factorial is C(a, b) * b! (proved lemma), so the
// final division is exact.
#![allow(unused_imports, dead_code, unused_variables, unused_mut)]
use vstd::prelude::*;
use vstd::std_specs::ops::*;
use vstd::std_specs::cmp::*;
use core::ops::{Add, Sub, Div, MulAssign};
use core::cmp::Ordering;
use std::rc::Rc;

verus! {

global size_of usize == 8;

pub open spec fn smul(a: int, b: int) -> int { a * b }
pub open spec fn tdiv(a: int, b: int) -> int { vstd::arithmetic::div_mod::rust_div(a, b) }
/// a * (a-1) * ... * (a-k+1)
pub open spec fn falling(a: int, k: nat) -> int decreases k { if k == 0 { 1 } else { smul(falling(a, (k - 1) as nat), a - (k - 1)) } }
/// k!
pub open spec fn fact(k: nat) -> int decreases k { if k == 0 { 1 } else { smul(fact((k - 1) as nat), k as int) } }
pub proof fn lemma_fact_pos(k: nat) ensures fact(k) >= 1 decreases k {
    if k > 0 {
        lemma_fact_pos((k - 1) as nat);
        assert(fact((k - 1) as nat) * (k as int) >= 1) by(nonlinear_arith) requires fact((k - 1) as nat) >= 1, k >= 1;
    }
}

// @@INCLUDE binomc@@

/// the falling factorial is the binomial coefficient times k!: the division `num / denum` of the builtin is exact
pub proof fn lemma_falling_binom(n: nat, k: nat)
    requires k <= n,
    ensures falling(n as int, k) == binom_c(n, k) * fact(k),
    decreases k,
{
    if k == 0 {
        assert(binom_c(n, 0) == 1);
        assert(falling(n as int, 0) == 1 && fact(0) == 1);
    } else {
        let j = (k - 1) as nat;
        lemma_falling_binom(n, j);
        lemma_binom_step(n, j);
        let c0 = binom_c(n, j) as int; let c1 = binom_c(n, k) as int; let f0 = fact(j); let m = n as int - j as int;
        assert(falling(n as int, k) == smul(falling(n as int, j), m));
        assert(fact(k) == smul(f0, k as int));
        assert(c0 * f0 * m == c1 * (f0 * k)) by(nonlinear_arith) requires c0 * m == c1 * k;
    }
}
/// the truncated quotient of an exact non-negative division
pub proof fn lemma_tdiv_exact(q: int, d: int)
    requires q >= 0, d > 0,
    ensures tdiv(q * d, d) == q,
{
    assert(q * d >= 0) by(nonlinear_arith) requires q >= 0, d > 0;
    lemma_exact_div(q * d, q, d);
}

pub struct LazyBigint { pub v: Ghost<int> }
pub open spec fn lbv(x: int) -> LazyBigint { LazyBigint { v: Ghost(x) } }
impl LazyBigint {
    pub open spec fn val(self) -> int { self.v@ }
    #[verifier::external_body]
    pub fn one() -> (r: LazyBigint) ensures r.val() == 1 { unimplemented!() }
    #[verifier::external_body]
    pub fn is_negative(&self) -> (r: bool) ensures r == (self.val() < 0) { unimplemented!() }
    #[verifier::external_body]
    pub fn prospective_size(&self) -> (r: usize) ensures r <= usize::MAX / 8 { unimplemented!() }
    /// LazyBigint::range: 0, 1, .., self-1
    #[verifier::external_body]
    pub fn range(&self) -> (r: RangeIt) ensures r.n@ == self.val() { unimplemented!() }
}
impl PartialEq for LazyBigint { #[verifier::external_body] fn eq(&self, o: &Self) -> bool { unimplemented!() } }
impl PartialEqSpecImpl for LazyBigint {
    open spec fn obeys_eq_spec() -> bool { true }
    open spec fn eq_spec(&self, o: &Self) -> bool { self.val() == o.val() }
}
impl PartialOrd for LazyBigint { #[verifier::external_body] fn partial_cmp(&self, o: &Self) -> Option<Ordering> { unimplemented!() } }
impl PartialOrdSpecImpl for LazyBigint {
    open spec fn obeys_partial_cmp_spec() -> bool { true }
    open spec fn partial_cmp_spec(&self, o: &Self) -> Option<Ordering> {
        Some(if self.val() < o.val() { Ordering::Less } else if self.val() == o.val() { Ordering::Equal } else { Ordering::Greater })
    }
}
macro_rules! ref_op {
    ($Tr:ident, $m:ident, $SpecTr:ident, $obeys:ident, $req:ident, $spec:ident, |$a:ident, $b:ident| $val:expr) => {
        verus! {
        impl<'a> $Tr<&'a LazyBigint> for &'a LazyBigint { type Output = LazyBigint; #[verifier::external_body] fn $m(self, rhs: &'a LazyBigint) -> LazyBigint { unimplemented!() } }
        impl<'a> $SpecTr<&'a LazyBigint> for &'a LazyBigint {
            open spec fn $obeys() -> bool { true }
            open spec fn $req(self, rhs: &'a LazyBigint) -> bool { true }
            open spec fn $spec(self, rhs: &'a LazyBigint) -> LazyBigint { let $a = self; let $b = rhs; lbv($val) }
        }
        }
    };
}
ref_op!(Add, add, AddSpecImpl, obeys_add_spec, add_req, add_spec, |a, b| a.val() + b.val());
ref_op!(Sub, sub, SubSpecImpl, obeys_sub_spec, sub_req, sub_spec, |a, b| a.val() - b.val());
impl MulAssign<LazyBigint> for LazyBigint { #[verifier::external_body] fn mul_assign(&mut self, rhs: LazyBigint) { unimplemented!() } }
impl MulAssignSpecImpl<LazyBigint> for LazyBigint {
    open spec fn obeys_mul_assign_spec() -> bool { true }
    open spec fn mul_assign_req(&self, rhs: LazyBigint) -> bool { true }
    open spec fn mul_assign_spec(&self, rhs: LazyBigint) -> &LazyBigint { &lbv(smul(self.val(), rhs.val())) }
}
// V-int: `impl Div for LazyBigint` -- the divisor is positive (precondition taken from THIS call site)
impl Div for LazyBigint { type Output = LazyBigint; #[verifier::external_body] fn div(self, rhs: LazyBigint) -> LazyBigint { unimplemented!() } }
impl DivSpecImpl<LazyBigint> for LazyBigint {
    open spec fn obeys_div_spec() -> bool { true }
    open spec fn div_req(self, rhs: LazyBigint) -> bool { rhs.val() > 0 }
    open spec fn div_spec(self, rhs: LazyBigint) -> LazyBigint { lbv(tdiv(self.val(), rhs.val())) }
}

pub struct RangeIt { pub n: Ghost<int> }
/// `search(iter, rt)` of builtin/core.rs: the items of `iter` paired with the search budget
pub struct SearchIt { pub idx: Ghost<int>, pub n: Ghost<int> }
#[verifier::external_body]
pub fn search(r: RangeIt, rt: Rt) -> (s: SearchIt) ensures s.idx@ == 0, s.n@ == r.n@ { unimplemented!() }
impl SearchIt {
    #[verifier::external_body]
    pub fn next(&mut self) -> (r: Option<(LazyBigint, RuntimeResult<()>)>)
        ensures
            final(self).n@ == old(self).n@,
            match r {
                Some((i, _)) => old(self).idx@ < old(self).n@ && i.val() == old(self).idx@ && final(self).idx@ == old(self).idx@ + 1,
                None => old(self).idx@ >= old(self).n@ && final(self).idx@ == old(self).idx@,
            },
    { unimplemented!() }
}
pub struct Rt;
impl Rt {
    #[verifier::external_body]
    pub fn clone(&self) -> (r: Rt) { unimplemented!() }
    #[verifier::external_body]
    pub fn can_allocate_by<F: Fn() -> Option<usize>>(&self, f: F) -> (r: RuntimeResult<()>) requires f.requires(()) { unimplemented!() }
}
pub struct RuntimeViolation;
pub struct ManagedXError;
pub type RuntimeResult<T> = Result<T, RuntimeViolation>;
pub type XResult<T> = RuntimeResult<Result<T, Rc<ManagedXError>>>;
impl ManagedXError {
    #[verifier::external_body]
    pub fn new(error: &str, runtime: Rt) -> (r: RuntimeResult<Rc<ManagedXError>>) { unimplemented!() }
}
pub enum XValue { Int(LazyBigint), Other }

// @@EXTRACTED@@

} // verus!
fn main() {}
