// V-seqchain prelude (C15, "slice and chain composition"): XSequence::chain (src/builtin/sequence.rs), real text
// from the finiteness test of the first operand through the end of the function (the four arms that flatten
// chains of chains).  Contract: the parts of the result are the parts of the first operand (itself, when it
// is not a chain) followed by those of the second; the midpoint lengths are those of the first operand, then
// its total length, then those of the second shifted by that length -- and they stay non-decreasing with one
// midpoint less than parts, which is the invariant V-seq's Chain arm of `get` relies on.
//
// std's iterator towers (`iter / cloned / chain / once / map / collect`, `vec!`) are modelled on ghost
// sequences (trusted): `MVec` stands for `Vec`, `MIter` for an iterator over references, `OIter` for one over
// values; the closure `|len| len + len0` gets its own body as postcondition (R-closurepost).
#![allow(unused_imports, dead_code, unused_variables)]
use vstd::prelude::*;

verus! {

pub struct Val { pub id: Ghost<int> }            // Rc<ManagedXValue>
impl Clone for Val { #[verifier::external_body] fn clone(&self) -> (r: Val) ensures r == *self { unimplemented!() } }

/// Vec<T>
pub struct MVec<T> { pub v: Ghost<Seq<T>> }
/// iterator over references (slice::Iter and what is chained to it)
pub struct MIter<'a, T> { pub r: Ghost<Seq<&'a T>> }
/// iterator over values
pub struct OIter<T> { pub r: Ghost<Seq<T>> }
/// core::iter::Once
pub struct Once<X> { pub x: X }
pub mod iter {
    use super::*;
    pub fn once<X>(x: X) -> (r: Once<X>) ensures r.x == x { Once { x } }
}
pub open spec fn refs<'a, T>(s: Seq<T>) -> Seq<&'a T>;   // the references to the elements, in order
pub broadcast axiom fn axiom_refs<'a, T>(s: Seq<T>)
    ensures (#[trigger] refs::<T>(s)).len() == s.len(), forall|i: int| 0 <= i < s.len() ==> *(#[trigger] refs::<T>(s)[i]) == s[i];
pub open spec fn derefs<'a, T>(s: Seq<&'a T>) -> Seq<T> { Seq::new(s.len(), |i: int| *s[i]) }

pub trait IntoMIter<'a, T>: Sized { spec fn mseq(self) -> Seq<&'a T>; }
impl<'a, T> IntoMIter<'a, T> for MIter<'a, T> { open spec fn mseq(self) -> Seq<&'a T> { self.r@ } }
impl<'a, T> IntoMIter<'a, T> for &'a MVec<T> { open spec fn mseq(self) -> Seq<&'a T> { refs(self.v@) } }
impl<'a, T> IntoMIter<'a, T> for Once<&'a T> { open spec fn mseq(self) -> Seq<&'a T> { seq![self.x] } }
pub trait IntoOIter<T>: Sized { spec fn oseq(self) -> Seq<T>; }
impl<T> IntoOIter<T> for OIter<T> { open spec fn oseq(self) -> Seq<T> { self.r@ } }
impl<T> IntoOIter<T> for Once<T> { open spec fn oseq(self) -> Seq<T> { seq![self.x] } }

impl<T> MVec<T> {
    #[verifier::external_body]
    pub fn iter<'a>(&'a self) -> (r: MIter<'a, T>) ensures r.r@ == refs(self.v@) { unimplemented!() }
    /// `vec![a, b, ..]`
    #[verifier::external_body]
    pub fn from_array<const N: usize>(a: [T; N]) -> (r: MVec<T>) ensures r.v@ == a@ { unimplemented!() }
}
impl<'a, T> MIter<'a, T> {
    #[verifier::external_body]
    pub fn chain<I: IntoMIter<'a, T>>(self, other: I) -> (r: MIter<'a, T>) ensures r.r@ == self.r@ + other.mseq() { unimplemented!() }
    #[verifier::external_body]
    pub fn cloned(self) -> (r: OIter<T>) where T: Clone ensures r.r@ == derefs(self.r@) { unimplemented!() }
    /// Iterator::map with a closure whose postcondition determines its result
    #[verifier::external_body]
    pub fn map<U, F: Fn(&'a T) -> U>(self, f: F) -> (r: OIter<U>)
        requires forall|i: int| 0 <= i < self.r@.len() ==> call_requires(f, (#[trigger] self.r@[i],)),
        ensures r.r@.len() == self.r@.len(), forall|i: int| 0 <= i < self.r@.len() ==> call_ensures(f, (self.r@[i],), #[trigger] r.r@[i]),
    { unimplemented!() }
}
impl<'a, T> Once<&'a T> {
    #[verifier::external_body]
    pub fn chain<I: IntoMIter<'a, T>>(self, other: I) -> (r: MIter<'a, T>) ensures r.r@ == seq![self.x] + other.mseq() { unimplemented!() }
}
impl Once<usize> {
    #[verifier::external_body]
    pub fn chain<I: IntoOIter<usize>>(self, other: I) -> (r: OIter<usize>) ensures r.r@ == seq![self.x] + other.oseq() { unimplemented!() }
}
impl<T> OIter<T> {
    #[verifier::external_body]
    pub fn chain<I: IntoOIter<T>>(self, other: I) -> (r: OIter<T>) ensures r.r@ == self.r@ + other.oseq() { unimplemented!() }
    #[verifier::external_body]
    pub fn collect(self) -> (r: MVec<T>) ensures r.v@ == self.r@ { unimplemented!() }
}
macro_rules! vec { ($($x:expr),* $(,)?) => { MVec::from_array([$($x),*]) } }

/// the representations `chain` distinguishes
pub enum XSequence { Chain { parts: MVec<Val>, midpoint_lengths: MVec<usize> }, Other(Ghost<int>) }
/// the length of a sequence (None: endless)
pub uninterp spec fn slen(s: XSequence) -> Option<usize>;
impl XSequence {
    /// `XSequence::len`; for a chain the Chain arm (V-seq, item `chain_len`) answers the last part's length plus the last
    /// midpoint: at least the last midpoint
    #[verifier::external_body]
    pub fn len(&self) -> (r: Option<usize>)
        ensures r == slen(*self),
            (mids_of(*self).len() > 0 && r is Some) ==> mids_of(*self)[mids_of(*self).len() - 1] <= r->Some_0,
    { unimplemented!() }
}
impl<T> MVec<T> {
    #[verifier::external_body]
    pub fn last(&self) -> (r: Option<&T>) ensures r == (if self.v@.len() > 0 { Some(&self.v@[self.v@.len() - 1]) } else { None }) { unimplemented!() }
}
/// what the second operand spans beyond its start: its length, or -- endless -- its last midpoint
pub open spec fn span_of(s: XSequence) -> int {
    match slen(s) {
        Some(l) => l as int,
        None => match s { XSequence::Chain { midpoint_lengths, .. } if midpoint_lengths.v@.len() > 0 => midpoint_lengths.v@[midpoint_lengths.v@.len() - 1] as int, _ => 0 },
    }
}

pub open spec fn sorted(m: Seq<usize>) -> bool { forall|i: int, j: int| 0 <= i < j < m.len() ==> m[i] <= m[j] }
/// the parts a sequence contributes to a chain: its own parts, or itself
pub open spec fn parts_of(s: XSequence, base: Val) -> Seq<Val> {
    match s { XSequence::Chain { parts, .. } => parts.v@, _ => seq![base] }
}
pub open spec fn mids_of(s: XSequence) -> Seq<usize> {
    match s { XSequence::Chain { midpoint_lengths, .. } => midpoint_lengths.v@, _ => Seq::<usize>::empty() }
}
/// cumulative-length invariant of a chain (as far as V-seq's `get` needs it)
pub open spec fn chain_ok(s: XSequence) -> bool {
    s matches XSequence::Chain { parts, midpoint_lengths } ==> parts.v@.len() == midpoint_lengths.v@.len() + 1 && midpoint_lengths.v@.len() >= 1 && sorted(midpoint_lengths.v@)
}

/// XGenerator (builtin/generators.rs) as `chain` sees it
pub enum XGenerator { Chain(MVec<Val>), Other(Ghost<int>) }
pub open spec fn gparts_of(g: XGenerator, base: Val) -> Seq<Val> {
    match g { XGenerator::Chain(parts) => parts.v@, _ => seq![base] }
}

// @@EXTRACTED@@

} // verus!
fn main() {}
