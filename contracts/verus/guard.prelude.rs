// V-guard prelude (C11): every effect primitive requires the matching permission to be enabled;
// `check_permission(P)?` is the only way to learn `allowed(P)`.
//
// The functions after the marker are SKELETONS (R-skel) generated on every run from the real
// closure / method bodies: control flow, early exits and the occurrences of the primitives below are
// kept in evaluation order; every other computation is dropped (conditions become sk_nondet()).
#![allow(unused_imports, dead_code, unused_variables, unreachable_code, unused_must_use)]
use vstd::prelude::*;

verus! {

pub enum Perm { NOW, PRINT, PRINT_DEBUG, RANDOM, REGEX, SLEEP }

/// whether the permission is enabled in the limits of the running evaluation.  `limits` is a
/// plain field of `Runtime` behind `Rc` without interior mutability, so it is constant during an
/// evaluation (argued from the types; listed under assumptions).
pub uninterp spec fn allowed(p: Perm) -> bool;

pub struct Viol;

/// RuntimeLimits::check_permission -- contract proved on the real text by unit V-perm:
/// Ok <==> allowed(p)
#[verifier::external_body]
pub fn check_permission(p: Perm) -> (r: Result<(), Viol>)
    ensures r is Ok <==> allowed(p),
{ unimplemented!() }

/// an effect primitive (write to the injected writer, read the clock, draw randomness, compile a
/// regular expression, sleep) or a callee whose contract requires the permission
#[verifier::external_body]
pub fn effect(p: Perm)
    requires allowed(p),
{ unimplemented!() }

#[verifier::external_body]
pub fn sk_nondet() -> bool { unimplemented!() }
#[verifier::external_body]
pub fn sk_ret() -> Result<(), Viol> { unimplemented!() }

// @@EXTRACTED@@

} // verus!
fn main() {}
