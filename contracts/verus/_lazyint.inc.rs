// ---- shared block: LazyBigint through the contracts unit V-int proves (canonical representation of the
// mathematical value): construction from machine integers, comparison, sign tests
pub struct LazyBigint { pub v: Ghost<int> }
pub open spec fn lbv(x: int) -> LazyBigint { LazyBigint { v: Ghost(x) } }
impl LazyBigint {
    pub open spec fn val(&self) -> int { self.v@ }
    #[verifier::external_body]
    pub fn is_negative(&self) -> (r: bool) ensures r == (self.val() < 0) { unimplemented!() }
    #[verifier::external_body]
    pub fn is_positive(&self) -> (r: bool) ensures r == (self.val() > 0) { unimplemented!() }
    #[verifier::external_body]
    pub fn is_zero(&self) -> (r: bool) ensures r == (self.val() == 0) { unimplemented!() }
    #[verifier::external_body]
    pub fn is_one(&self) -> (r: bool) ensures r == (self.val() == 1) { unimplemented!() }
    #[verifier::external_body]
    pub fn zero() -> (r: LazyBigint) ensures r.val() == 0 { unimplemented!() }
    #[verifier::external_body]
    pub fn one() -> (r: LazyBigint) ensures r.val() == 1 { unimplemented!() }
    #[verifier::external_body]
    pub fn abs(&self) -> (r: LazyBigint) ensures r.val() == (if self.val() >= 0 { self.val() } else { -self.val() }) { unimplemented!() }
    #[verifier::external_body]
    pub fn to_usize(&self) -> (r: Option<usize>)
        ensures r == (if 0 <= self.val() <= usize::MAX { Some(self.val() as usize) } else { None::<usize> }),
    { unimplemented!() }
    #[verifier::external_body]
    pub fn to_u64(&self) -> (r: Option<u64>)
        ensures r == (if 0 <= self.val() <= u64::MAX { Some(self.val() as u64) } else { None::<u64> }),
    { unimplemented!() }
    #[verifier::external_body]
    pub fn to_i64(&self) -> (r: Option<i64>)
        ensures r == (if i64::MIN <= self.val() <= i64::MAX { Some(self.val() as i64) } else { None::<i64> }),
    { unimplemented!() }
    /// LazyBigint::sign (util/lazy_bigint.rs, under contract in V-int)
    #[verifier::external_body]
    pub fn sign(&self) -> (r: i8) ensures r == (if self.val() > 0 { 1i8 } else if self.val() < 0 { -1i8 } else { 0i8 }) { unimplemented!() }
    #[verifier::external_body]
    pub fn signum(&self) -> (r: LazyBigint) ensures r.val() == (if self.val() > 0 { 1int } else if self.val() < 0 { -1int } else { 0int }) { unimplemented!() }
}
impl Clone for LazyBigint { #[verifier::external_body] fn clone(&self) -> (r: LazyBigint) ensures r == *self { unimplemented!() } }
/// `impl<T> From<T> for LazyBigint` for the machine integer types (V-int / K-int)
pub trait SmallSrc: Sized { spec fn as_int(self) -> int; }
impl SmallSrc for i32 { open spec fn as_int(self) -> int { self as int } }
impl SmallSrc for i64 { open spec fn as_int(self) -> int { self as int } }
impl SmallSrc for isize { open spec fn as_int(self) -> int { self as int } }
impl SmallSrc for u8 { open spec fn as_int(self) -> int { self as int } }
impl SmallSrc for u32 { open spec fn as_int(self) -> int { self as int } }
impl SmallSrc for u64 { open spec fn as_int(self) -> int { self as int } }
impl SmallSrc for usize { open spec fn as_int(self) -> int { self as int } }
impl<T: SmallSrc> From<T> for LazyBigint { #[verifier::external_body] fn from(x: T) -> Self { unimplemented!() } }
impl<T: SmallSrc> vstd::std_specs::convert::FromSpecImpl<T> for LazyBigint {
    open spec fn obeys_from_spec() -> bool { true }
    open spec fn from_spec(x: T) -> Self { lbv(x.as_int()) }
}
impl PartialEq for LazyBigint { #[verifier::external_body] fn eq(&self, o: &Self) -> bool { unimplemented!() } }
impl vstd::std_specs::cmp::PartialEqSpecImpl for LazyBigint {
    open spec fn obeys_eq_spec() -> bool { true }
    open spec fn eq_spec(&self, o: &Self) -> bool { self.val() == o.val() }
}
impl PartialOrd for LazyBigint { #[verifier::external_body] fn partial_cmp(&self, o: &Self) -> Option<core::cmp::Ordering> { unimplemented!() } }
impl vstd::std_specs::cmp::PartialOrdSpecImpl for LazyBigint {
    open spec fn obeys_partial_cmp_spec() -> bool { true }
    open spec fn partial_cmp_spec(&self, o: &Self) -> Option<core::cmp::Ordering> {
        Some(if self.val() < o.val() { core::cmp::Ordering::Less } else if self.val() == o.val() { core::cmp::Ordering::Equal } else { core::cmp::Ordering::Greater })
    }
}
impl core::ops::Add for LazyBigint { type Output = LazyBigint; #[verifier::external_body] fn add(self, rhs: Self) -> Self { unimplemented!() } }
impl vstd::std_specs::ops::AddSpecImpl<LazyBigint> for LazyBigint {
    open spec fn obeys_add_spec() -> bool { true }
    open spec fn add_req(self, rhs: LazyBigint) -> bool { true }
    open spec fn add_spec(self, rhs: LazyBigint) -> LazyBigint { lbv(self.val() + rhs.val()) }
}
impl core::ops::Sub for LazyBigint { type Output = LazyBigint; #[verifier::external_body] fn sub(self, rhs: Self) -> Self { unimplemented!() } }
impl vstd::std_specs::ops::SubSpecImpl<LazyBigint> for LazyBigint {
    open spec fn obeys_sub_spec() -> bool { true }
    open spec fn sub_req(self, rhs: LazyBigint) -> bool { true }
    open spec fn sub_spec(self, rhs: LazyBigint) -> LazyBigint { lbv(self.val() - rhs.val()) }
}
impl core::ops::Neg for LazyBigint { type Output = LazyBigint; #[verifier::external_body] fn neg(self) -> Self { unimplemented!() } }
impl vstd::std_specs::ops::NegSpecImpl for LazyBigint {
    open spec fn obeys_neg_spec() -> bool { true }
    open spec fn neg_req(self) -> bool { true }
    open spec fn neg_spec(self) -> LazyBigint { lbv(-self.val()) }
}
// ---- end of shared block
