// V-fstr prelude (C18, "strings are code-point sequences"): FencedString::{from_string, from_str, len, substr,
// substring, char_index_of_byte, push, push_ascii, to_lowercase, to_uppercase, ..} and the `+` impl
// (src/util/fenced_string.rs), real text; `struct FencedString` is the real definition.  `String` and `Vec` are
// the MODEL types below (same names, so that the source text is unchanged): a string is its byte sequence, a
// vector its element sequence; slicing, `to_string`, `iter().map(..).collect()` by their documented meaning.
//
// UTF-8 is abstracted by three uninterpreted functions with the facts the dual representation relies on
// (axioms, trusted): `nchars(b)` the number of code points of the byte string b, `off(b, i)` the byte offset of
// code point i (0 at 0, strictly increasing, `b.len()` at `nchars(b)`), slicing at two offsets gives the
// encoding of the code points in between, and for pure ASCII text bytes are code points.
//
// Representation invariant `wf`: an empty table means the text is pure ASCII; a non-empty table has one entry
// per code point, entry i being `off(buffer, i)`.
//
// Contract: `len` is the number of code points; `substr(start, end)` / `substring(start, end)`, for
// `start <= len` (callers must guard: that is where out-of-range requests become error values), denote the
// code points [start, min(end, len)) -- `substring` moreover returns a well-formed string.
#![allow(unused_imports, dead_code, unused_variables)]
use vstd::prelude::*;
use vstd::std_specs::core::IndexSpecImpl;
use core::ops::{Index, Range, RangeFrom};
use std::mem::size_of;

verus! {

// ------------------------------------------------------------------ UTF-8, abstractly
pub uninterp spec fn nchars(b: Seq<u8>) -> nat;
pub uninterp spec fn off(b: Seq<u8>, i: int) -> int;
pub uninterp spec fn ascii(b: Seq<u8>) -> bool;
/// the code points [i, j) of b, as bytes
pub open spec fn cps(b: Seq<u8>, i: int, j: int) -> Seq<u8> { b.subrange(off(b, i), off(b, j)) }
pub broadcast axiom fn axiom_off(b: Seq<u8>, i: int, j: int)
    requires 0 <= i <= j <= nchars(b),
    ensures 0 <= #[trigger] off(b, i) <= #[trigger] off(b, j) <= b.len(), i < j ==> off(b, i) < off(b, j),
        off(b, 0) == 0, off(b, nchars(b) as int) == b.len();
pub broadcast axiom fn axiom_ascii_len(b: Seq<u8>)
    requires ascii(b),
    ensures #[trigger] nchars(b) == b.len();
pub broadcast axiom fn axiom_ascii(b: Seq<u8>, i: int)
    requires ascii(b), 0 <= i <= b.len(),
    ensures #[trigger] off(b, i) == i;
/// every code point takes at least one byte, so as many code points as bytes means one byte each: ASCII
pub broadcast axiom fn axiom_len_ascii(b: Seq<u8>)
    requires #[trigger] nchars(b) == b.len(),
    ensures ascii(b);
pub broadcast axiom fn axiom_empty(b: Seq<u8>)
    requires b.len() == 0,
    ensures #[trigger] ascii(b), nchars(b) == 0;
pub broadcast group group_utf8 { axiom_off, axiom_ascii_len, axiom_ascii, axiom_piece, axiom_empty, axiom_len_ascii }
/// a piece cut at code-point boundaries: its code points, offsets and ASCII-ness
pub broadcast axiom fn axiom_piece(b: Seq<u8>, i: int, j: int, k: int)
    requires 0 <= i <= j <= nchars(b), 0 <= k <= j - i,
    ensures nchars(cps(b, i, j)) == j - i, #[trigger] off(cps(b, i, j), k) == off(b, i + k) - off(b, i),
        ascii(b) ==> ascii(cps(b, i, j));

/// concatenation of two texts: the code points of the first followed by those of the second
pub broadcast axiom fn axiom_concat(a: Seq<u8>, c: Seq<u8>)
    ensures #[trigger] nchars(a + c) == nchars(a) + nchars(c), ascii(a + c) == (ascii(a) && ascii(c));
pub broadcast axiom fn axiom_concat_off(a: Seq<u8>, c: Seq<u8>, k: int)
    requires 0 <= k <= nchars(a) + nchars(c),
    ensures #[trigger] off(a + c, k) == (if k <= nchars(a) { off(a, k) } else { a.len() + off(c, k - nchars(a)) });

// ------------------------------------------------------------------ String, Vec (models)
pub struct String { pub b: Ghost<Seq<u8>> }
/// `str` (the model type shadows the primitive's name, so that `&str` in the source text is this type)
#[allow(non_camel_case_types)]
pub struct str { pub b: Ghost<Seq<u8>> }
impl String {
    /// (an allocation never exceeds isize::MAX bytes)
    #[verifier::external_body]
    pub fn len(&self) -> (r: usize) ensures r == self.b@.len(), r <= isize::MAX { unimplemented!() }
    #[verifier::external_body]
    pub fn push_str(&mut self, o: &str) ensures final(self).b@ == old(self).b@ + o.b@, final(self).b@.len() <= isize::MAX { unimplemented!() }
    #[verifier::external_body]
    pub fn is_empty(&self) -> (r: bool) ensures r == (self.b@.len() == 0) { unimplemented!() }
    #[verifier::external_body]
    pub fn is_ascii(&self) -> (r: bool) ensures r == ascii(self.b@) { unimplemented!() }
    #[verifier::external_body]
    pub fn shrink_to_fit(&mut self) ensures final(self).b@ == old(self).b@ { unimplemented!() }
}
impl str {
    #[verifier::external_body]
    pub fn is_ascii(&self) -> (r: bool) ensures r == ascii(self.b@) { unimplemented!() }
    #[verifier::external_body]
    pub fn is_empty(&self) -> (r: bool) ensures r == (self.b@.len() == 0) { unimplemented!() }
    #[verifier::external_body]
    pub fn len(&self) -> (r: usize) ensures r == self.b@.len(), r <= isize::MAX { unimplemented!() }
}
/// `s.char_indices()`: the code points of s with their byte offsets, in order (the `char` itself is not constrained)
pub struct CharIndices { pub b: Ghost<Seq<u8>>, pub k: Ghost<int> }
impl CharIndices {
    #[verifier::external_body]
    pub fn next(&mut self) -> (r: Option<(usize, char)>)
        ensures final(self).b@ == old(self).b@,
            old(self).k@ < nchars(old(self).b@) ==> (r matches Some(p) && p.0 == off(old(self).b@, old(self).k@) && final(self).k@ == old(self).k@ + 1),
            old(self).k@ >= nchars(old(self).b@) ==> (r is None && final(self).k@ == old(self).k@),
    { unimplemented!() }
}
impl String {
    #[verifier::external_body]
    pub fn char_indices(&self) -> (r: CharIndices) ensures r.b@ == self.b@, r.k@ == 0 { unimplemented!() }
}
/// case mapping of a text (std's `str::to_lowercase / to_uppercase`): some text -- it may have more or fewer
/// bytes and code points than the original (U+0130 grows, U+212A shrinks)
pub uninterp spec fn lower(b: Seq<u8>) -> Seq<u8>;
pub uninterp spec fn upper(b: Seq<u8>) -> Seq<u8>;
pub assume_specification [char::is_lowercase] (_0: char) -> bool;
pub assume_specification [char::is_uppercase] (_0: char) -> bool;
pub struct Chars { pub b: Ghost<Seq<u8>> }
impl Chars {
    #[verifier::external_body]
    pub fn all<F>(self, f: F) -> (r: bool) { unimplemented!() }
}
impl String {
    #[verifier::external_body]
    pub fn chars(&self) -> (r: Chars) ensures r.b@ == self.b@ { unimplemented!() }
    #[verifier::external_body]
    pub fn to_lowercase(&self) -> (r: String) ensures r.b@ == lower(self.b@) { unimplemented!() }
    #[verifier::external_body]
    pub fn to_uppercase(&self) -> (r: String) ensures r.b@ == upper(self.b@) { unimplemented!() }
}
impl core::ops::Deref for String {
    type Target = str;
    #[verifier::external_body]
    fn deref(&self) -> (r: &str) ensures r.b@ == self.b@ { unimplemented!() }
}
impl Clone for Vec<usize> {
    #[verifier::external_body]
    fn clone(&self) -> (r: Vec<usize>) ensures r.v@ == self.v@ { unimplemented!() }
}
impl Default for String {
    #[verifier::external_body]
    fn default() -> (r: String) ensures r.b@ == Seq::<u8>::empty() { unimplemented!() }
}
impl<T> Default for Vec<T> {
    #[verifier::external_body]
    fn default() -> (r: Vec<T>) ensures r.v@.len() == 0 { unimplemented!() }
}
impl str {
    #[verifier::external_body]
    pub fn to_string(&self) -> (r: String) ensures r.b@ == self.b@ { unimplemented!() }
}
impl Index<Range<usize>> for String {
    type Output = str;
    #[verifier::external_body]
    fn index(&self, r: Range<usize>) -> (o: &str) ensures o.b@ == self.b@.subrange(r.start as int, r.end as int) { unimplemented!() }
}
impl IndexSpecImpl<Range<usize>> for String {
    /// (std panics outside these bounds -- and off a char boundary, which the offsets below never are)
    open spec fn index_req(&self, r: &Range<usize>) -> bool { r.start <= r.end <= self.b@.len() }
}
impl Index<RangeFrom<usize>> for String {
    type Output = str;
    #[verifier::external_body]
    fn index(&self, r: RangeFrom<usize>) -> (o: &str) ensures o.b@ == self.b@.subrange(r.start as int, self.b@.len() as int) { unimplemented!() }
}
impl IndexSpecImpl<RangeFrom<usize>> for String {
    open spec fn index_req(&self, r: &RangeFrom<usize>) -> bool { r.start <= self.b@.len() }
}
pub struct Vec<T> { pub v: Ghost<Seq<T>> }
pub struct VSlice<T> { pub v: Ghost<Seq<T>> }
pub struct VIter<'a, T> { pub r: Ghost<Seq<&'a T>> }
pub struct VMapped<U> { pub r: Ghost<Seq<U>> }
pub uninterp spec fn refs<'a, T>(s: Seq<T>) -> Seq<&'a T>;
pub broadcast axiom fn axiom_refs<'a, T>(s: Seq<T>)
    ensures (#[trigger] refs::<T>(s)).len() == s.len(), forall|i: int| 0 <= i < s.len() ==> *(#[trigger] refs::<T>(s)[i]) == s[i];
impl<T> Vec<T> {
    #[verifier::external_body]
    pub fn new() -> (r: Vec<T>) ensures r.v@.len() == 0 { unimplemented!() }
    #[verifier::external_body]
    pub fn with_capacity(n: usize) -> (r: Vec<T>) ensures r.v@.len() == 0 { unimplemented!() }
    #[verifier::external_body]
    pub fn push(&mut self, x: T) ensures final(self).v@ == old(self).v@.push(x) { unimplemented!() }
    #[verifier::external_body]
    pub fn last(&self) -> (r: Option<&T>) ensures r == (if self.v@.len() > 0 { Some(&self.v@[self.v@.len() - 1]) } else { None }) { unimplemented!() }
    #[verifier::external_body]
    pub fn is_empty(&self) -> (r: bool) ensures r == (self.v@.len() == 0) { unimplemented!() }
    #[verifier::external_body]
    pub fn len(&self) -> (r: usize) ensures r == self.v@.len() { unimplemented!() }
    #[verifier::external_body]
    pub fn get(&self, i: usize) -> (r: Option<&T>) ensures r == (if i < self.v@.len() { Some(&self.v@[i as int]) } else { None }) { unimplemented!() }
}
impl<T> Vec<T> {
    #[verifier::external_body]
    pub fn iter<'a>(&'a self) -> (r: VIter<'a, T>) ensures r.r@ == refs(self.v@) { unimplemented!() }
    #[verifier::external_body]
    pub fn shrink_to_fit(&mut self) ensures final(self).v@ == old(self).v@ { unimplemented!() }
}
/// what an iterator of indices yields, in order
pub trait VxItems { spec fn items(&self) -> Seq<usize>; }
pub open spec fn range_seq(a: int, b: int) -> Seq<usize> { Seq::new((if b >= a { b - a } else { 0 }) as nat, |i: int| (a + i) as usize) }
impl VxItems for Range<usize> { open spec fn items(&self) -> Seq<usize> { range_seq(self.start as int, self.end as int) } }
impl VxItems for VMapped<usize> { open spec fn items(&self) -> Seq<usize> { self.r@ } }
/// `either::Either` (the crate's enum; as an iterator it yields what the side it holds yields)
pub enum Either<L, R> { Left(L), Right(R) }
impl<L: VxItems, R: VxItems> VxItems for Either<L, R> {
    open spec fn items(&self) -> Seq<usize> { match self { Either::Left(l) => l.items(), Either::Right(r) => r.items() } }
}
/// R-rangeiter target: `(a..b)` used as an iterator
pub struct VRange { pub a: usize, pub b: usize }
pub fn vx_range(a: usize, b: usize) -> (r: VRange) ensures r.a == a, r.b == b { VRange { a, b } }
pub struct VChained { pub s: Ghost<Seq<usize>> }
impl VRange {
    #[verifier::external_body]
    pub fn chain<I: VxItems>(self, o: I) -> (r: VChained) ensures r.s@ == range_seq(self.a as int, self.b as int) + o.items() { unimplemented!() }
}
impl VChained {
    #[verifier::external_body]
    pub fn collect(self) -> (r: Vec<usize>) ensures r.v@ == self.s@ { unimplemented!() }
}
impl Vec<usize> {
    #[verifier::external_body]
    pub fn extend<I: VxItems>(&mut self, it: I) ensures final(self).v@ == old(self).v@ + it.items() { unimplemented!() }
}
impl<T> Index<usize> for Vec<T> {
    type Output = T;
    #[verifier::external_body]
    fn index(&self, i: usize) -> (o: &T) ensures *o == self.v@[i as int] { unimplemented!() }
}
impl<T> IndexSpecImpl<usize> for Vec<T> { open spec fn index_req(&self, i: &usize) -> bool { *i < self.v@.len() } }
impl<T> Index<Range<usize>> for Vec<T> {
    type Output = VSlice<T>;
    #[verifier::external_body]
    fn index(&self, r: Range<usize>) -> (o: &VSlice<T>) ensures o.v@ == self.v@.subrange(r.start as int, r.end as int) { unimplemented!() }
}
impl<T> IndexSpecImpl<Range<usize>> for Vec<T> { open spec fn index_req(&self, r: &Range<usize>) -> bool { r.start <= r.end <= self.v@.len() } }
impl<T> Index<RangeFrom<usize>> for Vec<T> {
    type Output = VSlice<T>;
    #[verifier::external_body]
    fn index(&self, r: RangeFrom<usize>) -> (o: &VSlice<T>) ensures o.v@ == self.v@.subrange(r.start as int, self.v@.len() as int) { unimplemented!() }
}
impl<T> IndexSpecImpl<RangeFrom<usize>> for Vec<T> { open spec fn index_req(&self, r: &RangeFrom<usize>) -> bool { r.start <= self.v@.len() } }
impl<T> VSlice<T> {
    #[verifier::external_body]
    pub fn iter<'a>(&'a self) -> (r: VIter<'a, T>) ensures r.r@ == refs(self.v@) { unimplemented!() }
}
impl<'a, T> VIter<'a, T> {
    #[verifier::external_body]
    pub fn map<U, F: Fn(&'a T) -> U>(self, f: F) -> (r: VMapped<U>)
        requires forall|i: int| 0 <= i < self.r@.len() ==> call_requires(f, (#[trigger] self.r@[i],)),
        ensures r.r@.len() == self.r@.len(), forall|i: int| 0 <= i < self.r@.len() ==> call_ensures(f, (self.r@[i],), #[trigger] r.r@[i]),
    { unimplemented!() }
}
impl<U> VMapped<U> {
    #[verifier::external_body]
    pub fn collect(self) -> (r: Vec<U>) ensures r.v@ == self.r@ { unimplemented!() }
}

/// R-ppoint target: `s.partition_point(|x| *x < k)` on a sorted vector is the number of elements < k
pub trait VxPartitionPoint { fn vx_partition_point_lt(&self, k: usize) -> usize; }
impl VxPartitionPoint for Vec<usize> {
    #[verifier::external_body]
    fn vx_partition_point_lt(&self, k: usize) -> (r: usize)
        ensures
            (forall|i: int, j: int| 0 <= i < j < self.v@.len() ==> self.v@[i] <= self.v@[j]) ==>
                r <= self.v@.len() && (forall|i: int| 0 <= i < self.v@.len() ==> ((#[trigger] self.v@[i]) < k) == (i < r))
                && (r > 0 ==> self.v@[r - 1] < k) && (r < self.v@.len() ==> self.v@[r as int] >= k),
    { unimplemented!() }
}

// @@INCLUDE stdx@@

// @@EXTRACTED@@

impl FencedString {
    /// representation invariant
    pub closed spec fn wf(&self) -> bool {
        let b = self.buffer.b@; let t = self.char_starts.v@;
        if t.len() == 0 { ascii(b) } else { t.len() == nchars(b) && forall|i: int| 0 <= i < t.len() ==> #[trigger] t[i] == off(b, i) }
    }
    pub closed spec fn bytes_spec(&self) -> Seq<u8> { self.buffer.b@ }
    pub open spec fn nchars_spec(&self) -> nat { nchars(self.bytes_spec()) }
    pub closed spec fn is_default(&self) -> bool { self.buffer.b@ == Seq::<u8>::empty() && self.char_starts.v@.len() == 0 }
    /// the table is only kept when the text needs it ("empty iff the string is pure ASCII", at construction)
    pub closed spec fn compact(&self) -> bool { ascii(self.buffer.b@) ==> self.char_starts.v@.len() == 0 }
}
/// (the real type derives Clone: structural)
impl Clone for FencedString {
    #[verifier::external_body]
    fn clone(&self) -> (r: FencedString) ensures r == *self { unimplemented!() }
}
/// (the real type derives Default: both fields empty)
impl Default for FencedString {
    #[verifier::external_body]
    fn default() -> (r: FencedString) ensures r.is_default() { unimplemented!() }
}

} // verus!
fn main() {}
