// V-fstr prelude (C18, "strings are code-point sequences"): FencedString::{len, substr, substring}
// (src/util/fenced_string.rs), real text; `struct FencedString` is the real definition.  `String` and `Vec` are
// the MODEL types below (same names, so that the source text is unchanged): a string is its byte sequence, a
// vector its element sequence; slicing, `to_string`, `iter().map(..).collect()` by their documented meaning.
//
// UTF-8 is abstracted by three uninterpreted functions with the facts the dual representation relies on
// (axioms, trusted): `nchars(b)` the number of code points of the byte string b, `off(b, i)` the byte offset of
// code point i (0 at 0, strictly increasing, `b.len()` at `nchars(b)`), slicing at two offsets gives the
// encoding of the code points in between, and for pure ASCII text bytes are code points.
//
// Representation invariant `wf`: an empty table means the text is pure ASCII; a non-empty table has one entry
// per code point, entry i being `off(buffer, i)`.
//
// Contract: `len` is the number of code points; `substr(start, end)` / `substring(start, end)`, for
// `start <= len` (callers must guard: that is where out-of-range requests become error values), denote the
// code points [start, min(end, len)) -- `substring` moreover returns a well-formed string.
#![allow(unused_imports, dead_code, unused_variables)]
use vstd::prelude::*;
use vstd::std_specs::core::IndexSpecImpl;
use core::ops::{Index, Range, RangeFrom};
use std::mem::size_of;

verus! {

// ------------------------------------------------------------------ UTF-8, abstractly
pub uninterp spec fn nchars(b: Seq<u8>) -> nat;
pub uninterp spec fn off(b: Seq<u8>, i: int) -> int;
pub uninterp spec fn ascii(b: Seq<u8>) -> bool;
/// the code points [i, j) of b, as bytes
pub open spec fn cps(b: Seq<u8>, i: int, j: int) -> Seq<u8> { b.subrange(off(b, i), off(b, j)) }
pub broadcast axiom fn axiom_off(b: Seq<u8>, i: int, j: int)
    requires 0 <= i <= j <= nchars(b),
    ensures 0 <= #[trigger] off(b, i) <= #[trigger] off(b, j) <= b.len(), i < j ==> off(b, i) < off(b, j),
        off(b, 0) == 0, off(b, nchars(b) as int) == b.len();
pub broadcast axiom fn axiom_ascii_len(b: Seq<u8>)
    requires ascii(b),
    ensures #[trigger] nchars(b) == b.len();
pub broadcast axiom fn axiom_ascii(b: Seq<u8>, i: int)
    requires ascii(b), 0 <= i <= b.len(),
    ensures #[trigger] off(b, i) == i;
pub broadcast axiom fn axiom_empty(b: Seq<u8>)
    requires b.len() == 0,
    ensures #[trigger] ascii(b), nchars(b) == 0;
pub broadcast group group_utf8 { axiom_off, axiom_ascii_len, axiom_ascii, axiom_piece, axiom_empty }
/// a piece cut at code-point boundaries: its code points, offsets and ASCII-ness
pub broadcast axiom fn axiom_piece(b: Seq<u8>, i: int, j: int, k: int)
    requires 0 <= i <= j <= nchars(b), 0 <= k <= j - i,
    ensures nchars(cps(b, i, j)) == j - i, #[trigger] off(cps(b, i, j), k) == off(b, i + k) - off(b, i),
        ascii(b) ==> ascii(cps(b, i, j));

// ------------------------------------------------------------------ String, Vec (models)
pub struct String { pub b: Ghost<Seq<u8>> }
/// `str` (the model type shadows the primitive's name, so that `&str` in the source text is this type)
#[allow(non_camel_case_types)]
pub struct str { pub b: Ghost<Seq<u8>> }
impl String {
    #[verifier::external_body]
    pub fn len(&self) -> (r: usize) ensures r == self.b@.len() { unimplemented!() }
}
impl str {
    #[verifier::external_body]
    pub fn to_string(&self) -> (r: String) ensures r.b@ == self.b@ { unimplemented!() }
}
impl Index<Range<usize>> for String {
    type Output = str;
    #[verifier::external_body]
    fn index(&self, r: Range<usize>) -> (o: &str) ensures o.b@ == self.b@.subrange(r.start as int, r.end as int) { unimplemented!() }
}
impl IndexSpecImpl<Range<usize>> for String {
    /// (std panics outside these bounds -- and off a char boundary, which the offsets below never are)
    open spec fn index_req(&self, r: &Range<usize>) -> bool { r.start <= r.end <= self.b@.len() }
}
impl Index<RangeFrom<usize>> for String {
    type Output = str;
    #[verifier::external_body]
    fn index(&self, r: RangeFrom<usize>) -> (o: &str) ensures o.b@ == self.b@.subrange(r.start as int, self.b@.len() as int) { unimplemented!() }
}
impl IndexSpecImpl<RangeFrom<usize>> for String {
    open spec fn index_req(&self, r: &RangeFrom<usize>) -> bool { r.start <= self.b@.len() }
}
pub struct Vec<T> { pub v: Ghost<Seq<T>> }
pub struct VSlice<T> { pub v: Ghost<Seq<T>> }
pub struct VIter<'a, T> { pub r: Ghost<Seq<&'a T>> }
pub struct VMapped<U> { pub r: Ghost<Seq<U>> }
pub open spec fn refs<'a, T>(s: Seq<T>) -> Seq<&'a T>;
pub broadcast axiom fn axiom_refs<'a, T>(s: Seq<T>)
    ensures (#[trigger] refs::<T>(s)).len() == s.len(), forall|i: int| 0 <= i < s.len() ==> *(#[trigger] refs::<T>(s)[i]) == s[i];
impl<T> Vec<T> {
    #[verifier::external_body]
    pub fn new() -> (r: Vec<T>) ensures r.v@.len() == 0 { unimplemented!() }
    #[verifier::external_body]
    pub fn is_empty(&self) -> (r: bool) ensures r == (self.v@.len() == 0) { unimplemented!() }
    #[verifier::external_body]
    pub fn len(&self) -> (r: usize) ensures r == self.v@.len() { unimplemented!() }
    #[verifier::external_body]
    pub fn get(&self, i: usize) -> (r: Option<&T>) ensures r == (if i < self.v@.len() { Some(&self.v@[i as int]) } else { None }) { unimplemented!() }
}
impl<T> Index<usize> for Vec<T> {
    type Output = T;
    #[verifier::external_body]
    fn index(&self, i: usize) -> (o: &T) ensures *o == self.v@[i as int] { unimplemented!() }
}
impl<T> IndexSpecImpl<usize> for Vec<T> { open spec fn index_req(&self, i: &usize) -> bool { *i < self.v@.len() } }
impl<T> Index<Range<usize>> for Vec<T> {
    type Output = VSlice<T>;
    #[verifier::external_body]
    fn index(&self, r: Range<usize>) -> (o: &VSlice<T>) ensures o.v@ == self.v@.subrange(r.start as int, r.end as int) { unimplemented!() }
}
impl<T> IndexSpecImpl<Range<usize>> for Vec<T> { open spec fn index_req(&self, r: &Range<usize>) -> bool { r.start <= r.end <= self.v@.len() } }
impl<T> Index<RangeFrom<usize>> for Vec<T> {
    type Output = VSlice<T>;
    #[verifier::external_body]
    fn index(&self, r: RangeFrom<usize>) -> (o: &VSlice<T>) ensures o.v@ == self.v@.subrange(r.start as int, self.v@.len() as int) { unimplemented!() }
}
impl<T> IndexSpecImpl<RangeFrom<usize>> for Vec<T> { open spec fn index_req(&self, r: &RangeFrom<usize>) -> bool { r.start <= self.v@.len() } }
impl<T> VSlice<T> {
    #[verifier::external_body]
    pub fn iter<'a>(&'a self) -> (r: VIter<'a, T>) ensures r.r@ == refs(self.v@) { unimplemented!() }
}
impl<'a, T> VIter<'a, T> {
    #[verifier::external_body]
    pub fn map<U, F: Fn(&'a T) -> U>(self, f: F) -> (r: VMapped<U>)
        requires forall|i: int| 0 <= i < self.r@.len() ==> call_requires(f, (#[trigger] self.r@[i],)),
        ensures r.r@.len() == self.r@.len(), forall|i: int| 0 <= i < self.r@.len() ==> call_ensures(f, (self.r@[i],), #[trigger] r.r@[i]),
    { unimplemented!() }
}
impl<U> VMapped<U> {
    #[verifier::external_body]
    pub fn collect(self) -> (r: Vec<U>) ensures r.v@ == self.r@ { unimplemented!() }
}

/// R-ppoint target: `s.partition_point(|x| *x < k)` on a sorted vector is the number of elements < k
pub trait VxPartitionPoint { fn vx_partition_point_lt(&self, k: usize) -> usize; }
impl VxPartitionPoint for Vec<usize> {
    #[verifier::external_body]
    fn vx_partition_point_lt(&self, k: usize) -> (r: usize)
        ensures
            (forall|i: int, j: int| 0 <= i < j < self.v@.len() ==> self.v@[i] <= self.v@[j]) ==>
                r <= self.v@.len() && (forall|i: int| 0 <= i < self.v@.len() ==> ((#[trigger] self.v@[i]) < k) == (i < r))
                && (r > 0 ==> self.v@[r - 1] < k) && (r < self.v@.len() ==> self.v@[r as int] >= k),
    { unimplemented!() }
}

// @@INCLUDE stdx@@

// @@EXTRACTED@@

impl FencedString {
    /// representation invariant
    pub closed spec fn wf(&self) -> bool {
        let b = self.buffer.b@; let t = self.char_starts.v@;
        if t.len() == 0 { ascii(b) } else { t.len() == nchars(b) && forall|i: int| 0 <= i < t.len() ==> #[trigger] t[i] == off(b, i) }
    }
    pub closed spec fn bytes_spec(&self) -> Seq<u8> { self.buffer.b@ }
    pub open spec fn nchars_spec(&self) -> nat { nchars(self.bytes_spec()) }
}

} // verus!
fn main() {}
