// V-sortfn prelude (C19, "sorting ... for every comparator"): the comparator plumbing of XSequence::sorted and
// XSequence::n_largest (src/builtin/sequence.rs), real text: (1) the already-sorted scan of `sorted` (adjacent
// pairs, in order), (2) the `is_less` closure handed to try_sort, (3) the `is_le` closure handed to the heap.
//
// Contract: the scan answers "sorted" exactly when no adjacent pair compares greater (cmp > 0), stopping at
// the first such pair, and hands on the comparator's error value; is_less(a, b) == (cmp(a, b) < 0);
// is_le(a, b) == (cmp(a, b) <= 0) for the descending heap (n_largest), (cmp(a, b) >= 0) for the ascending one.
//
// Assumed: the evaluator as a deterministic function `apply`; cmp answers an Int (type fact); `slice::windows`
// by the finite iterator model.
#![allow(unused_imports, dead_code, unused_variables, unused_mut, unreachable_code)]
use vstd::prelude::*;

verus! {

// @@INCLUDE lazyint@@
pub struct Func { pub id: Ghost<int> }
pub enum XValue { Int(LazyBigint), Bool(bool), Function(Func) }
/// `$crate::xvalue::XValue` as the macro `to_primitive!` names it
pub mod xvalue { pub use super::XValue; }
pub mod xexpr { pub use super::TailedEvalResult; }

pub struct Val { pub value: XValue }            // Rc<ManagedXValue>
pub struct ErrV { pub id: Ghost<int> }          // Rc<ManagedXError>
pub struct RuntimeViolation { pub id: Ghost<int> }
pub type RuntimeResult<T> = Result<T, RuntimeViolation>;
pub type EvaluatedValue = Result<Val, ErrV>;
pub enum TailedEvalResult { Value(EvaluatedValue), TailCall(Vec<EvaluatedValue>) }
impl TailedEvalResult {
    /// panics on a tail call
    #[verifier::external_body]
    pub fn unwrap_value(self) -> (r: EvaluatedValue)
        requires self is Value,
        ensures r == self->Value_0,
    { unimplemented!() }
}
// `__e.into()` inside xraise!: Rc<ManagedXError> into itself
impl ErrV { #[verifier::external_body] pub fn into(self) -> (r: ErrV) ensures r == self { unimplemented!() } }
// impl From<Rc<ManagedXValue>> for TailedEvalResult (xexpr.rs)
impl Val { #[verifier::external_body] pub fn into(self) -> (r: TailedEvalResult) ensures r == TailedEvalResult::Value(Ok(self)) { unimplemented!() } }

impl Clone for Val { #[verifier::external_body] fn clone(&self) -> (r: Val) ensures r == *self { unimplemented!() } }

// ------------------------------------------------------------------ std iterators (model, trusted)
pub trait VxIt: Sized {
    type Item;
    spec fn rest(&self) -> Seq<Self::Item>;
    fn next(&mut self) -> (r: Option<Self::Item>)
        ensures
            old(self).rest().len() == 0 ==> r is None && final(self).rest() == old(self).rest(),
            old(self).rest().len() > 0 ==> r == Some(old(self).rest()[0]) && final(self).rest() == old(self).rest().skip(1);
}
/// core::slice::Iter over the elements of a Vec
pub struct SeqIter<'a, T> { pub r: Ghost<Seq<&'a T>> }
impl<'a, T> VxIt for SeqIter<'a, T> {
    type Item = &'a T;
    open spec fn rest(&self) -> Seq<&'a T> { self.r@ }
    #[verifier::external_body]
    fn next(&mut self) -> (r: Option<&'a T>) { unimplemented!() }
}
pub open spec fn zip_seq<A, B>(a: Seq<A>, b: Seq<B>) -> Seq<(A, B)> {
    Seq::new(if a.len() <= b.len() { a.len() } else { b.len() }, |i: int| (a[i], b[i]))
}
/// core::iter::Zip: pairs up to the shorter side
pub struct Zip<A, B> { pub a: A, pub b: B }
impl<A: VxIt, B: VxIt> VxIt for Zip<A, B> {
    type Item = (A::Item, B::Item);
    open spec fn rest(&self) -> Seq<(A::Item, B::Item)> { zip_seq(self.a.rest(), self.b.rest()) }
    #[verifier::external_body]
    fn next(&mut self) -> (r: Option<(A::Item, B::Item)>) { unimplemented!() }
}
impl<'a, T> SeqIter<'a, T> {
    pub fn zip<B: VxIt>(self, b: B) -> (r: Zip<SeqIter<'a, T>, B>) ensures r.a == self, r.b == b { Zip { a: self, b } }
}
impl<A: VxIt, B: VxIt> Zip<A, B> {
    pub fn zip<C: VxIt>(self, c: C) -> (r: Zip<Zip<A, B>, C>) ensures r.a == self, r.b == c { Zip { a: self, b: c } }
}
/// the collected elements (`Vec<Rc<ManagedXValue>>`) with `windows`
pub struct Arr { pub v: Vec<Val> }
/// core::slice::Windows of size 2: the adjacent pairs, in order
pub struct Win2<'a> { pub r: Ghost<Seq<&'a [Val]>> }
impl<'a> VxIt for Win2<'a> {
    type Item = &'a [Val];
    open spec fn rest(&self) -> Seq<&'a [Val]> { self.r@ }
    #[verifier::external_body]
    fn next(&mut self) -> (r: Option<&'a [Val]>) { unimplemented!() }
}
impl Arr {
    #[verifier::external_body]
    pub fn windows<'a>(&'a self, size: usize) -> (r: Win2<'a>)
        requires size == 2,
        ensures
            r.r@.len() == (if self.v@.len() >= 2 { self.v@.len() - 1 } else { 0 }),
            forall|i: int| 0 <= i < r.r@.len() ==> (#[trigger] r.r@[i])@.len() == 2 && r.r@[i]@[0] == self.v@[i] && r.r@[i]@[1] == self.v@[i + 1],
    { unimplemented!() }
}
pub struct Rt;
impl Rt { #[verifier::external_body] pub fn clone(&self) -> (r: Rt) { unimplemented!() } }
pub type XResult<X> = RuntimeResult<Result<X, ErrV>>;
pub uninterp spec fn apply(f: Func, args: Seq<EvaluatedValue>) -> EvaluatedValue;
pub struct Ns;
impl Ns {
    #[verifier::external_body]
    pub fn eval_func_with_values(&self, func: &Func, args: Vec<EvaluatedValue>, rt: Rt, tail_available: bool) -> (r: RuntimeResult<TailedEvalResult>)
        ensures
            !tail_available ==> (r matches Ok(t) ==> t == TailedEvalResult::Value(apply(*func, args@))),
    { unimplemented!() }
}
#[verifier::external_body]
pub fn vx_panic<T>() -> (r: T)
    requires false,
{ unimplemented!() }
macro_rules! panic { ($($t:tt)*) => { vx_panic() } }
pub mod ext {
    use vstd::prelude::*;
    use super::*;
    pub broadcast proof fn lemma_apply2(f: Func, s: Seq<EvaluatedValue>)
        requires s.len() == 2,
        ensures #[trigger] apply(f, s) == apply(f, seq![s[0], s[1]]),
    { assert(s =~= seq![s[0], s[1]]); }
}

// ------------------------------------------------------------------ specification vocabulary
/// cmp(a, b) as the comparator answers it
pub open spec fn cmp_ans(f: Func, a: Val, b: Val) -> EvaluatedValue { apply(f, seq![Ok(a), Ok(b)]) }
pub open spec fn answers_int(f: Func) -> bool {
    forall|s: Seq<EvaluatedValue>| (#[trigger] apply(f, s)) matches Ok(c) ==> c.value is Int
}
/// the pair (v[k], v[k+1]) is in order: the comparator does not answer "greater"
pub open spec fn in_order(f: Func, v: Seq<Val>, k: int) -> bool {
    cmp_ans(f, v[k], v[k + 1]) matches Ok(c) && c.value->Int_0.val() <= 0
}

// @@INCLUDE stdx@@

// @@EXTRACTED@@

} // verus!
fn main() {}
