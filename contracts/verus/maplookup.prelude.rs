// V-maplookup prelude (C17, "lookup"): the natives `lookup` and `get` (with a default) of mappings
// (src/builtin/mapping.rs), real text from the call of `locate` to the end of the closure; real `KeyLocation::found`;
// the struct, `KeyLocation` and the bucket alias are the real definitions (R-self as in V-mapupd); `locate` / `get` are
// used through the contracts V-locate / V-mapupd prove.
//
// Contract: with the location `locate` answers -- Found((h, i)): `lookup` answers some(the value stored at (h, i)) and
// `get` that value (the default is NOT evaluated); otherwise `lookup` answers none() and `get` what the default
// evaluates to (value, error value or violation); an error value / violation of `locate` is the result.
//
// Assumed: the evaluator as deterministic functions `apply` / `ev`; hash answers an Int, eq a Bool (C01).
#![allow(unused_imports, dead_code, unused_variables, unused_mut, unreachable_code)]
use vstd::prelude::*;
use vstd::std_specs::convert::*;
use vstd::std_specs::core::IndexSpecImpl;
use core::ops::Index;
use std::mem::size_of;

verus! {

global size_of usize == 8;

// @@INCLUDE lazyint@@
pub struct Func { pub id: Ghost<int> }
pub enum XValue { Int(LazyBigint), Bool(bool), Function(Func), Native(Box<XOptional>) }
/// builtin/optional.rs
pub struct XOptional { pub value: Option<Val> }
pub mod xvalue { pub use super::XValue; }
pub mod xexpr { pub use super::TailedEvalResult; }
/// Rc<ManagedXValue>
pub struct Val { pub value: XValue }
impl Clone for Val { #[verifier::external_body] fn clone(&self) -> (r: Self) ensures r == *self { unimplemented!() } }
pub struct ErrV { pub id: Ghost<int> }
pub struct RuntimeViolation { pub id: Ghost<int> }
pub type RuntimeResult<X> = Result<X, RuntimeViolation>;
pub type EvaluatedValue = Result<Val, ErrV>;
pub type XResult<X> = RuntimeResult<Result<X, ErrV>>;
pub enum TailedEvalResult { Value(EvaluatedValue), TailCall(Vec<EvaluatedValue>) }
impl ErrV { #[verifier::external_body] pub fn into(self) -> (r: ErrV) ensures r == self { unimplemented!() } }
impl Val {
    #[verifier::external_body]
    pub fn into(self) -> (r: TailedEvalResult) ensures r == TailedEvalResult::Value(Ok(self)) { unimplemented!() }
}
pub struct Rt;
impl Rt {
    #[verifier::external_body] pub fn clone(&self) -> (r: Rt) { unimplemented!() }
    /// pre-flight allocation check (C09)
    #[verifier::external_body] pub fn can_allocate(&self, n: usize) -> (r: RuntimeResult<()>) { unimplemented!() }
}
/// an argument expression of a native call, and the evaluator on it (deterministic)
pub struct XExpr { pub id: Ghost<int> }
pub uninterp spec fn ev(e: XExpr) -> RuntimeResult<EvaluatedValue>;
/// (R-state: `st` is the ghost log of the argument expressions evaluated so far)
#[verifier::external_body]
pub fn eval(e: &XExpr, ns: &Ns, rt: &Rt, st: &mut Ghost<Seq<XExpr>>) -> (r: RuntimeResult<EvaluatedValue>)
    ensures r == ev(*e), final(st)@ == old(st)@.push(*e),
{ unimplemented!() }
#[verifier::external_body]
pub fn vx_panic<X>() -> (r: X) requires false { unimplemented!() }
macro_rules! unreachable { () => { vx_panic() } }
pub struct Ns;
pub struct ManagedXValue;
impl ManagedXValue {
    #[verifier::external_body]
    pub fn new(value: XValue, rt: Rt) -> (r: RuntimeResult<Val>)
        ensures r matches Ok(m) ==> m.value == value,
    { unimplemented!() }
}
pub uninterp spec fn apply(f: Func, args: Seq<EvaluatedValue>) -> EvaluatedValue;

// ------------------------------------------------------------------ std::collections::HashMap (model)
pub struct HashMap<K, V> { pub m: Ghost<Map<K, V>> }
impl<K, V> HashMap<K, V> {
    pub open spec fn view(&self) -> Map<K, V> { self.m@ }
    #[verifier::external_body]
    pub fn get_mut(&mut self, k: &K) -> (r: Option<&mut V>)
        ensures
            !old(self)@.contains_key(*k) ==> r is None && final(self)@ == old(self)@,
            old(self)@.contains_key(*k) ==> r is Some && *(r->Some_0) == old(self)@[*k] && final(self)@ == old(self)@.insert(*k, *final(r->Some_0)),
    { unimplemented!() }
    /// (the previous value, if any, is answered and dropped by the caller)
    #[verifier::external_body]
    pub fn insert(&mut self, k: K, v: V) -> (r: Option<V>)
        ensures final(self)@ == old(self)@.insert(k, v), r == (if old(self)@.contains_key(k) { Some(old(self)@[k]) } else { None::<V> }),
    { unimplemented!() }
    #[verifier::external_body]
    pub fn clone(&self) -> (r: Self) where V: Clone ensures r@ == self@ { unimplemented!() }
}
impl<K, V> HashMap<K, V> {
    #[verifier::external_body]
    pub fn get(&self, k: &K) -> (r: Option<&V>)
        ensures r == (if self@.contains_key(*k) { Some(&self@[*k]) } else { None }),
    { unimplemented!() }
    /// R-entry target: `self.entry(k).or_insert(v)`
    #[verifier::external_body]
    pub fn vx_entry_or_insert(&mut self, k: K, v: V) -> (r: &mut V)
        ensures
            old(self)@.contains_key(k) ==> *r == old(self)@[k] && final(self)@ == old(self)@.insert(k, *final(r)),
            !old(self)@.contains_key(k) ==> *r == v && final(self)@ == old(self)@.insert(k, *final(r)),
    { unimplemented!() }
}
/// `map[&k]` (std panics when the key is absent)
impl<'a, K, V> Index<&'a K> for HashMap<K, V> {
    type Output = V;
    #[verifier::external_body]
    fn index(&self, k: &'a K) -> (o: &V) ensures *o == self@[*k] { unimplemented!() }
}
impl<'a, K, V> IndexSpecImpl<&'a K> for HashMap<K, V> { open spec fn index_req(&self, k: &&'a K) -> bool { self@.contains_key(**k) } }
/// `<[T]>::swap` by its documented meaning (panics when an index is out of bounds)
pub assume_specification<T> [<[T]>::swap] (s: &mut [T], a: usize, b: usize)
    requires a < old(s)@.len(), b < old(s)@.len(),
    ensures final(s)@ == old(s)@.update(a as int, old(s)@[b as int]).update(b as int, old(s)@[a as int]);
/// `vec![x]`
pub fn vx_vec1<X>(x: X) -> (r: Vec<X>) ensures r@ == seq![x] { let mut v = Vec::new(); v.push(x); v }
macro_rules! vec { ($x:expr) => { vx_vec1($x) } }


// ------------------------------------------------------------------ specification vocabulary
pub type Table<V> = Map<u64, Vec<(Val, V)>>;
pub open spec fn keys<V>(b: Seq<(Val, V)>) -> Seq<Val> { Seq::new(b.len(), |i: int| b[i].0) }
pub open spec fn hash_ans(hf: XValue, key: Val) -> EvaluatedValue { apply(hf->Function_0, seq![Ok(key)]) }
pub open spec fn eq_ans(ef: XValue, key: Val, k: Val) -> EvaluatedValue { apply(ef->Function_0, seq![Ok(key), Ok(k)]) }
pub open spec fn is_true(a: EvaluatedValue) -> bool { a matches Ok(v) && v.value == XValue::Bool(true) }
pub open spec fn is_false(a: EvaluatedValue) -> bool { a matches Ok(v) && v.value == XValue::Bool(false) }
pub open spec fn hashes_to(hf: XValue, x: Val, h: u64) -> bool {
    hash_ans(hf, x) matches Ok(hv) && hv.value is Int && hv.value->Int_0.val() == h
}
pub open spec fn fn_answers_int(f: XValue) -> bool {
    f is Function && forall|s: Seq<EvaluatedValue>| (#[trigger] apply(f->Function_0, s)) matches Ok(c) ==> c.value is Int
}
pub open spec fn fn_answers_bool(f: XValue) -> bool {
    f is Function && forall|s: Seq<EvaluatedValue>| (#[trigger] apply(f->Function_0, s)) matches Ok(c) ==> c.value is Bool
}
/// the sum of the bucket lengths of a finite table
pub uninterp spec fn total<V>(m: Table<V>) -> nat;
pub broadcast axiom fn axiom_total_insert<V>(m: Table<V>, h: u64, b: Vec<(Val, V)>)
    ensures #[trigger] total(m.insert(h, b)) == total(m) - (if m.contains_key(h) { m[h]@.len() } else { 0 }) + b@.len();
/// the location is one `locate` can answer for this table
spec fn loc_valid<V>(m: Table<V>, loc: KeyLocation) -> bool {
    match loc {
        KeyLocation::Found((h, i)) => m.contains_key(h) && i < m[h]@.len(),
        KeyLocation::Missing(h) => m.contains_key(h),
        KeyLocation::Vacant(h) => !m.contains_key(h),
    }
}
/// the table after putting value v for key k at that location
spec fn put_at<V>(m: Table<V>, loc: KeyLocation, k: Val, v: V, b2: Vec<(Val, V)>) -> bool {
    match loc {
        KeyLocation::Found((h, i)) => b2@ == m[h]@.update(i as int, (m[h]@[i as int].0, v)),
        KeyLocation::Missing(h) => b2@ == m[h]@.push((k, v)),
        KeyLocation::Vacant(h) => b2@ == seq![(k, v)],
    }
}
/// table m1 / counter len1 are m0 / len0 after storing v for k at the location
spec fn stored<V>(m0: Table<V>, len0: usize, m1: Table<V>, len1: usize, loc: KeyLocation, k: Val, v: V) -> bool {
    let h = loc_hash(loc);
    &&& m1.contains_key(h) && m1 == m0.insert(h, m1[h])
    &&& put_at(m0, loc, k, v, m1[h])
    &&& len1 == len0 + (if loc is Found { 0int } else { 1int })
}
spec fn loc_hash(loc: KeyLocation) -> u64 {
    match loc { KeyLocation::Found((h, _)) => h, KeyLocation::Missing(h) => h, KeyLocation::Vacant(h) => h }
}
/// representation invariant of a mapping
spec fn rep_ok<V>(s: XMapping<V>) -> bool {
    &&& s.len == total(s.inner@)
    &&& forall|h: u64, i: int| s.inner@.contains_key(h) && 0 <= i < s.inner@[h]@.len() ==> hashes_to(s.hash_func.value, (#[trigger] s.inner@[h]@[i]).0, h)
}
/// eq answers false for each of the first n keys
#[verifier::opaque]
pub open spec fn all_false(ef: XValue, key: Val, ks: Seq<Val>, n: int) -> bool {
    forall|j: int| 0 <= j < n ==> is_false(#[trigger] eq_ans(ef, key, ks[j]))
}
/// the outcome of scanning the keys `ks` of the bucket for hash `h` (V-locate's contract; its inner quantifier
/// "eq answers false for every earlier key" is named `all_false` here, and kept opaque where it is not needed)
spec fn scan_result(r: XResult<KeyLocation>, ef: XValue, key: Val, ks: Seq<Val>, h: u64) -> bool {
    r matches Ok(x) ==> {
        &&& all_false(ef, key, ks, ks.len() as int) ==> x == Ok::<KeyLocation, ErrV>(KeyLocation::Missing(h))
        &&& forall|k: int| 0 <= k < ks.len() && !is_false(#[trigger] eq_ans(ef, key, ks[k])) && all_false(ef, key, ks, k)
            ==> match eq_ans(ef, key, ks[k]) {
                Err(e) => x == Err::<KeyLocation, ErrV>(e),
                Ok(_) => x == Ok::<KeyLocation, ErrV>(KeyLocation::Found((h, k as usize))),
            }
    }
}
/// V-locate's postcondition of `XMapping::locate`
spec fn locate_post<V>(s: XMapping<V>, key: Val, r: XResult<KeyLocation>) -> bool {
    r matches Ok(x) ==> match hash_ans(s.hash_func.value, key) {
        Err(e) => x == Err::<KeyLocation, ErrV>(e),
        Ok(hv) => {
            let hi = hv.value->Int_0.val();
            if !(0 <= hi <= u64::MAX) { x is Err } else {
                let h = hi as u64;
                &&& !s.inner@.contains_key(h) ==> x == Ok::<KeyLocation, ErrV>(KeyLocation::Vacant(h))
                &&& s.inner@.contains_key(h) ==> scan_result(r, s.eq_func.value, key, keys(s.inner@[h]@), h)
            }
        },
    }
}
impl<V> XMapping<V> {
    /// `XMapping::locate`, by the contract V-locate proves of the real method
    #[verifier::external_body]
    fn locate(&self, key: &Val, ns: &Ns, rt: Rt) -> (r: XResult<KeyLocation>)
        requires fn_answers_int(self.hash_func.value), fn_answers_bool(self.eq_func.value),
        ensures locate_post(*self, *key, r),
    { unimplemented!() }
}

/// xexpr.rs: `impl From<EvaluatedValue> for TailedEvalResult` (the real impl is extracted below and checked against this)
impl FromSpecImpl<EvaluatedValue> for TailedEvalResult {
    open spec fn obeys_from_spec() -> bool { true }
    open spec fn from_spec(v: EvaluatedValue) -> Self { TailedEvalResult::Value(v) }
}
impl<V> XMapping<V> {
    /// `XMapping::get`, by the contract V-mapupd proves of the real method
    #[verifier::external_body]
    fn get(&self, coordinates: (u64, usize)) -> (r: &V)
        requires self.inner@.contains_key(coordinates.0), coordinates.1 < self.inner@[coordinates.0]@.len(),
        ensures *r == self.inner@[coordinates.0]@[coordinates.1 as int].1,
    { unimplemented!() }
}
/// a clean answer of locate is a valid location
broadcast proof fn lemma_locate_valid<V>(s: XMapping<V>, x: Val, loc: KeyLocation)
    requires
        fn_answers_int(s.hash_func.value), fn_answers_bool(s.eq_func.value),
        #[trigger] locate_post(s, x, Ok::<Result<KeyLocation, ErrV>, RuntimeViolation>(Ok(loc))),
    ensures loc_valid(s.inner@, loc),
{
    let r = Ok::<Result<KeyLocation, ErrV>, RuntimeViolation>(Ok(loc));
    assert(r->Ok_0 == Ok::<KeyLocation, ErrV>(loc));
    assert(hash_ans(s.hash_func.value, x) is Ok);
    let hv = hash_ans(s.hash_func.value, x)->Ok_0;
    assert(hv.value is Int);
    assert(0 <= hv.value->Int_0.val() <= u64::MAX);
    let h = hv.value->Int_0.val() as u64;
    if s.inner@.contains_key(h) {
        let ef = s.eq_func.value;
        let ks = keys(s.inner@[h]@);
        assert(s.inner@[h].len() == ks.len());
        assert(scan_result(r, ef, x, ks, h));
        let k0 = lemma_first(ef, x, ks, ks.len() as int);
        if k0 < ks.len() {
            let a = eq_ans(ef, x, ks[k0]);
            assert(a is Ok ==> a->Ok_0.value is Bool);
        }
    }
}
/// either no key is equal, or there is a first one that is not unequal
pub proof fn lemma_first(ef: XValue, key: Val, ks: Seq<Val>, n: int) -> (k0: int)
    requires 0 <= n <= ks.len(),
    ensures all_false(ef, key, ks, n) ==> k0 == n,
        !all_false(ef, key, ks, n) ==> 0 <= k0 < n && !is_false(eq_ans(ef, key, ks[k0])) && all_false(ef, key, ks, k0),
    decreases n,
{
    reveal(all_false);
    if n == 0 { 0 } else {
        let k1 = lemma_first(ef, key, ks, n - 1);
        if k1 < n - 1 { k1 } else if is_false(eq_ans(ef, key, ks[n - 1])) { n } else { n - 1 }
    }
}

/// locate's postcondition determines its answer: two answers are both error values, or the same location
broadcast proof fn lemma_locate_unique<V>(s: XMapping<V>, x: Val, x1: Result<KeyLocation, ErrV>, x2: Result<KeyLocation, ErrV>)
    requires
        fn_answers_int(s.hash_func.value), fn_answers_bool(s.eq_func.value),
        #[trigger] locate_post(s, x, Ok::<Result<KeyLocation, ErrV>, RuntimeViolation>(x1)),
        #[trigger] locate_post(s, x, Ok::<Result<KeyLocation, ErrV>, RuntimeViolation>(x2)),
    ensures x1 is Ok == x2 is Ok, x1 is Ok ==> x1 == x2,
{
    let r1 = Ok::<Result<KeyLocation, ErrV>, RuntimeViolation>(x1);
    let r2 = Ok::<Result<KeyLocation, ErrV>, RuntimeViolation>(x2);
    assert(r1->Ok_0 == x1 && r2->Ok_0 == x2);
    if hash_ans(s.hash_func.value, x) is Ok {
        let hv = hash_ans(s.hash_func.value, x)->Ok_0;
        if 0 <= hv.value->Int_0.val() <= u64::MAX {
            let h = hv.value->Int_0.val() as u64;
            if s.inner@.contains_key(h) {
                let ef = s.eq_func.value;
                let ks = keys(s.inner@[h]@);
                assert(scan_result(r1, ef, x, ks, h));
                assert(scan_result(r2, ef, x, ks, h));
                let k0 = lemma_first(ef, x, ks, ks.len() as int);
            }
        }
    }
}
/// the key can be found: locate's postcondition admits a Found answer
spec fn findable<V>(s: XMapping<V>, x: Val) -> bool {
    exists|h: u64, i: usize| #[trigger] locate_post(s, x, Ok::<Result<KeyLocation, ErrV>, RuntimeViolation>(Ok(KeyLocation::Found((h, i)))))
}

// @@INCLUDE stdx@@

// @@EXTRACTED@@

} // verus!
fn main() {}
