// V-errh prelude (C06): the documented error handlers (is_error, if_error, get_error in
// src/builtin/generic.rs) may inspect the *error value* of their first argument, but a runtime
// *violation* raised while evaluating an argument must leave the handler as a violation: every call of
// the evaluation helper `eval(e, ns, &rt)` has to be followed by `?`.
//
// The functions after the marker are SKELETONS (R-skel) of the real closure bodies.
#![allow(unused_imports, dead_code, unused_variables, unreachable_code, unused_must_use)]
use vstd::prelude::*;

verus! {

pub struct Viol;

/// `eval(..)?` -- the violation, if any, is propagated by `?`
#[verifier::external_body]
pub fn eval_then_try() -> (r: Result<(), Viol>) { unimplemented!() }

/// `eval(..)` whose RuntimeResult is NOT immediately propagated: the handler could observe, convert or
/// drop a violation
#[verifier::external_body]
pub fn eval_result_inspected()
    requires false,
{ unimplemented!() }

#[verifier::external_body]
pub fn sk_nondet() -> bool { unimplemented!() }
#[verifier::external_body]
pub fn sk_ret() -> Result<(), Viol> { unimplemented!() }

// @@EXTRACTED@@

} // verus!
fn main() {}
