// V-tabhash prelude (C19 "equal values hash equally"; C17 "regardless of internal layout"): the native `hash` of sets
// (src/builtin/set.rs) and the derived `hash` of mappings (src/builtin/mapping.rs), real text of the loops; the structs
// and bucket aliases are the real definitions (R-self as in V-setupd / V-mapupd).
//
// The table is iterated in SOME order (`ents`: the entries as the iterator yields them -- std gives no order); the
// result is the XOR of one contribution per entry, so the order does not matter.  The contract pins the contribution:
// a bucket that holds entries contributes (its hash key + its length) -- and, for mappings, the XOR of the hashes of
// its values --, and an EMPTY bucket (left behind by a removal) contributes NOTHING: two tables that differ only in
// empty buckets denote the same set / mapping, are equal under `==`, and must hash equally.
//
// Assumed: `HashMap::iter` yields each entry once; the evaluator as a deterministic function `apply`; the value hash
// function answers an Int (C01).
#![allow(unused_imports, dead_code, unused_variables, unused_mut, unreachable_code)]
use vstd::prelude::*;

verus! {

// @@INCLUDE lazyint@@
pub struct Func { pub id: Ghost<int> }
pub enum XValue { Int(LazyBigint), Bool(bool), Function(Func) }
pub mod xvalue { pub use super::XValue; }
pub mod xexpr { pub use super::TailedEvalResult; }
/// Rc<ManagedXValue>
pub struct Val { pub value: XValue }
impl Clone for Val { #[verifier::external_body] fn clone(&self) -> (r: Self) ensures r == *self { unimplemented!() } }
pub struct ErrV { pub id: Ghost<int> }
pub struct RuntimeViolation { pub id: Ghost<int> }
pub type RuntimeResult<X> = Result<X, RuntimeViolation>;
pub type EvaluatedValue = Result<Val, ErrV>;
pub enum TailedEvalResult { Value(EvaluatedValue), TailCall(Vec<EvaluatedValue>) }
impl TailedEvalResult {
    #[verifier::external_body]
    pub fn unwrap_value(self) -> (r: EvaluatedValue) requires self is Value, ensures r == self->Value_0 { unimplemented!() }
}
impl ErrV { #[verifier::external_body] pub fn into(self) -> (r: ErrV) ensures r == self { unimplemented!() } }
impl Val {
    #[verifier::external_body]
    pub fn into(self) -> (r: TailedEvalResult) ensures r == TailedEvalResult::Value(Ok(self)) { unimplemented!() }
}
pub struct Rt;
impl Rt { #[verifier::external_body] pub fn clone(&self) -> (r: Rt) { unimplemented!() } }
pub struct Ns;
pub uninterp spec fn apply(f: Func, args: Seq<EvaluatedValue>) -> EvaluatedValue;
impl Ns {
    #[verifier::external_body]
    pub fn eval_func_with_values(&self, func: &Func, args: Vec<EvaluatedValue>, rt: Rt, tail_available: bool) -> (r: RuntimeResult<TailedEvalResult>)
        ensures !tail_available ==> (r matches Ok(t) ==> t == TailedEvalResult::Value(apply(*func, args@))),
    { unimplemented!() }
}
pub struct ManagedXValue;
impl ManagedXValue {
    #[verifier::external_body]
    pub fn new(value: XValue, rt: Rt) -> (r: RuntimeResult<Val>) ensures r matches Ok(m) ==> m.value == value { unimplemented!() }
}
pub struct ManagedXError;
impl ManagedXError {
    #[verifier::external_body]
    pub fn new(error: &str, rt: Rt) -> (r: RuntimeResult<ErrV>) { unimplemented!() }
}
#[verifier::external_body]
pub fn xerr(err: ErrV) -> (r: RuntimeResult<TailedEvalResult>)
    ensures r == Ok::<TailedEvalResult, RuntimeViolation>(TailedEvalResult::Value(Err(err))),
{ unimplemented!() }
#[verifier::external_body]
pub fn vx_panic<X>() -> (r: X) requires false { unimplemented!() }
macro_rules! panic { ($($t:tt)*) => { vx_panic() } }
pub mod ext {
    use vstd::prelude::*;
    use super::*;
    pub broadcast proof fn lemma_apply1(f: Func, s: Seq<EvaluatedValue>)
        requires s.len() == 1,
        ensures #[trigger] apply(f, s) == apply(f, seq![s[0]]),
    { assert(s =~= seq![s[0]]); }
}

// ------------------------------------------------------------------ the table and its iterators (model)
/// std::collections::HashMap<u64, B>: `ents` is the list of entries in the order `iter()` yields them
pub struct HashMap<K, B> { pub ents: Ghost<Seq<(K, B)>> }
pub struct EntIter<'a, K, B> { pub r: Ghost<Seq<(&'a K, &'a B)>> }
impl<K, B> HashMap<K, B> {
    #[verifier::external_body]
    pub fn iter<'a>(&'a self) -> (r: EntIter<'a, K, B>)
        ensures r.r@.len() == self.ents@.len(), forall|i: int| 0 <= i < self.ents@.len() ==> *(#[trigger] r.r@[i]).0 == self.ents@[i].0 && *r.r@[i].1 == self.ents@[i].1,
    { unimplemented!() }
}
impl<'a, K, B> EntIter<'a, K, B> {
    pub open spec fn rest(&self) -> Seq<(&'a K, &'a B)> { self.r@ }
    #[verifier::external_body]
    pub fn next(&mut self) -> (r: Option<(&'a K, &'a B)>)
        ensures
            old(self).rest().len() == 0 ==> r is None && final(self).rest() == old(self).rest(),
            old(self).rest().len() > 0 ==> r == Some(old(self).rest()[0]) && final(self).rest() == old(self).rest().skip(1),
    { unimplemented!() }
}
/// Vec<X> (a bucket) and its iterator
pub struct Vec<X> { pub v: Ghost<Seq<X>> }
impl<X> View for Vec<X> { type V = Seq<X>; open spec fn view(&self) -> Seq<X> { self.v@ } }
#[verifier::external_body]
pub fn vx_vec1<X>(x: X) -> (r: Vec<X>) ensures r@ == seq![x] { unimplemented!() }
macro_rules! vec { ($x:expr) => { vx_vec1($x) } }
pub struct VIter<'a, X> { pub r: Ghost<Seq<&'a X>> }
impl<X> Vec<X> {
    /// (a Vec holds at most isize::MAX bytes)
    #[verifier::external_body]
    pub fn len(&self) -> (r: usize) ensures r == self.v@.len() { unimplemented!() }
    #[verifier::external_body]
    pub fn is_empty(&self) -> (r: bool) ensures r == (self.v@.len() == 0) { unimplemented!() }
    #[verifier::external_body]
    pub fn iter<'a>(&'a self) -> (r: VIter<'a, X>)
        ensures r.r@.len() == self.v@.len(), forall|i: int| 0 <= i < self.v@.len() ==> *(#[trigger] r.r@[i]) == self.v@[i],
    { unimplemented!() }
}
/// core::iter::Enumerate over a bucket iterator
pub struct VEnum<'a, X> { pub r: Ghost<Seq<(usize, &'a X)>> }
impl<'a, X> VEnum<'a, X> {
    pub open spec fn rest(&self) -> Seq<(usize, &'a X)> { self.r@ }
    #[verifier::external_body]
    pub fn next(&mut self) -> (r: Option<(usize, &'a X)>)
        ensures
            old(self).rest().len() == 0 ==> r is None && final(self).rest() == old(self).rest(),
            old(self).rest().len() > 0 ==> r == Some(old(self).rest()[0]) && final(self).rest() == old(self).rest().skip(1),
    { unimplemented!() }
}
impl<'a, X> VIter<'a, X> {
    #[verifier::external_body]
    pub fn enumerate(self) -> (r: VEnum<'a, X>)
        ensures r.r@.len() == self.r@.len(), forall|i: int| 0 <= i < self.r@.len() ==> (#[trigger] r.r@[i]).0 == i && r.r@[i].1 == self.r@[i],
    { unimplemented!() }
    pub open spec fn rest(&self) -> Seq<&'a X> { self.r@ }
    #[verifier::external_body]
    pub fn next(&mut self) -> (r: Option<&'a X>)
        ensures
            old(self).rest().len() == 0 ==> r is None && final(self).rest() == old(self).rest(),
            old(self).rest().len() > 0 ==> r == Some(old(self).rest()[0]) && final(self).rest() == old(self).rest().skip(1),
    { unimplemented!() }
}
pub open spec fn wadd(a: u64, b: u64) -> u64 { ((a + b) % 0x1_0000_0000_0000_0000) as u64 }

// ------------------------------------------------------------------ specification vocabulary
/// what the first n entries of a set's table contribute: an entry with members its key + its size, an EMPTY one nothing
pub open spec fn set_acc(ents: Seq<(u64, Vec<Val>)>, n: int) -> u64
    decreases n
{
    if n <= 0 { 0u64 } else {
        let e = ents[n - 1];
        if e.1.v@.len() == 0 { set_acc(ents, n - 1) } else { set_acc(ents, n - 1) ^ wadd(e.0, e.1.v@.len() as u64) }
    }
}

/// a clean hash answer as a word
pub open spec fn hval(a: EvaluatedValue) -> u64 { a->Ok_0.value->Int_0.val() as u64 }
pub open spec fn hok(a: EvaluatedValue) -> bool { a matches Ok(v) && v.value is Int && 0 <= v.value->Int_0.val() <= u64::MAX }
pub open spec fn fn_answers_int(f: Func) -> bool {
    forall|s: Seq<EvaluatedValue>| (#[trigger] apply(f, s)) matches Ok(c) ==> c.value is Int
}
/// a mapping's bucket that holds entries: its key + its size, then the hashes of its first m values, in the order the code folds them
pub open spec fn entry_acc(start: u64, h: u64, b: Seq<(Val, Val)>, m: int, f: Func) -> u64
    decreases m
{
    if m <= 0 { start ^ wadd(h, b.len() as u64) } else { entry_acc(start, h, b, m - 1, f) ^ hval(apply(f, seq![Ok(b[m - 1].1)])) }
}
/// what the first n entries of a mapping's table contribute; an EMPTY bucket contributes nothing
pub open spec fn map_acc(ents: Seq<(u64, Vec<(Val, Val)>)>, n: int, f: Func) -> u64
    decreases n
{
    if n <= 0 { 0u64 } else {
        let e = ents[n - 1];
        if e.1.v@.len() == 0 { map_acc(ents, n - 1, f) } else { entry_acc(map_acc(ents, n - 1, f), e.0, e.1.v@, e.1.v@.len() as int, f) }
    }
}

// @@INCLUDE stdx@@

// @@EXTRACTED@@

} // verus!
fn main() {}
