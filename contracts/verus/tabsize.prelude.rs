// V-tabsize prelude (C09, "the accounted size of a value"): `dyn_size` of mappings and sets (src/builtin/mapping.rs,
// src/builtin/set.rs), real text of the method bodies; the structs and bucket aliases are the real definitions
// (R-self: `Rc<ManagedXValue<W, R, T>>` -> `Val`, the type parameters W, R, T dropped).
//
// Contract: the size reported is one bucket header per bucket plus one key word (and one value slot) per entry for a
// mapping, one word per entry and per bucket plus two for a set -- at least one word per entry held -- and the
// arithmetic cannot overflow for any table that fits in memory.
//
// Assumed: `HashMap::len` is the number of buckets; `len` and the number of buckets are at most usize::MAX / 64 (every
// entry and every bucket occupies memory); usize is 64-bit.
#![allow(unused_imports, dead_code, unused_variables, unused_mut, unreachable_code)]
use vstd::prelude::*;
use std::mem::size_of;

verus! {

global size_of usize == 8;
/// Rc<ManagedXValue>: one word
pub struct Val { pub p: usize }
/// Vec<_>: pointer, capacity, length
pub struct Vec<X> { pub ptr: usize, pub cap: usize, pub len: usize, pub v: Ghost<Seq<X>> }
// layout facts (trusted): an Rc is one word, a Vec header three
global size_of Val == 8;
pub struct HashMap<K, V> { pub m: Ghost<Map<K, V>> }
impl<K, V> HashMap<K, V> {
    #[verifier::external_body]
    pub fn len(&self) -> (r: usize) ensures r == self.m@.dom().len(), self.m@.dom().finite() { unimplemented!() }
}

// @@EXTRACTED@@

global size_of MappingBucket<Val> == 24;

} // verus!
fn main() {}
