// V-relop prelude (C19, "ne/lt/le/gt/ge agree with eq and cmp"): the run-time closures of the derived
// relational operators in src/builtin/generic.rs (add_generic_dyn_ne, add_generic_dyn_cmp_{lt,gt,ge,le}).
// Each closure is the real text; `to_primitive!` and `xraise!` are the real macro definitions of
// src/builtin/core.rs.  Contract of each: both arguments are evaluated, the `eq` / `cmp` overload found at
// compile time is applied to (a0, a1) in that order, an error value it answers is the result, and
// otherwise the result is the boolean the documentation prescribes for the sign of `cmp` / the negation
// of `eq`.
//
// Assumed (C01's territory, stated as preconditions): the captured callee is a function value, `cmp`
// answers an Int and `eq` a Bool -- what `get_func(.., &X_INT / &X_BOOL)` selects at compile time.  The
// evaluator is abstracted as a deterministic function of the expression (`ev`) and of the callee and its
// arguments (`apply`).
#![allow(unused_imports, dead_code, unused_variables, unused_mut, unreachable_code)]
use vstd::prelude::*;

verus! {

// @@INCLUDE lazyint@@
pub struct Func { pub id: Ghost<int> }
pub enum XValue { Int(LazyBigint), Bool(bool), Function(Func) }
/// `$crate::xvalue::XValue` as the macro `to_primitive!` names it
pub mod xvalue { pub use super::XValue; }
pub mod xexpr { pub use super::TailedEvalResult; }

pub struct Val { pub value: XValue }            // Rc<ManagedXValue>
pub struct ErrV { pub id: Ghost<int> }          // Rc<ManagedXError>
pub struct RuntimeViolation { pub id: Ghost<int> }
pub type RuntimeResult<T> = Result<T, RuntimeViolation>;
pub type EvaluatedValue = Result<Val, ErrV>;
pub enum TailedEvalResult { Value(EvaluatedValue), TailCall(Vec<EvaluatedValue>) }
impl TailedEvalResult {
    /// panics on a tail call
    #[verifier::external_body]
    pub fn unwrap_value(self) -> (r: EvaluatedValue)
        requires self is Value,
        ensures r == self->Value_0,
    { unimplemented!() }
}
// `__e.into()` inside xraise!: Rc<ManagedXError> into itself
impl ErrV { #[verifier::external_body] pub fn into(self) -> (r: ErrV) ensures r == self { unimplemented!() } }
// impl From<Rc<ManagedXValue>> for TailedEvalResult (xexpr.rs)
impl Val { #[verifier::external_body] pub fn into(self) -> (r: TailedEvalResult) ensures r == TailedEvalResult::Value(Ok(self)) { unimplemented!() } }

pub struct Rt;
impl Rt { #[verifier::external_body] pub fn clone(&self) -> (r: Rt) { unimplemented!() } }
pub struct ManagedXValue;
impl ManagedXValue {
    #[verifier::external_body]
    pub fn new(value: XValue, rt: Rt) -> (r: RuntimeResult<Val>)
        ensures r matches Ok(m) ==> m.value == value,
    { unimplemented!() }
}

pub struct XExpr { pub id: Ghost<int> }
/// what an argument expression evaluates to (when evaluation is not cut short by a violation)
pub uninterp spec fn ev(e: XExpr) -> EvaluatedValue;
/// what a function value answers for an argument list
pub uninterp spec fn apply(f: Func, args: Seq<EvaluatedValue>) -> EvaluatedValue;

pub struct Ns;
/// builtin/core.rs `eval`: evaluate in non-tail mode and unwrap the value
#[verifier::external_body]
pub fn eval(expr: &XExpr, ns: &Ns, rt: &Rt) -> (r: RuntimeResult<EvaluatedValue>)
    ensures r matches Ok(v) ==> v == ev(*expr),
{ unimplemented!() }
impl Ns {
    #[verifier::external_body]
    pub fn eval_func_with_values(&self, func: &Func, args: Vec<EvaluatedValue>, rt: Rt, tail_available: bool) -> (r: RuntimeResult<TailedEvalResult>)
        ensures
            !tail_available ==> (r matches Ok(t) ==> t == TailedEvalResult::Value(apply(*func, args@))),
    { unimplemented!() }
}

/// `panic!(..)` inside `to_primitive!`: reaching it is a failed obligation
#[verifier::external_body]
pub fn vx_panic<T>() -> (r: T)
    requires false,
{ unimplemented!() }
macro_rules! panic { ($($t:tt)*) => { vx_panic() } }

/// what the callee answers for the two evaluated arguments, in the order (a0, a1)
pub open spec fn answer(inner: Val, args: &[XExpr]) -> EvaluatedValue {
    apply(inner.value->Function_0, seq![ev(args[0]), ev(args[1])])
}
/// compile-time facts about the captured callee (get_func with the result type named)
pub open spec fn callee_int(inner: Val) -> bool {
    inner.value is Function && forall|s: Seq<EvaluatedValue>| (#[trigger] apply(inner.value->Function_0, s)) matches Ok(c) ==> c.value is Int
}
pub open spec fn callee_bool(inner: Val) -> bool {
    inner.value is Function && forall|s: Seq<EvaluatedValue>| (#[trigger] apply(inner.value->Function_0, s)) matches Ok(c) ==> c.value is Bool
}
/// the result is the boolean `b(c)` of the callee's answer `c`, or the callee's error value
pub open spec fn rel_result(r: RuntimeResult<TailedEvalResult>, ans: EvaluatedValue, b: spec_fn(XValue) -> bool) -> bool {
    r matches Ok(t) ==> match ans {
        Ok(c) => t matches TailedEvalResult::Value(Ok(v)) && v.value == XValue::Bool(b(c.value)),
        Err(e) => t == TailedEvalResult::Value(Err(e)),
    }
}

// @@INCLUDE stdx@@

// @@EXTRACTED@@

} // verus!
fn main() {}
