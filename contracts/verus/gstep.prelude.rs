// V-gstep prelude (C16, "per-adaptor iterator construction"): the element closures of the generator
// adaptors Filter, TakeWhile, SkipUntil, Map and Aggregate in XGenerator::_iter
// (src/builtin/generators.rs), real text of each closure body (from its first statement through its tail
// expression).  std's filter_map / map_while / map / scan apply the closure to every element of the inner
// stream in order (their documented meaning; the streams themselves are not modelled here), so the
// adaptor's output is determined by the step function:
//   filter     : an element is kept exactly when the predicate answers true
//   take_while : the stream ends (None) at the first element for which the predicate answers false
//   skip_until : elements are dropped until the predicate answers true for one; from then on (state
//                `found_first`) every element is passed through without calling the predicate
//   map        : each element is replaced by the function's answer
//   aggregate  : the state becomes f(state, element) and that is the element yielded
// and in every adaptor a violation on the incoming element is handed on, an error value answered by the
// callback is the element yielded.
//
// Assumed: the evaluator as a deterministic function `apply` (as in V-derive); the predicate answers a
// Bool (type fact); `|| Ok(value)` has its body as postcondition (R-closurepost).
#![allow(unused_imports, dead_code, unused_variables, unused_mut, unreachable_code)]
use vstd::prelude::*;

verus! {

pub struct Func { pub id: Ghost<int> }
pub enum XValue { Bool(bool), Function(Func), Other(Ghost<int>) }
pub mod xvalue { pub use super::XValue; }
pub struct Val { pub value: XValue }            // Rc<ManagedXValue>
pub struct ErrV { pub id: Ghost<int> }          // Rc<ManagedXError>
pub struct RuntimeViolation { pub id: Ghost<int> }
pub type RuntimeResult<T> = Result<T, RuntimeViolation>;
pub type EvaluatedValue = Result<Val, ErrV>;
pub type XResult<T> = RuntimeResult<Result<T, ErrV>>;
impl Clone for Val { #[verifier::external_body] fn clone(&self) -> (r: Val) ensures r == *self { unimplemented!() } }
impl Clone for ErrV { #[verifier::external_body] fn clone(&self) -> (r: ErrV) ensures r == *self { unimplemented!() } }
pub assume_specification<T: Clone, E0: Clone> [<Result<T, E0> as Clone>::clone] (x: &Result<T, E0>) -> (r: Result<T, E0>)
    ensures (match *x { Ok(a) => r matches Ok(b) && call_ensures(T::clone, (&a,), b), Err(a) => r matches Err(b) && call_ensures(E0::clone, (&a,), b) });
pub enum TailedEvalResult { Value(EvaluatedValue), TailCall(Vec<EvaluatedValue>) }
impl TailedEvalResult {
    #[verifier::external_body]
    pub fn unwrap_value(self) -> (r: EvaluatedValue)
        requires self is Value,
        ensures r == self->Value_0,
    { unimplemented!() }
}
pub struct Rt;
impl Rt { #[verifier::external_body] pub fn clone(&self) -> (r: Rt) { unimplemented!() } }
/// what a function value answers for an argument list
pub uninterp spec fn apply(f: Func, args: Seq<EvaluatedValue>) -> EvaluatedValue;
pub struct Ns;
impl Ns {
    #[verifier::external_body]
    pub fn eval_func_with_values(&self, func: &Func, args: Vec<EvaluatedValue>, rt: Rt, tail_available: bool) -> (r: RuntimeResult<TailedEvalResult>)
        ensures
            !tail_available ==> (r matches Ok(t) ==> t == TailedEvalResult::Value(apply(*func, args@))),
    { unimplemented!() }
}
#[verifier::external_body]
pub fn vx_panic<T>() -> (r: T)
    requires false,
{ unimplemented!() }
macro_rules! panic { ($($t:tt)*) => { vx_panic() } }

// bool::then: vstd's specification

pub mod ext {
    use vstd::prelude::*;
    use super::*;
    pub broadcast proof fn lemma_apply1(f: Func, s: Seq<EvaluatedValue>)
        requires s.len() == 1,
        ensures #[trigger] apply(f, s) == apply(f, seq![s[0]]),
    { assert(s =~= seq![s[0]]); }
    pub broadcast proof fn lemma_apply2(f: Func, s: Seq<EvaluatedValue>)
        requires s.len() == 2,
        ensures #[trigger] apply(f, s) == apply(f, seq![s[0], s[1]]),
    { assert(s =~= seq![s[0], s[1]]); }
}

pub open spec fn answers_bool(f: Func) -> bool {
    forall|s: Seq<EvaluatedValue>| (#[trigger] apply(f, s)) matches Ok(c) ==> c.value is Bool
}
/// the step of a predicate-driven adaptor on an incoming element `i`: `keep` tells what a true / false answer does
pub open spec fn pred_step(r: Option<XResult<Val>>, i: XResult<Val>, f: Func) -> bool {
    match i {
        // a violation on the incoming element is the element handed on
        Err(v) => r == Some(Err::<Result<Val, ErrV>, RuntimeViolation>(v)),
        Ok(value) => r matches Some(Err(_)) || match apply(f, seq![value]) {
            // the predicate's error value is the element yielded
            Err(e) => r == Some(Ok::<Result<Val, ErrV>, RuntimeViolation>(Err(e))),
            Ok(g) => if g.value->Bool_0 { r == Some(Ok::<Result<Val, ErrV>, RuntimeViolation>(value)) } else { r is None },
        },
    }
}

// @@INCLUDE stdx@@

// @@EXTRACTED@@

} // verus!
fn main() {}
