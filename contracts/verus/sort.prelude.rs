// V-sort prelude (C19): the run-stack decision `collapse` of try_sort (src/util/trysort.rs).
#![allow(unused_imports, dead_code, unused_variables)]
use vstd::prelude::*;

verus! {

global size_of usize == 8;

/// the runs on the stack are disjoint sub-ranges of one slice, so any two lengths add up without
/// overflow (a slice has at most isize::MAX elements)
spec fn runs_fit(runs: Seq<Run>) -> bool {
    forall|i: int, j: int| 0 <= i < j < runs.len() ==> #[trigger] runs[i].len + #[trigger] runs[j].len <= usize::MAX
}

/// the decision the comment above `collapse` documents (invariants on the top four runs, and a
/// forced merge when the top run starts at index 0)
spec fn must_merge(runs: Seq<Run>) -> bool {
    let n = runs.len() as int;
    n >= 2 && (runs[n - 1].start == 0
        || runs[n - 2].len <= runs[n - 1].len
        || (n >= 3 && runs[n - 3].len <= runs[n - 2].len + runs[n - 1].len)
        || (n >= 4 && runs[n - 4].len <= runs[n - 3].len + runs[n - 2].len))
}

// @@EXTRACTED@@

} // verus!
fn main() {}
