// V-tail prelude (C07, C08): the trampoline of RuntimeScope::eval_func_with_values (the arm for
// user functions) and the depth computation of RuntimeScope::from_template, verified as real text
// against stubbed dependencies.  The stubs thread a ghost record `St` (R-state appends the argument
// `st` to the calls named in the unit file) so that the contract can count calls.
#![allow(unused_imports, dead_code, unused_variables, unused_mut)]
use vstd::prelude::*;
use vstd::std_specs::ops::*;
use core::ops::Add;
use std::rc::Rc;

verus! {

global size_of usize == 8;

#[verifier::external_type_specification]
#[verifier::external_body]
pub struct ExIoError(std::io::Error);

/// ghost history of one execution of the trampoline
pub struct St {
    /// calls of Runtime::increment_call_limit / check_timeout
    pub incs: nat,
    pub timeouts: nat,
    /// frames built (RuntimeScope::from_template) and with which stack parent
    pub frames: nat,
    pub all_frames_on_caller: bool,
    /// evaluations of the function body, all in tail mode?, and how many answered TailCall
    pub evals: nat,
    pub all_evals_tail: bool,
    pub tails: nat,
    /// a dependency returned a violation of its own
    pub inner_err: bool,
    /// frames that were built before the call counter was incremented
    pub frames_before_inc: nat,
}

// ------------------------------------------------------------------ stubbed dependencies
pub struct EvaluatedValue<W, R, T> { pub w: Ghost<W>, pub r: Ghost<R>, pub t: Ghost<T> }
pub struct Limits { pub recursion_limit: Option<usize>, pub depth_limit: Option<usize> }
pub struct Rt { pub limits: Limits }
pub struct Template;
pub struct OutputBox;
pub struct XExpr;

impl Rt {
    #[verifier::external_body]
    pub fn clone(&self) -> (r: Rt) ensures r == *self { unimplemented!() }
    /// contract proved on the real function by Kani (C08/K/c08_increment_call_limit)
    #[verifier::external_body]
    pub fn increment_call_limit(&self, st: &mut Ghost<St>) -> (r: RuntimeResult<()>)
        ensures
            final(st)@ == (St { incs: old(st)@.incs + 1, inner_err: old(st)@.inner_err || r is Err, ..old(st)@ }),
    { unimplemented!() }
    #[verifier::external_body]
    pub fn check_timeout(&self, st: &mut Ghost<St>) -> (r: RuntimeResult<()>)
        ensures
            final(st)@ == (St { timeouts: old(st)@.timeouts + 1, inner_err: old(st)@.inner_err || r is Err, ..old(st)@ }),
    { unimplemented!() }
}
impl Template {
    #[verifier::external_body]
    pub fn clone(&self) -> (r: Template) { unimplemented!() }
}
impl OutputBox {
    #[verifier::external_body]
    pub fn as_ref(&self) -> (r: &XExpr) { unimplemented!() }
}

pub struct RuntimeScope<'a, W, R, T> {
    pub height: StackDepth,
    pub scope_parent: Option<&'a RuntimeScope<'a, W, R, T>>,
    pub ghost_id: Ghost<int>,
    pub w: Ghost<W>, pub r: Ghost<R>, pub t: Ghost<T>,
}

impl<'a, W, R, T> RuntimeScope<'a, W, R, T> {
    /// builds one frame on top of `stack_parent`
    #[verifier::external_body]
    pub fn from_template(template: Template, stack_parent: Option<&'a Self>, rt: Rt, args: Vec<EvaluatedValue<W, R, T>>, st: &mut Ghost<St>) -> (r: RuntimeResult<Rc<RuntimeScope<'a, W, R, T>>>)
        ensures
            final(st)@ == (St {
                frames: old(st)@.frames + 1,
                frames_before_inc: if old(st)@.incs == 0 { old(st)@.frames_before_inc + 1 } else { old(st)@.frames_before_inc },
                inner_err: old(st)@.inner_err || r is Err,
                ..old(st)@ }),
    { unimplemented!() }

    /// evaluates an expression; may answer TailCall only when `tail_available`
    #[verifier::external_body]
    pub fn eval(&self, expr: &XExpr, rt: Rt, tail_available: bool, st: &mut Ghost<St>) -> (r: RuntimeResult<TailedEvalResult<W, R, T>>)
        ensures
            !tail_available ==> !(r matches Ok(TailedEvalResult::TailCall(_))),
            final(st)@ == (St {
                evals: old(st)@.evals + 1,
                all_evals_tail: old(st)@.all_evals_tail && tail_available,
                tails: if r matches Ok(TailedEvalResult::TailCall(_)) { old(st)@.tails + 1 } else { old(st)@.tails },
                inner_err: old(st)@.inner_err || r is Err,
                ..old(st)@ }),
            // assumption: fewer than 2^64 consecutive tail calls in one evaluation
            final(st)@.tails < usize::MAX,
    { unimplemented!() }
}

// derive_more::Add on the newtype (units.rs): field-wise addition
impl Add for StackDepth {
    type Output = StackDepth;
    #[verifier::external_body]
    fn add(self, rhs: StackDepth) -> StackDepth { unimplemented!() }
}
impl AddSpecImpl<StackDepth> for StackDepth {
    open spec fn obeys_add_spec() -> bool { true }
    open spec fn add_req(self, rhs: StackDepth) -> bool { self.0 + rhs.0 <= usize::MAX }
    open spec fn add_spec(self, rhs: StackDepth) -> StackDepth { StackDepth((self.0 + rhs.0) as usize) }
}

// @@EXTRACTED@@

} // verus!
fn main() {}
