// V-fmt prelude (C19, format padding): contracts for FillSpecs::{get_filler, get_alignment, fillers}
// of src/util/xformatter.rs.  `str::repeat` is axiomatised by its documented meaning.
#![allow(unused_imports, dead_code, unused_variables)]
use vstd::prelude::*;

verus! {

global size_of usize == 8;

/// s repeated n times
pub open spec fn rep(s: Seq<char>, n: nat) -> Seq<char>
    decreases n
{
    if n == 0 { Seq::empty() } else { s + rep(s, (n - 1) as nat) }
}
pub proof fn lemma_rep_len(s: Seq<char>, n: nat)
    ensures rep(s, n).len() == s.len() * n
    decreases n
{
    if n > 0 {
        lemma_rep_len(s, (n - 1) as nat);
        assert(rep(s, n) == s + rep(s, (n - 1) as nat));
        assert(s.len() * n == s.len() + s.len() * (n - 1)) by(nonlinear_arith) requires n > 0;
    } else {
        assert(rep(s, n).len() == 0);
        assert(s.len() * n == 0) by(nonlinear_arith) requires n == 0;
    }
}
pub assume_specification [str::repeat] (s: &str, n: usize) -> (r: String)
    ensures r@ == rep(s@, n as nat);

/// the padding the documented specifier grammar prescribes for a field of `width` holding `current_len`
/// characters
pub open spec fn pad_count(width: usize, current_len: usize) -> nat {
    if width >= current_len { (width - current_len) as nat } else { 0 }
}

impl<'a> FillSpecs<'a> {
    pub open spec fn filler_spec(&self) -> Seq<char> {
        match self.filler { Some(f) => f@, None => if self.zero_pad { seq!['0'] } else { seq![' '] } }
    }
    pub open spec fn alignment_spec(&self) -> Alignment {
        match self.alignment { Some(a) => a, None => if self.zero_pad { Alignment::RightWithSign } else { Alignment::Right } }
    }
}

// @@EXTRACTED@@

} // verus!
fn main() {}
