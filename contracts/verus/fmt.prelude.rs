// V-fmt prelude (C19, format padding): contracts for FillSpecs::{get_filler, get_alignment, fillers}
// of src/util/xformatter.rs.  `str::repeat` is axiomatised by its documented meaning.
#![allow(unused_imports, dead_code, unused_variables)]
use vstd::prelude::*;

verus! {

global size_of usize == 8;

/// s repeated n times
pub open spec fn rep(s: Seq<char>, n: nat) -> Seq<char>
    decreases n
{
    if n == 0 { Seq::empty() } else { s + rep(s, (n - 1) as nat) }
}
pub proof fn lemma_rep_len(s: Seq<char>, n: nat)
    ensures rep(s, n).len() == s.len() * n
    decreases n
{
    if n > 0 {
        lemma_rep_len(s, (n - 1) as nat);
        assert(rep(s, n) == s + rep(s, (n - 1) as nat));
        assert(s.len() * n == s.len() + s.len() * (n - 1)) by(nonlinear_arith) requires n > 0;
    } else {
        assert(rep(s, n).len() == 0);
        assert(s.len() * n == 0) by(nonlinear_arith) requires n == 0;
    }
}
pub assume_specification [str::repeat] (s: &str, n: usize) -> (r: String)
    ensures r@ == rep(s@, n as nat);

/// the padding the documented specifier grammar prescribes for a field of `width` holding `current_len`
/// characters
pub open spec fn pad_count(width: usize, current_len: usize) -> nat {
    if width >= current_len { (width - current_len) as nat } else { 0 }
}

impl<'a> FillSpecs<'a> {
    pub open spec fn filler_spec(&self) -> Seq<char> {
        match self.filler { Some(f) => f@, None => if self.zero_pad { seq!['0'] } else { seq![' '] } }
    }
    pub open spec fn alignment_spec(&self) -> Alignment {
        match self.alignment { Some(a) => a, None => if self.zero_pad { Alignment::RightWithSign } else { Alignment::Right } }
    }
}

// ------------------------------------------------------------------ stubs for the str `format` builtin
pub struct Rt;
pub struct ManagedXError;
pub struct RuntimeViolation;
pub struct Tailed;
pub type RuntimeResult<T> = Result<T, RuntimeViolation>;
pub struct A0;
impl From<A0> for Tailed {
    #[verifier::external_body]
    fn from(a: A0) -> Tailed { unimplemented!() }
}
pub struct FencedString;
impl FencedString {
    #[verifier::external_body]
    pub fn len(&self) -> (r: usize) { unimplemented!() }
}
impl Rt {
    #[verifier::external_body]
    pub fn can_allocate_by<F: Fn() -> Option<usize>>(&self, f: F) -> (r: RuntimeResult<()>)
        requires f.requires(()),
    { unimplemented!() }
}
impl ManagedXError {
    #[verifier::external_body]
    pub fn new(error: &str, runtime: Rt) -> (r: RuntimeResult<std::rc::Rc<ManagedXError>>) { unimplemented!() }
}
#[verifier::external_body]
pub fn xerr(e: std::rc::Rc<ManagedXError>) -> (r: RuntimeResult<Tailed>) { unimplemented!() }
#[verifier::external_body]
pub fn max(a: usize, b: usize) -> (r: usize) { unimplemented!() }
#[verifier::external_body]
pub fn xerr_unreachable_tail() -> (r: RuntimeResult<Tailed>) { unimplemented!() }
/// R-assert target
pub fn vx_assert(c: bool) requires c {}
impl<'a> XFormatting<'a> {
    /// only used for the pre-flight size estimate
    #[verifier::external_body]
    pub fn min_width(&self) -> (r: usize) { unimplemented!() }
}

// @@EXTRACTED@@

} // verus!
fn main() {}
