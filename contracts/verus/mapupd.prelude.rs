// V-mapupd prelude (C17, "insertion / overwrite"): `XMapping::{get, try_put_located, put_located, put, try_put}` and
// `with_update` (src/builtin/mapping.rs), real text of the whole bodies; the struct, `KeyLocation` and the bucket
// alias are the real definitions (R-self: `Rc<ManagedXValue<W, R, T>>` -> `Val`, `RTCell` -> `Rt`, `RuntimeScope` ->
// `Ns`, the type parameters W, R, T dropped, V kept); real `forward_err!` / `xraise!` / `manage_native!`; `for` by
// R-for; `entry(k).or_insert(v)` by R-entry.  `locate` is used through the contract V-locate proves.
//
// The table is a model `HashMap` (same name; a finite map from hash to bucket) with `get`, `get_mut`,
// `entry().or_insert()`, `clone` by their documented meaning; buckets are std `Vec`s of (key, value) pairs.
//
// Contract of try_put_located, for a location that is valid for the table (Found: that bucket has that index;
// Missing: the bucket exists; Vacant: it does not):
//   Found((h, i)):  the callback on_found is applied to the stored value; on a value v the pair at (h, i) keeps
//                   its key and gets v, nothing else changes, `len` unchanged, the reference answered is v;
//   Missing(h):     on_empty() = v: (k, v) is appended to bucket h, `len` + 1;
//   Vacant(h):      on_empty() = v: a new bucket [(k, v)] for h, `len` + 1;
//   an error value or violation answered by the callback is the result and NOTHING changes.
// put_located / put / try_put: the same through `locate`.  with_update: as V-setupd, on (key, value) items -- the
// value of an item whose key is found REPLACES the stored one (last one wins), other pairs are untouched.
//
// Assumed: the evaluator as a deterministic function `apply`; hash answers an Int, eq a Bool (type facts, C01);
// the item stream is finite; `total` (the sum of the bucket lengths of a finite map) by an axiom.
#![allow(unused_imports, dead_code, unused_variables, unused_mut, unreachable_code)]
use vstd::prelude::*;
use vstd::std_specs::core::IndexSpecImpl;
use core::ops::Index;
use std::mem::size_of;

verus! {

global size_of usize == 8;

// @@INCLUDE lazyint@@
pub struct Func { pub id: Ghost<int> }
pub enum XValue { Int(LazyBigint), Bool(bool), Function(Func), Native(Box<XMapping<Val>>) }
pub mod xvalue { pub use super::XValue; }
pub mod xexpr { pub use super::TailedEvalResult; }
/// Rc<ManagedXValue>
pub struct Val { pub value: XValue }
impl Clone for Val { #[verifier::external_body] fn clone(&self) -> (r: Self) ensures r == *self { unimplemented!() } }
pub struct ErrV { pub id: Ghost<int> }
pub struct RuntimeViolation { pub id: Ghost<int> }
pub type RuntimeResult<X> = Result<X, RuntimeViolation>;
pub type EvaluatedValue = Result<Val, ErrV>;
pub type XResult<X> = RuntimeResult<Result<X, ErrV>>;
pub enum TailedEvalResult { Value(EvaluatedValue), TailCall(Vec<EvaluatedValue>) }
impl ErrV { #[verifier::external_body] pub fn into(self) -> (r: ErrV) ensures r == self { unimplemented!() } }
impl Val {
    #[verifier::external_body]
    pub fn into(self) -> (r: TailedEvalResult) ensures r == TailedEvalResult::Value(Ok(self)) { unimplemented!() }
}
pub struct Rt;
impl Rt {
    #[verifier::external_body] pub fn clone(&self) -> (r: Rt) { unimplemented!() }
    /// pre-flight allocation check (C09)
    #[verifier::external_body] pub fn can_allocate(&self, n: usize) -> (r: RuntimeResult<()>) { unimplemented!() }
}
/// an argument expression of a native call, and the evaluator on it (deterministic)
pub struct XExpr { pub id: Ghost<int> }
pub uninterp spec fn ev(e: XExpr) -> RuntimeResult<EvaluatedValue>;
/// (R-state: `st` is the ghost log of the argument expressions evaluated so far)
#[verifier::external_body]
pub fn eval(e: &XExpr, ns: &Ns, rt: &Rt, st: &mut Ghost<Seq<XExpr>>) -> (r: RuntimeResult<EvaluatedValue>)
    ensures r == ev(*e), final(st)@ == old(st)@.push(*e),
{ unimplemented!() }
#[verifier::external_body]
pub fn vx_panic<X>() -> (r: X) requires false { unimplemented!() }
macro_rules! unreachable { () => { vx_panic() } }
pub struct Ns;
impl Ns {
    #[verifier::external_body]
    pub fn eval_func_with_values(&self, func: &Func, args: Vec<EvaluatedValue>, rt: Rt, tail_available: bool) -> (r: RuntimeResult<TailedEvalResult>)
        ensures !tail_available ==> (r matches Ok(t) ==> t == TailedEvalResult::Value(apply(*func, args@))),
    { unimplemented!() }
}
impl TailedEvalResult {
    /// panics on a tail call
    #[verifier::external_body]
    pub fn unwrap_value(self) -> (r: EvaluatedValue)
        requires self is Value,
        ensures r == self->Value_0,
    { unimplemented!() }
}
/// the generator whose elements are the keys of update_from_keys, and its iterator (finite)
pub struct XGenerator { pub e: Ghost<Seq<XResult<Val>>> }
pub struct GenIter { pub r: Ghost<Seq<XResult<Val>>> }
impl XGenerator {
    pub open spec fn elems(&self) -> Seq<XResult<Val>> { self.e@ }
    #[verifier::external_body]
    pub fn iter(&self, ns: &Ns, rt: Rt) -> (r: GenIter) ensures r.rest() == self.elems() { unimplemented!() }
}
impl GenIter {
    pub open spec fn rest(&self) -> Seq<XResult<Val>> { self.r@ }
    #[verifier::external_body]
    pub fn next(&mut self) -> (r: Option<XResult<Val>>)
        ensures
            old(self).rest().len() == 0 ==> r is None && final(self).rest() == old(self).rest(),
            old(self).rest().len() > 0 ==> r == Some(old(self).rest()[0]) && final(self).rest() == old(self).rest().skip(1),
    { unimplemented!() }
}
pub struct ManagedXValue;
impl ManagedXValue {
    #[verifier::external_body]
    pub fn new(value: XValue, rt: Rt) -> (r: RuntimeResult<Val>)
        ensures r matches Ok(m) ==> m.value == value,
    { unimplemented!() }
}
pub uninterp spec fn apply(f: Func, args: Seq<EvaluatedValue>) -> EvaluatedValue;

// ------------------------------------------------------------------ std::collections::HashMap (model)
pub struct HashMap<K, V> { pub m: Ghost<Map<K, V>> }
impl<K, V> HashMap<K, V> {
    pub open spec fn view(&self) -> Map<K, V> { self.m@ }
    #[verifier::external_body]
    pub fn get_mut(&mut self, k: &K) -> (r: Option<&mut V>)
        ensures
            !old(self)@.contains_key(*k) ==> r is None && final(self)@ == old(self)@,
            old(self)@.contains_key(*k) ==> r is Some && *(r->Some_0) == old(self)@[*k] && final(self)@ == old(self)@.insert(*k, *final(r->Some_0)),
    { unimplemented!() }
    /// (the previous value, if any, is answered and dropped by the caller)
    #[verifier::external_body]
    pub fn insert(&mut self, k: K, v: V) -> (r: Option<V>)
        ensures final(self)@ == old(self)@.insert(k, v), r == (if old(self)@.contains_key(k) { Some(old(self)@[k]) } else { None::<V> }),
    { unimplemented!() }
    #[verifier::external_body]
    pub fn clone(&self) -> (r: Self) where V: Clone ensures r@ == self@ { unimplemented!() }
    /// the number of keys of the table (here: of hash buckets)
    #[verifier::external_body]
    pub fn len(&self) -> (r: usize) ensures r == self@.dom().len() { unimplemented!() }
}
impl<K, V> HashMap<K, V> {
    #[verifier::external_body]
    pub fn get(&self, k: &K) -> (r: Option<&V>)
        ensures r == (if self@.contains_key(*k) { Some(&self@[*k]) } else { None }),
    { unimplemented!() }
    /// R-entry target: `self.entry(k).or_insert(v)`
    #[verifier::external_body]
    pub fn vx_entry_or_insert(&mut self, k: K, v: V) -> (r: &mut V)
        ensures
            old(self)@.contains_key(k) ==> *r == old(self)@[k] && final(self)@ == old(self)@.insert(k, *final(r)),
            !old(self)@.contains_key(k) ==> *r == v && final(self)@ == old(self)@.insert(k, *final(r)),
    { unimplemented!() }
}
/// `map[&k]` (std panics when the key is absent)
impl<'a, K, V> Index<&'a K> for HashMap<K, V> {
    type Output = V;
    #[verifier::external_body]
    fn index(&self, k: &'a K) -> (o: &V) ensures *o == self@[*k] { unimplemented!() }
}
impl<'a, K, V> IndexSpecImpl<&'a K> for HashMap<K, V> { open spec fn index_req(&self, k: &&'a K) -> bool { self@.contains_key(**k) } }
/// `<[T]>::swap` by its documented meaning (panics when an index is out of bounds)
pub assume_specification<T> [<[T]>::swap] (s: &mut [T], a: usize, b: usize)
    requires a < old(s)@.len(), b < old(s)@.len(),
    ensures final(s)@ == old(s)@.update(a as int, old(s)@[b as int]).update(b as int, old(s)@[a as int]);
/// `vec![x]`
pub fn vx_vec1<X>(x: X) -> (r: Vec<X>) ensures r@ == seq![x] { let mut v = Vec::new(); v.push(x); v }
pub fn vx_vec2<X>(x: X, y: X) -> (r: Vec<X>) ensures r@ == seq![x, y] { let mut v = Vec::new(); v.push(x); v.push(y); v }
macro_rules! vec { ($x:expr) => { vx_vec1($x) }; ($x:expr, $y:expr) => { vx_vec2($x, $y) } }


// ------------------------------------------------------------------ specification vocabulary
pub type Table<V> = Map<u64, Vec<(Val, V)>>;
pub open spec fn keys<V>(b: Seq<(Val, V)>) -> Seq<Val> { Seq::new(b.len(), |i: int| b[i].0) }
pub open spec fn hash_ans(hf: XValue, key: Val) -> EvaluatedValue { apply(hf->Function_0, seq![Ok(key)]) }
pub open spec fn eq_ans(ef: XValue, key: Val, k: Val) -> EvaluatedValue { apply(ef->Function_0, seq![Ok(key), Ok(k)]) }
pub open spec fn is_true(a: EvaluatedValue) -> bool { a matches Ok(v) && v.value == XValue::Bool(true) }
pub open spec fn is_false(a: EvaluatedValue) -> bool { a matches Ok(v) && v.value == XValue::Bool(false) }
pub open spec fn hashes_to(hf: XValue, x: Val, h: u64) -> bool {
    hash_ans(hf, x) matches Ok(hv) && hv.value is Int && hv.value->Int_0.val() == h
}
pub open spec fn fn_answers_int(f: XValue) -> bool {
    f is Function && forall|s: Seq<EvaluatedValue>| (#[trigger] apply(f->Function_0, s)) matches Ok(c) ==> c.value is Int
}
pub open spec fn fn_answers_bool(f: XValue) -> bool {
    f is Function && forall|s: Seq<EvaluatedValue>| (#[trigger] apply(f->Function_0, s)) matches Ok(c) ==> c.value is Bool
}
/// the sum of the bucket lengths of a finite table
pub uninterp spec fn total<V>(m: Table<V>) -> nat;
pub broadcast axiom fn axiom_total_insert<V>(m: Table<V>, h: u64, b: Vec<(Val, V)>)
    ensures #[trigger] total(m.insert(h, b)) == total(m) - (if m.contains_key(h) { m[h]@.len() } else { 0 }) + b@.len();
/// the location is one `locate` can answer for this table
spec fn loc_valid<V>(m: Table<V>, loc: KeyLocation) -> bool {
    match loc {
        KeyLocation::Found((h, i)) => m.contains_key(h) && i < m[h]@.len(),
        KeyLocation::Missing(h) => m.contains_key(h),
        KeyLocation::Vacant(h) => !m.contains_key(h),
    }
}
/// the table after putting value v for key k at that location
spec fn put_at<V>(m: Table<V>, loc: KeyLocation, k: Val, v: V, b2: Vec<(Val, V)>) -> bool {
    match loc {
        KeyLocation::Found((h, i)) => b2@ == m[h]@.update(i as int, (m[h]@[i as int].0, v)),
        KeyLocation::Missing(h) => b2@ == m[h]@.push((k, v)),
        KeyLocation::Vacant(h) => b2@ == seq![(k, v)],
    }
}
/// table m1 / counter len1 are m0 / len0 after storing v for k at the location
spec fn stored<V>(m0: Table<V>, len0: usize, m1: Table<V>, len1: usize, loc: KeyLocation, k: Val, v: V) -> bool {
    let h = loc_hash(loc);
    &&& m1.contains_key(h) && m1 == m0.insert(h, m1[h])
    &&& put_at(m0, loc, k, v, m1[h])
    &&& len1 == len0 + (if loc is Found { 0int } else { 1int })
}
spec fn loc_hash(loc: KeyLocation) -> u64 {
    match loc { KeyLocation::Found((h, _)) => h, KeyLocation::Missing(h) => h, KeyLocation::Vacant(h) => h }
}
/// representation invariant of a mapping
spec fn rep_ok<V>(s: XMapping<V>) -> bool {
    &&& s.len == total(s.inner@)
    &&& forall|h: u64, i: int| s.inner@.contains_key(h) && 0 <= i < s.inner@[h]@.len() ==> hashes_to(s.hash_func.value, (#[trigger] s.inner@[h]@[i]).0, h)
}
/// eq answers false for each of the first n keys
#[verifier::opaque]
pub open spec fn all_false(ef: XValue, key: Val, ks: Seq<Val>, n: int) -> bool {
    forall|j: int| 0 <= j < n ==> is_false(#[trigger] eq_ans(ef, key, ks[j]))
}
/// the outcome of scanning the keys `ks` of the bucket for hash `h` (V-locate's contract; its inner quantifier
/// "eq answers false for every earlier key" is named `all_false` here, and kept opaque where it is not needed)
spec fn scan_result(r: XResult<KeyLocation>, ef: XValue, key: Val, ks: Seq<Val>, h: u64) -> bool {
    r matches Ok(x) ==> {
        &&& all_false(ef, key, ks, ks.len() as int) ==> x == Ok::<KeyLocation, ErrV>(KeyLocation::Missing(h))
        &&& forall|k: int| 0 <= k < ks.len() && !is_false(#[trigger] eq_ans(ef, key, ks[k])) && all_false(ef, key, ks, k)
            ==> match eq_ans(ef, key, ks[k]) {
                Err(e) => x == Err::<KeyLocation, ErrV>(e),
                Ok(_) => x == Ok::<KeyLocation, ErrV>(KeyLocation::Found((h, k as usize))),
            }
    }
}
/// V-locate's postcondition of `XMapping::locate`
spec fn locate_post<V>(s: XMapping<V>, key: Val, r: XResult<KeyLocation>) -> bool {
    r matches Ok(x) ==> match hash_ans(s.hash_func.value, key) {
        Err(e) => x == Err::<KeyLocation, ErrV>(e),
        Ok(hv) => {
            let hi = hv.value->Int_0.val();
            if !(0 <= hi <= u64::MAX) { x is Err } else {
                let h = hi as u64;
                &&& !s.inner@.contains_key(h) ==> x == Ok::<KeyLocation, ErrV>(KeyLocation::Vacant(h))
                &&& s.inner@.contains_key(h) ==> scan_result(r, s.eq_func.value, key, keys(s.inner@[h]@), h)
            }
        },
    }
}
impl<V> XMapping<V> {
    /// `XMapping::locate`, by the contract V-locate proves of the real method
    #[verifier::external_body]
    fn locate(&self, key: &Val, ns: &Ns, rt: Rt) -> (r: XResult<KeyLocation>)
        requires fn_answers_int(self.hash_func.value), fn_answers_bool(self.eq_func.value),
        ensures locate_post(*self, *key, r),
    { unimplemented!() }
}
/// (the real type derives Clone through `derivative`: structural; the table is copied)
impl Clone for XMapping<Val> {
    #[verifier::external_body]
    fn clone(&self) -> (r: Self) ensures r == *self { unimplemented!() }
}
/// a clean answer of locate is a valid location
broadcast proof fn lemma_locate_valid<V>(s: XMapping<V>, x: Val, loc: KeyLocation)
    requires
        fn_answers_int(s.hash_func.value), fn_answers_bool(s.eq_func.value),
        #[trigger] locate_post(s, x, Ok::<Result<KeyLocation, ErrV>, RuntimeViolation>(Ok(loc))),
    ensures loc_valid(s.inner@, loc), hashes_to(s.hash_func.value, x, loc_hash(loc)),
{
    let r = Ok::<Result<KeyLocation, ErrV>, RuntimeViolation>(Ok(loc));
    assert(r->Ok_0 == Ok::<KeyLocation, ErrV>(loc));
    assert(hash_ans(s.hash_func.value, x) is Ok);
    let hv = hash_ans(s.hash_func.value, x)->Ok_0;
    assert(hv.value is Int);
    assert(0 <= hv.value->Int_0.val() <= u64::MAX);
    let h = hv.value->Int_0.val() as u64;
    if s.inner@.contains_key(h) {
        let ef = s.eq_func.value;
        let ks = keys(s.inner@[h]@);
        assert(s.inner@[h].len() == ks.len());
        assert(scan_result(r, ef, x, ks, h));
        let k0 = lemma_first(ef, x, ks, ks.len() as int);
        if k0 < ks.len() {
            let a = eq_ans(ef, x, ks[k0]);
            assert(a is Ok ==> a->Ok_0.value is Bool);
        }
    }
}
/// either no key is equal, or there is a first one that is not unequal
pub proof fn lemma_first(ef: XValue, key: Val, ks: Seq<Val>, n: int) -> (k0: int)
    requires 0 <= n <= ks.len(),
    ensures all_false(ef, key, ks, n) ==> k0 == n,
        !all_false(ef, key, ks, n) ==> 0 <= k0 < n && !is_false(eq_ans(ef, key, ks[k0])) && all_false(ef, key, ks, k0),
    decreases n,
{
    reveal(all_false);
    if n == 0 { 0 } else {
        let k1 = lemma_first(ef, key, ks, n - 1);
        if k1 < n - 1 { k1 } else if is_false(eq_ans(ef, key, ks[n - 1])) { n } else { n - 1 }
    }
}

// ------------------------------------------------------------------ with_update: the item stream and the loop's invariant
pub struct Items { pub r: Ghost<Seq<XResult<(Val, Val)>>> }
impl Items {
    pub open spec fn rest(&self) -> Seq<XResult<(Val, Val)>> { self.r@ }
    #[verifier::external_body]
    pub fn next(&mut self) -> (r: Option<XResult<(Val, Val)>>)
        ensures
            old(self).rest().len() == 0 ==> r is None && final(self).rest() == old(self).rest(),
            old(self).rest().len() > 0 ==> r == Some(old(self).rest()[0]) && final(self).rest() == old(self).rest().skip(1),
    { unimplemented!() }
}
pub open spec fn is_item(x: XResult<(Val, Val)>) -> bool { x matches Ok(Ok(_)) }
pub open spec fn item_of(x: XResult<(Val, Val)>) -> (Val, Val) { x->Ok_0->Ok_0 }
/// key x is present in the table: the bucket of its hash holds x itself or a key eq answers true for
pub open spec fn present(m: Table<Val>, hf: XValue, ef: XValue, x: Val) -> bool {
    exists|h: u64, i: int| hashes_to(hf, x, h) && m.contains_key(h) && 0 <= i < m[h]@.len() && ((#[trigger] m[h]@[i]).0 == x || is_true(eq_ans(ef, x, m[h]@[i].0)))
}
/// the pair (x, v) is what a lookup of x finds: the FIRST key of its bucket that is not unequal to x is equal to it (or x itself), with value v
pub open spec fn bound_to(m: Table<Val>, hf: XValue, ef: XValue, x: Val, v: Val) -> bool {
    exists|h: u64, i: int| hashes_to(hf, x, h) && m.contains_key(h) && 0 <= i < m[h]@.len() && (#[trigger] m[h]@[i]).1 == v
        && (m[h]@[i].0 == x || is_true(eq_ans(ef, x, m[h]@[i].0))) && all_false(ef, x, keys(m[h]@), i)
}
/// every bucket of a keeps its keys, in place, in b (values may have been replaced)
pub open spec fn keys_retained(a: Table<Val>, b: Table<Val>) -> bool {
    forall|h: u64| #[trigger] a.contains_key(h) ==> b.contains_key(h) && a[h]@.len() <= b[h]@.len() && keys(b[h]@).take(a[h]@.len() as int) =~= keys(a[h]@)
}
/// every key of b beyond a's is the key of one of the first n items and no key before it in its bucket is equal to it
pub open spec fn only_new(a: Table<Val>, b: Table<Val>, ef: XValue, items: Seq<XResult<(Val, Val)>>, n: int) -> bool {
    forall|h: u64, i: int| b.contains_key(h) && (if a.contains_key(h) { a[h]@.len() } else { 0 }) <= i < b[h]@.len() ==> {
        &&& exists|j: int| 0 <= j < n && is_item(items[j]) && item_of(items[j]).0 == (#[trigger] b[h]@[i]).0
        &&& all_false(ef, b[h]@[i].0, keys(b[h]@), i)
    }
}
/// every stored value is the receiver's value at that place or the value of one of the first n items whose key hit that place
pub open spec fn vals_ok(a: Table<Val>, b: Table<Val>, ef: XValue, items: Seq<XResult<(Val, Val)>>, n: int) -> bool {
    forall|h: u64, i: int| b.contains_key(h) && 0 <= i < b[h]@.len() ==> {
        ||| a.contains_key(h) && i < a[h]@.len() && (#[trigger] b[h]@[i]).1 == a[h]@[i].1
        ||| exists|j: int| 0 <= j < n && is_item(items[j]) && item_of(items[j]).1 == b[h]@[i].1
                && (item_of(items[j]).0 == b[h]@[i].0 || is_true(eq_ans(ef, item_of(items[j]).0, b[h]@[i].0)))
    }
}
/// what the loop of with_update maintains about the table `m` / counter `len` built from the receiver's table `a`
pub open spec fn inv(a: Table<Val>, hf: XValue, ef: XValue, m: Table<Val>, len: int, items: Seq<XResult<(Val, Val)>>, k: int) -> bool {
    &&& len == total(m)
    &&& forall|h: u64, i: int| m.contains_key(h) && 0 <= i < m[h]@.len() ==> hashes_to(hf, (#[trigger] m[h]@[i]).0, h)
    &&& keys_retained(a, m)
    &&& forall|j: int| 0 <= j < k ==> is_item(items[j]) && present(m, hf, ef, item_of(#[trigger] items[j]).0)
    &&& only_new(a, m, ef, items, k)
    &&& vals_ok(a, m, ef, items, k)
    // last one wins: the most recent item is what a lookup of its key finds
    &&& k > 0 ==> bound_to(m, hf, ef, item_of(items[k - 1]).0, item_of(items[k - 1]).1)
}
/// scan_result read backwards
proof fn lemma_scan(r: XResult<KeyLocation>, ef: XValue, x: Val, ks: Seq<Val>, h: u64, loc: KeyLocation, k0: int)
    requires
        fn_answers_bool(ef), r == Ok::<Result<KeyLocation, ErrV>, RuntimeViolation>(Ok(loc)), scan_result(r, ef, x, ks, h), ks.len() <= usize::MAX,
        all_false(ef, x, ks, ks.len() as int) ==> k0 == ks.len(),
        !all_false(ef, x, ks, ks.len() as int) ==> 0 <= k0 < ks.len() && !is_false(eq_ans(ef, x, ks[k0])) && all_false(ef, x, ks, k0),
    ensures
        k0 == ks.len() ==> loc == KeyLocation::Missing(h) && all_false(ef, x, ks, ks.len() as int),
        k0 < ks.len() ==> loc == KeyLocation::Found((h, k0 as usize)) && is_true(eq_ans(ef, x, ks[k0])) && all_false(ef, x, ks, k0),
{
    if k0 < ks.len() {
        let a = eq_ans(ef, x, ks[k0]);
        assert(a is Ok ==> a->Ok_0.value is Bool);
    }
}
/// what a clean answer of locate says (V-locate's contract, read backwards)
proof fn lemma_locate(s: XMapping<Val>, x: Val, loc: KeyLocation)
    requires
        fn_answers_int(s.hash_func.value), fn_answers_bool(s.eq_func.value),
        locate_post(s, x, Ok::<Result<KeyLocation, ErrV>, RuntimeViolation>(Ok(loc))),
    ensures
        match loc {
            KeyLocation::Vacant(h) => hashes_to(s.hash_func.value, x, h) && !s.inner@.contains_key(h),
            KeyLocation::Missing(h) => hashes_to(s.hash_func.value, x, h) && s.inner@.contains_key(h) && all_false(s.eq_func.value, x, keys(s.inner@[h]@), s.inner@[h]@.len() as int),
            KeyLocation::Found((h, i)) => hashes_to(s.hash_func.value, x, h) && s.inner@.contains_key(h) && 0 <= i < s.inner@[h]@.len()
                && is_true(eq_ans(s.eq_func.value, x, s.inner@[h]@[i as int].0)) && all_false(s.eq_func.value, x, keys(s.inner@[h]@), i as int),
        },
{
    let r = Ok::<Result<KeyLocation, ErrV>, RuntimeViolation>(Ok(loc));
    assert(r->Ok_0 == Ok::<KeyLocation, ErrV>(loc));
    assert(hash_ans(s.hash_func.value, x) is Ok);
    let hv = hash_ans(s.hash_func.value, x)->Ok_0;
    assert(hv.value is Int);
    assert(0 <= hv.value->Int_0.val() <= u64::MAX);
    let h = hv.value->Int_0.val() as u64;
    if s.inner@.contains_key(h) {
        let ef = s.eq_func.value;
        let ks = keys(s.inner@[h]@);
        assert(s.inner@[h].len() == ks.len());
        assert(scan_result(r, ef, x, ks, h));
        let k0 = lemma_first(ef, x, ks, ks.len() as int);
        lemma_scan(r, ef, x, ks, h, loc, k0);
    }
}
/// the key was found at (h, i): its value is replaced
proof fn lemma_replaced(a: Table<Val>, hf: XValue, ef: XValue, m: Table<Val>, len: int, items: Seq<XResult<(Val, Val)>>, k: int, x: Val, v: Val, h: u64, i: int, b2: Vec<(Val, Val)>, m2: Table<Val>)
    requires inv(a, hf, ef, m, len, items, k), 0 <= k < items.len(), items[k] == Ok::<Result<(Val, Val), ErrV>, RuntimeViolation>(Ok((x, v))),
        hashes_to(hf, x, h), m.contains_key(h), 0 <= i < m[h]@.len(), is_true(eq_ans(ef, x, m[h]@[i].0)), all_false(ef, x, keys(m[h]@), i),
        m2 == m.insert(h, b2), b2@ == m[h]@.update(i, (m[h]@[i].0, v)),
    ensures inv(a, hf, ef, m2, len, items, k + 1),
{
    broadcast use axiom_total_insert;
    assert(keys(b2@) =~= keys(m[h]@));
    assert forall|h2: u64| #[trigger] m2.contains_key(h2) implies keys(m2[h2]@) == keys(m[h2]@) && m2[h2]@.len() == m[h2]@.len() && m.contains_key(h2) by {}
    assert(keys_retained(a, m2)) by {
        assert forall|h2: u64| #[trigger] a.contains_key(h2) implies m2.contains_key(h2) && a[h2]@.len() <= m2[h2]@.len() && keys(m2[h2]@).take(a[h2]@.len() as int) =~= keys(a[h2]@) by {
            assert(m.contains_key(h2));
            assert(keys(m[h2]@).take(a[h2]@.len() as int) =~= keys(a[h2]@));
        }
    }
    assert forall|j: int| 0 <= j < k + 1 implies is_item(items[j]) && present(m2, hf, ef, item_of(#[trigger] items[j]).0) by {
        let y = item_of(items[j]).0;
        if j < k {
            assert(present(m, hf, ef, y));
            let (h1, i1) = choose|h1: u64, i1: int| hashes_to(hf, y, h1) && m.contains_key(h1) && 0 <= i1 < m[h1]@.len() && ((#[trigger] m[h1]@[i1]).0 == y || is_true(eq_ans(ef, y, m[h1]@[i1].0)));
            assert(m2[h1]@[i1].0 == m[h1]@[i1].0) by { assert(keys(m2[h1]@)[i1] == keys(m[h1]@)[i1]); }
        } else {
            assert(m2[h]@[i].0 == m[h]@[i].0);
        }
    }
    assert(only_new(a, m2, ef, items, k + 1)) by {
        assert forall|h2: u64, i2: int| m2.contains_key(h2) && (if a.contains_key(h2) { a[h2]@.len() } else { 0 }) <= i2 < m2[h2]@.len() implies {
            &&& exists|j: int| 0 <= j < k + 1 && is_item(items[j]) && item_of(items[j]).0 == (#[trigger] m2[h2]@[i2]).0
            &&& all_false(ef, m2[h2]@[i2].0, keys(m2[h2]@), i2)
        } by {
            assert(m2[h2]@[i2].0 == m[h2]@[i2].0) by { assert(keys(m2[h2]@)[i2] == keys(m[h2]@)[i2]); }
            let j = choose|j: int| 0 <= j < k && is_item(items[j]) && item_of(items[j]).0 == m[h2]@[i2].0;
            assert(0 <= j < k + 1);
        }
    }
    assert(vals_ok(a, m2, ef, items, k + 1)) by {
        assert forall|h2: u64, i2: int| m2.contains_key(h2) && 0 <= i2 < m2[h2]@.len() implies {
            ||| a.contains_key(h2) && i2 < a[h2]@.len() && (#[trigger] m2[h2]@[i2]).1 == a[h2]@[i2].1
            ||| exists|j: int| 0 <= j < k + 1 && is_item(items[j]) && item_of(items[j]).1 == m2[h2]@[i2].1
                    && (item_of(items[j]).0 == m2[h2]@[i2].0 || is_true(eq_ans(ef, item_of(items[j]).0, m2[h2]@[i2].0)))
        } by {
            if h2 == h && i2 == i {
                assert(is_item(items[k]) && item_of(items[k]).1 == m2[h2]@[i2].1 && is_true(eq_ans(ef, item_of(items[k]).0, m2[h2]@[i2].0)));
            } else {
                assert(m2[h2]@[i2] == m[h2]@[i2]);
                if !(a.contains_key(h2) && i2 < a[h2]@.len() && m[h2]@[i2].1 == a[h2]@[i2].1) {
                    let j = choose|j: int| 0 <= j < k && is_item(items[j]) && item_of(items[j]).1 == m[h2]@[i2].1
                        && (item_of(items[j]).0 == m[h2]@[i2].0 || is_true(eq_ans(ef, item_of(items[j]).0, m[h2]@[i2].0)));
                    assert(0 <= j < k + 1);
                }
            }
        }
    }
    assert(bound_to(m2, hf, ef, x, v)) by { assert(m2[h]@[i].1 == v); }
}
/// the pair was appended to the bucket of the key's hash (or opened it)
proof fn lemma_added(a: Table<Val>, hf: XValue, ef: XValue, m: Table<Val>, len: int, items: Seq<XResult<(Val, Val)>>, k: int, x: Val, v: Val, h: u64, b2: Vec<(Val, Val)>, m2: Table<Val>)
    requires inv(a, hf, ef, m, len, items, k), 0 <= k < items.len(), items[k] == Ok::<Result<(Val, Val), ErrV>, RuntimeViolation>(Ok((x, v))),
        hashes_to(hf, x, h), m2 == m.insert(h, b2),
        m.contains_key(h) ==> b2@ == m[h]@.push((x, v)) && all_false(ef, x, keys(m[h]@), m[h]@.len() as int),
        !m.contains_key(h) ==> b2@ == seq![(x, v)],
    ensures inv(a, hf, ef, m2, len + 1, items, k + 1),
{
    broadcast use axiom_total_insert;
    reveal(all_false);
    let old_len: int = if m.contains_key(h) { m[h]@.len() as int } else { 0 };
    assert(b2@.len() == old_len + 1);
    assert(b2@[old_len] == (x, v));
    assert(forall|i: int| 0 <= i < old_len ==> b2@[i] == m[h]@[i]);
    assert(keys_retained(a, m2)) by {
        assert forall|h2: u64| #[trigger] a.contains_key(h2) implies m2.contains_key(h2) && a[h2]@.len() <= m2[h2]@.len() && keys(m2[h2]@).take(a[h2]@.len() as int) =~= keys(a[h2]@) by {
            assert(m.contains_key(h2));
            assert(keys(m[h2]@).take(a[h2]@.len() as int) =~= keys(a[h2]@));
        }
    }
    assert forall|j: int| 0 <= j < k + 1 implies is_item(items[j]) && present(m2, hf, ef, item_of(#[trigger] items[j]).0) by {
        let y = item_of(items[j]).0;
        if j < k {
            assert(present(m, hf, ef, y));
            let (h1, i1) = choose|h1: u64, i1: int| hashes_to(hf, y, h1) && m.contains_key(h1) && 0 <= i1 < m[h1]@.len() && ((#[trigger] m[h1]@[i1]).0 == y || is_true(eq_ans(ef, y, m[h1]@[i1].0)));
            assert(m2.contains_key(h1) && m2[h1]@[i1] == m[h1]@[i1]);
        } else {
            assert(m2[h]@[old_len].0 == x);
        }
    }
    assert(only_new(a, m2, ef, items, k + 1)) by {
        assert forall|h2: u64, i2: int| m2.contains_key(h2) && (if a.contains_key(h2) { a[h2]@.len() } else { 0 }) <= i2 < m2[h2]@.len() implies {
            &&& exists|j: int| 0 <= j < k + 1 && is_item(items[j]) && item_of(items[j]).0 == (#[trigger] m2[h2]@[i2]).0
            &&& all_false(ef, m2[h2]@[i2].0, keys(m2[h2]@), i2)
        } by {
            if h2 == h && i2 == old_len {
                assert(is_item(items[k]) && item_of(items[k]).0 == m2[h2]@[i2].0);
                assert forall|q: int| 0 <= q < i2 implies is_false(#[trigger] eq_ans(ef, m2[h2]@[i2].0, keys(m2[h2]@)[q])) by {
                    assert(keys(m2[h2]@)[q] == keys(m[h]@)[q]);
                }
            } else {
                assert(m.contains_key(h2));
                assert(m2[h2]@[i2] == m[h2]@[i2]);
                let j = choose|j: int| 0 <= j < k && is_item(items[j]) && item_of(items[j]).0 == m[h2]@[i2].0;
                assert(0 <= j < k + 1);
                assert forall|q: int| 0 <= q < i2 implies is_false(#[trigger] eq_ans(ef, m2[h2]@[i2].0, keys(m2[h2]@)[q])) by {
                    assert(keys(m2[h2]@)[q] == keys(m[h2]@)[q]);
                }
            }
        }
    }
    assert(vals_ok(a, m2, ef, items, k + 1)) by {
        assert forall|h2: u64, i2: int| m2.contains_key(h2) && 0 <= i2 < m2[h2]@.len() implies {
            ||| a.contains_key(h2) && i2 < a[h2]@.len() && (#[trigger] m2[h2]@[i2]).1 == a[h2]@[i2].1
            ||| exists|j: int| 0 <= j < k + 1 && is_item(items[j]) && item_of(items[j]).1 == m2[h2]@[i2].1
                    && (item_of(items[j]).0 == m2[h2]@[i2].0 || is_true(eq_ans(ef, item_of(items[j]).0, m2[h2]@[i2].0)))
        } by {
            if h2 == h && i2 == old_len {
                assert(is_item(items[k]) && item_of(items[k]).1 == m2[h2]@[i2].1 && item_of(items[k]).0 == m2[h2]@[i2].0);
            } else {
                assert(m.contains_key(h2));
                assert(m2[h2]@[i2] == m[h2]@[i2]);
                if !(a.contains_key(h2) && i2 < a[h2]@.len() && m[h2]@[i2].1 == a[h2]@[i2].1) {
                    let j = choose|j: int| 0 <= j < k && is_item(items[j]) && item_of(items[j]).1 == m[h2]@[i2].1
                        && (item_of(items[j]).0 == m[h2]@[i2].0 || is_true(eq_ans(ef, item_of(items[j]).0, m[h2]@[i2].0)));
                    assert(0 <= j < k + 1);
                }
            }
        }
    }
    assert(bound_to(m2, hf, ef, x, v)) by {
        assert(m2[h]@[old_len].1 == v && m2[h]@[old_len].0 == x);
        assert forall|q: int| 0 <= q < old_len implies is_false(#[trigger] eq_ans(ef, x, keys(m2[h]@)[q])) by {
            assert(keys(m2[h]@)[q] == keys(m[h]@)[q]);
        }
    }
}

// ------------------------------------------------------------------ update_from_keys: the left fold of the single-key update
/// a mapping value with the receiver's functions and the given table / counter
spec fn with_table(s: XMapping<Val>, m: Table<Val>, len: usize) -> XMapping<Val> {
    XMapping { inner: HashMap { m: Ghost(m) }, len, hash_func: s.hash_func, eq_func: s.eq_func }
}
/// the value update_from_keys computes for a key at a location: on_occupied(key, stored value) / on_empty(key)
spec fn ufk_value(m: Table<Val>, loc: KeyLocation, item: Val, fe: Func, fo: Func) -> EvaluatedValue {
    match loc {
        KeyLocation::Found((h, i)) => apply(fo, seq![Ok(item), Ok(m[h]@[i as int].1)]),
        _ => apply(fe, seq![Ok(item)]),
    }
}
/// one key: located in s0, its value computed and stored there, nothing else changed
spec fn ufk_step(s0: XMapping<Val>, m1: Table<Val>, len1: usize, item: Val, fe: Func, fo: Func) -> bool {
    exists|loc: KeyLocation| #[trigger] loc_valid(s0.inner@, loc)
        && locate_post(s0, item, Ok::<Result<KeyLocation, ErrV>, RuntimeViolation>(Ok(loc)))
        && (ufk_value(s0.inner@, loc, item, fe, fo) matches Ok(v) && stored(s0.inner@, s0.len, m1, len1, loc, item, v))
}
/// the first n keys, in order: `st` lists the tables / counters before, between and after the single-key updates
spec fn ufk_chain(s: XMapping<Val>, items: Seq<XResult<Val>>, n: int, st: Seq<(Table<Val>, usize)>, fe: Func, fo: Func) -> bool {
    &&& st.len() == n + 1 && st[0] == (s.inner@, s.len)
    &&& forall|j: int| 0 <= j < n ==> ((#[trigger] items[j]) matches Ok(Ok(item))
            && ufk_step(with_table(s, st[j].0, st[j].1), st[j + 1].0, st[j + 1].1, item, fe, fo))
}
/// the table m / counter len result from updating the first n keys, in order
spec fn ufk_run(s: XMapping<Val>, items: Seq<XResult<Val>>, n: int, m: Table<Val>, len: usize, fe: Func, fo: Func) -> bool {
    exists|st: Seq<(Table<Val>, usize)>| #[trigger] ufk_chain(s, items, n, st, fe, fo) && st[n] == (m, len)
}

/// locate's postcondition determines its answer: two answers are both error values, or the same location
broadcast proof fn lemma_locate_unique<V>(s: XMapping<V>, x: Val, x1: Result<KeyLocation, ErrV>, x2: Result<KeyLocation, ErrV>)
    requires
        fn_answers_int(s.hash_func.value), fn_answers_bool(s.eq_func.value),
        #[trigger] locate_post(s, x, Ok::<Result<KeyLocation, ErrV>, RuntimeViolation>(x1)),
        #[trigger] locate_post(s, x, Ok::<Result<KeyLocation, ErrV>, RuntimeViolation>(x2)),
    ensures x1 is Ok == x2 is Ok, x1 is Ok ==> x1 == x2,
{
    let r1 = Ok::<Result<KeyLocation, ErrV>, RuntimeViolation>(x1);
    let r2 = Ok::<Result<KeyLocation, ErrV>, RuntimeViolation>(x2);
    assert(r1->Ok_0 == x1 && r2->Ok_0 == x2);
    if hash_ans(s.hash_func.value, x) is Ok {
        let hv = hash_ans(s.hash_func.value, x)->Ok_0;
        if 0 <= hv.value->Int_0.val() <= u64::MAX {
            let h = hv.value->Int_0.val() as u64;
            if s.inner@.contains_key(h) {
                let ef = s.eq_func.value;
                let ks = keys(s.inner@[h]@);
                assert(scan_result(r1, ef, x, ks, h));
                assert(scan_result(r2, ef, x, ks, h));
                let k0 = lemma_first(ef, x, ks, ks.len() as int);
            }
        }
    }
}
/// the key can be found: locate's postcondition admits a Found answer
spec fn findable<V>(s: XMapping<V>, x: Val) -> bool {
    exists|h: u64, i: usize| #[trigger] locate_post(s, x, Ok::<Result<KeyLocation, ErrV>, RuntimeViolation>(Ok(KeyLocation::Found((h, i)))))
}

// @@INCLUDE stdx@@

// @@EXTRACTED@@

} // verus!
fn main() {}
