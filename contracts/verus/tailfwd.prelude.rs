// V-tailfwd prelude (C07): the natives that forward the tail flag.
//
// A native receives `tca` ("a tail slot is available") and evaluates its arguments either with
// `ns.eval(&args[i], rt, FLAG)` or with the helper `eval(&args[i], ns, &rt)` (never tail).  The
// documented carriers (if, if_error, and, or, the optional combinators, cast, to_str, member access,
// the empty-tuple `and`, partial application) must evaluate their *selected* argument -- the slot listed
// per carrier in the unit file -- with the caller's flag, and every other argument in non-tail mode.
//
// The functions after the marker are SKELETONS (R-skel): control flow, early exits and the evaluation
// calls are kept in order, with the flag argument rendered exactly; everything else is dropped.
#![allow(unused_imports, dead_code, unused_variables, unreachable_code, unused_must_use)]
use vstd::prelude::*;

verus! {

pub struct Viol;

/// evaluation of the carrier's documented tail slot: must hand on the caller's flag (a self-call
/// there stays a tail call; if the caller has no tail slot neither has the callee)
#[verifier::external_body]
pub fn ev_tail(flag: bool, tca: bool)
    requires flag == tca,
{ unimplemented!() }

/// evaluation of any other argument: never in tail mode (its value is used by the native)
#[verifier::external_body]
pub fn ev_nontail(flag: bool)
    requires !flag,
{ unimplemented!() }

/// the helper `eval(e, ns, &rt)` of builtin/core.rs: non-tail by construction
#[verifier::external_body]
pub fn ev_plain() { unimplemented!() }

/// construction of `TailedEvalResult::TailCall`: only when the caller offered a tail slot (otherwise the
/// value would reach `unwrap_value`, which panics on a tail call)
#[verifier::external_body]
pub fn mk_tailcall(tail_available: bool)
    requires tail_available,
{ unimplemented!() }

#[verifier::external_body]
pub fn sk_nondet() -> bool { unimplemented!() }
#[verifier::external_body]
pub fn sk_ret() -> Result<(), Viol> { unimplemented!() }

// @@EXTRACTED@@

} // verus!
fn main() {}
