// V-idx prelude (C15, "index normalisation"): XSequence::value_to_idx (src/builtin/sequence.rs), real text.
// Contract: for a sequence of finite length L the index i is accepted exactly when -L <= i < L and the
// result is i (non-negative) resp. i + L (negative); every other request is an error value; for an
// infinite sequence a negative index is an error value and a non-negative one is itself (when it is
// representable).  LazyBigint by V-int's contracts; `Cow<LazyBigint>` by the enum below (Deref methods
// spelled out).
#![allow(unused_imports, dead_code, unused_variables)]
use vstd::prelude::*;
use std::rc::Rc;

verus! {

// @@INCLUDE lazyint@@
/// std::borrow::Cow<LazyBigint>
pub enum Cow<'a> { Borrowed(&'a LazyBigint), Owned(LazyBigint) }
impl<'a> Cow<'a> {
    pub open spec fn val(&self) -> int { match self { Cow::Borrowed(b) => b.val(), Cow::Owned(o) => o.val() } }
    // through Deref: Signed::is_negative, ToPrimitive::to_usize of LazyBigint
    #[verifier::external_body]
    pub fn is_negative(&self) -> (r: bool) ensures r == (self.val() < 0) { unimplemented!() }
    #[verifier::external_body]
    pub fn to_usize(&self) -> (r: Option<usize>)
        ensures r == (if 0 <= self.val() <= usize::MAX { Some(self.val() as usize) } else { None::<usize> }),
    { unimplemented!() }
    #[verifier::external_body]
    pub fn into_owned(self) -> (r: LazyBigint) ensures r.val() == self.val() { unimplemented!() }
}
pub struct RuntimeViolation;
pub struct ManagedXError;
pub type RuntimeResult<X> = Result<X, RuntimeViolation>;
pub type XResult<X> = RuntimeResult<Result<X, Rc<ManagedXError>>>;
pub struct Rt;
impl ManagedXError {
    #[verifier::external_body]
    pub fn new(error: &str, rt: Rt) -> (r: RuntimeResult<Rc<ManagedXError>>) { unimplemented!() }
}
/// the sequence as value_to_idx sees it: its length (None: infinite)
pub struct XSequence { pub l: Ghost<Option<usize>> }
impl XSequence {
    pub open spec fn slen(&self) -> Option<usize> { self.l@ }
    #[verifier::external_body]
    pub fn len(&self) -> (r: Option<usize>) ensures r == self.slen() { unimplemented!() }
}

// @@INCLUDE stdx@@

// @@EXTRACTED@@

} // verus!
fn main() {}
