// V-perm prelude: contracts for src/permissions.rs, RuntimeLimits::check_permission (src/runtime.rs).
// std::collections::HashMap is the real std type with vstd's specification (view = Map); the three
// axioms below state std facts vstd does not provide for `&'static str` keys.
#![allow(unused_imports, dead_code, unused_variables)]
use vstd::prelude::*;
use vstd::std_specs::hash::*;
use std::collections::HashMap;
use std::rc::Rc;
use std::time::Duration;

verus! {

pub mod ax {
    use vstd::prelude::*;
    use vstd::std_specs::hash::*;
    verus! {
    /// `Hash`/`Eq` of `&str` are consistent (documented std behaviour)
    pub broadcast axiom fn axiom_static_str_obeys_key_model()
        ensures #[trigger] obeys_key_model::<&'static str>();
    /// `<&str as Borrow<str>>::borrow` is the identity: a `str` lookup finds the equal `&str` key
    pub broadcast axiom fn axiom_contains_str_key<V>(m: Map<&'static str, V>, k: &'static str)
        ensures #[trigger] contains_borrowed_key::<&'static str, V, str>(m, k) <==> m.contains_key(k);
    pub broadcast axiom fn axiom_maps_str_key<V>(m: Map<&'static str, V>, k: &'static str, v: V)
        ensures #[trigger] maps_borrowed_key_to_value::<&'static str, V, str>(m, k, v) <==> (m.contains_key(k) && m[k] == v);
    }
}
broadcast use {vstd::std_specs::hash::group_hash_axioms, ax::axiom_static_str_obeys_key_model, ax::axiom_contains_str_key, ax::axiom_maps_str_key};

#[verifier::external_type_specification]
#[verifier::external_body]
pub struct ExIoError(std::io::Error);

// ------------------------------------------------------------------ abstraction
impl PermissionSet {
    /// the stored overrides
    pub closed spec fn view(&self) -> Map<&'static str, bool> { self.0@ }
    /// C11's `allowed(limits, P)`: stored value if present, else the permission's default
    pub open spec fn allowed(&self, p: Permission) -> bool {
        if self@.contains_key(p.id) { self@[p.id] } else { p.default }
    }
}

// @@EXTRACTED@@

} // verus!
fn main() {}
