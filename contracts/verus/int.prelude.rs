// V-int prelude: contracts and axiomatised dependencies for src/util/lazy_bigint.rs.
// Everything between this header and the marker is hand-written SPECIFICATION (no executable
// xray code): the BigInt axioms (num-bigint = mathematical integers), and the *SpecImpl
// contracts that Verus checks the extracted real bodies against.
#![allow(unused_imports, dead_code, unused_variables, non_snake_case)]
use vstd::prelude::*;
use vstd::std_specs::ops::*;
use vstd::std_specs::convert::*;
use vstd::std_specs::cmp::*;
use core::ops::{Add, AddAssign, BitAnd, BitOr, BitXor, Div, Mul, MulAssign, Neg, Rem, Sub};
use core::cmp::Ordering;

verus! {

// ------------------------------------------------------------------ mathematical vocabulary
pub mod arith {
    use vstd::prelude::*;
    use vstd::arithmetic::div_mod::*;
    verus! {
    pub open spec fn fits(x: int) -> bool { i64::MIN <= x <= i64::MAX }
    /// truncated division / remainder (Rust `/` and `%` on integers and on num-bigint): vstd's
    /// definitions, which are also what vstd's contract for the primitive i64 `/` and `%` uses
    pub open spec fn tdiv(a: int, b: int) -> int { rust_div(a, b) }
    pub open spec fn trem(a: int, b: int) -> int { rust_rem(a, b) }
    /// named product so that nonlinear facts are only introduced through the lemmas below
    pub open spec fn smul(a: int, b: int) -> int { a * b }
    /// a non-fitting factor times a non-zero factor does not fit -- with the single exception
    /// 2^63 * -1 == i64::MIN, which the statement has to exclude (it is false otherwise)
    pub broadcast proof fn lemma_smul_big_nonzero(a: int, b: int)
        requires !fits(a), b != 0, !(a == 0x8000_0000_0000_0000 && b == -1),
        ensures !fits(#[trigger] smul(a, b)),
    {
        if a > 0 {
            if b >= 1 {
                assert(a * b >= a) by(nonlinear_arith) requires a > 0, b >= 1;
            } else {
                assert(a * b <= -a) by(nonlinear_arith) requires a > 0, b <= -1;
                if b <= -2 {
                    assert(a * b <= -2 * a) by(nonlinear_arith) requires a > 0, b <= -2;
                }
            }
        } else {
            if b >= 1 {
                assert(a * b <= a) by(nonlinear_arith) requires a < 0, b >= 1;
            } else {
                assert(a * b >= -a) by(nonlinear_arith) requires a < 0, b <= -1;
            }
        }
    }
    pub broadcast proof fn lemma_smul_commutes(a: int, b: int)
        ensures #[trigger] smul(a, b) == smul(b, a),
    {
        assert(a * b == b * a) by(nonlinear_arith);
    }
    proof fn lemma_mod_neg_bound(x: int, y: int) requires y < 0 ensures 0 <= x % y < -y {}
    proof fn euclid_bound(x: int, y: int) requires x >= 0, y != 0 ensures -x <= x / y <= x
    {
        lemma_fundamental_div_mod(x, y);
        let q = x / y; let r = x % y;
        if y > 0 {
            lemma_mod_bound(x, y);
            assert(q >= 0 && q <= x) by(nonlinear_arith) requires x == y * q + r, 0 <= r < y, y > 0, x >= 0;
        } else {
            lemma_mod_neg_bound(x, y);
            assert(q <= 0 && q >= -x) by(nonlinear_arith) requires x == y * q + r, 0 <= r < -y, y < 0, x >= 0;
        }
    }
    /// truncated quotient and remainder of two i64 values are i64 values (except MIN / -1)
    pub broadcast proof fn lemma_rust_div_fits(a: int, b: int)
        requires fits(a), fits(b), b != 0, !(a == i64::MIN && b == -1),
        ensures fits(#[trigger] tdiv(a, b)),
    {
        if a >= 0 { euclid_bound(a, b); } else {
            euclid_bound(-a, b);
            if a == i64::MIN {
                lemma_fundamental_div_mod(-a, b);
                let q = (-a) / b; let r = (-a) % b;
                if b > 0 { lemma_mod_bound(-a, b); } else {
                    lemma_mod_neg_bound(-a, b);
                    assert(q > a) by(nonlinear_arith) requires -a == b * q + r, 0 <= r < -b, b <= -2, a < 0;
                }
            }
        }
    }
    pub broadcast proof fn lemma_rust_rem_fits(a: int, b: int)
        requires fits(a), fits(b), b != 0,
        ensures fits(#[trigger] trem(a, b)),
    {
        if b > 0 { lemma_mod_bound(a, b); lemma_mod_bound(-a, b); }
        else { lemma_mod_neg_bound(a, b); lemma_mod_neg_bound(-a, b); }
    }
    pub broadcast group group_smul { lemma_smul_big_nonzero, lemma_smul_commutes, lemma_rust_div_fits, lemma_rust_rem_fits }
    }
}
pub use arith::*;
// (module-level broadcast use is at the end of the vocabulary section)
pub open spec fn big(x: int) -> BigInt { BigInt { v: Ghost(x) } }
/// floored / ceiling division (num_integer::div_floor / div_ceil)
pub open spec fn fdiv(a: int, b: int) -> int
    recommends b != 0
{
    if b > 0 { a / b } else { (-a) / (-b) }
}
pub open spec fn cdiv(a: int, b: int) -> int
    recommends b != 0
{
    -fdiv(-a, b)
}
pub open spec fn int_cmp(a: int, b: int) -> Ordering {
    if a < b { Ordering::Less } else if a == b { Ordering::Equal } else { Ordering::Greater }
}
pub uninterp spec fn ipow(b: int, e: nat) -> int;
pub mod bits {
    use vstd::prelude::*;
    verus! {
    pub uninterp spec fn iand(a: int, b: int) -> int;
    pub uninterp spec fn ior(a: int, b: int) -> int;
    pub uninterp spec fn ixor(a: int, b: int) -> int;
    /// the only facts assumed about two's-complement bitwise operations on unbounded integers:
    /// they agree with the i64 operations on i64 operands and are commutative
    pub broadcast axiom fn axiom_iand_i64(a: i64, b: i64)
        ensures #[trigger] iand(a as int, b as int) == (a & b) as int;
    pub broadcast axiom fn axiom_ior_i64(a: i64, b: i64)
        ensures #[trigger] ior(a as int, b as int) == (a | b) as int;
    pub broadcast axiom fn axiom_ixor_i64(a: i64, b: i64)
        ensures #[trigger] ixor(a as int, b as int) == (a ^ b) as int;
    pub broadcast axiom fn axiom_iand_comm(a: int, b: int)
        ensures #[trigger] iand(a, b) == iand(b, a);
    pub broadcast axiom fn axiom_ior_comm(a: int, b: int)
        ensures #[trigger] ior(a, b) == ior(b, a);
    pub broadcast axiom fn axiom_ixor_comm(a: int, b: int)
        ensures #[trigger] ixor(a, b) == ixor(b, a);
    pub broadcast group group_bits { axiom_iand_i64, axiom_ior_i64, axiom_ixor_i64, axiom_iand_comm, axiom_ior_comm, axiom_ixor_comm }
    }
}
pub use bits::*;
broadcast use {arith::group_smul, bits::group_bits};

// ------------------------------------------------------------------ BigInt: trusted axioms
pub struct BigInt { pub v: Ghost<int> }
impl PartialEq for BigInt {
    #[verifier::external_body]
    fn eq(&self, other: &Self) -> bool { unimplemented!() }
}
impl Eq for BigInt {}
impl PartialEqSpecImpl for BigInt {
    open spec fn obeys_eq_spec() -> bool { true }
    open spec fn eq_spec(&self, other: &Self) -> bool { self.v@ == other.v@ }
}


impl Clone for BigInt {
    #[verifier::external_body]
    fn clone(&self) -> (r: Self) ensures r == *self { unimplemented!() }
}
impl From<i64> for BigInt {
    #[verifier::external_body]
    fn from(x: i64) -> Self { unimplemented!() }
}
impl FromSpecImpl<i64> for BigInt {
    open spec fn obeys_from_spec() -> bool { true }
    open spec fn from_spec(x: i64) -> Self { big(x as int) }
}
impl Neg for BigInt {
    type Output = BigInt;
    #[verifier::external_body]
    fn neg(self) -> BigInt { unimplemented!() }
}
impl NegSpecImpl for BigInt {
    open spec fn obeys_neg_spec() -> bool { true }
    open spec fn neg_req(self) -> bool { true }
    open spec fn neg_spec(self) -> BigInt { big(-self.v@) }
}

macro_rules! big_binop {
    ($Tr:ident, $m:ident, $SpecTr:ident, $obeys:ident, $req:ident, $spec:ident, $L:ty, $R:ty, |$a:ident, $b:ident| $reqe:expr, $val:expr) => {
        verus! {
        impl<'a> $Tr<$R> for $L {
            type Output = BigInt;
            #[verifier::external_body]
            fn $m(self, rhs: $R) -> BigInt { unimplemented!() }
        }
        impl<'a> $SpecTr<$R> for $L {
            open spec fn $obeys() -> bool { true }
            open spec fn $req(self, rhs: $R) -> bool { let $a = self; let $b = rhs; $reqe }
            open spec fn $spec(self, rhs: $R) -> BigInt { let $a = self; let $b = rhs; big($val) }
        }
        }
    };
}

// Add
big_binop!(Add, add, AddSpecImpl, obeys_add_spec, add_req, add_spec, BigInt, &'a i64, |a, b| true, a.v.view() + *b);
big_binop!(Add, add, AddSpecImpl, obeys_add_spec, add_req, add_spec, &'a BigInt, &'a i64, |a, b| true, a.v.view() + *b);
big_binop!(Add, add, AddSpecImpl, obeys_add_spec, add_req, add_spec, &'a BigInt, &'a BigInt, |a, b| true, a.v.view() + b.v.view());
// Sub
big_binop!(Sub, sub, SubSpecImpl, obeys_sub_spec, sub_req, sub_spec, BigInt, &'a i64, |a, b| true, a.v.view() - *b);
big_binop!(Sub, sub, SubSpecImpl, obeys_sub_spec, sub_req, sub_spec, BigInt, &'a BigInt, |a, b| true, a.v.view() - b.v.view());
big_binop!(Sub, sub, SubSpecImpl, obeys_sub_spec, sub_req, sub_spec, &'a BigInt, &'a i64, |a, b| true, a.v.view() - *b);
big_binop!(Sub, sub, SubSpecImpl, obeys_sub_spec, sub_req, sub_spec, &'a BigInt, &'a BigInt, |a, b| true, a.v.view() - b.v.view());
// Mul
big_binop!(Mul, mul, MulSpecImpl, obeys_mul_spec, mul_req, mul_spec, BigInt, &'a i64, |a, b| true, smul(a.v.view(), *b as int));
big_binop!(Mul, mul, MulSpecImpl, obeys_mul_spec, mul_req, mul_spec, &'a BigInt, &'a i64, |a, b| true, smul(a.v.view(), *b as int));
big_binop!(Mul, mul, MulSpecImpl, obeys_mul_spec, mul_req, mul_spec, &'a BigInt, &'a BigInt, |a, b| true, smul(a.v.view(), b.v.view()));
// Rem (num-bigint panics on a zero divisor: that is the `req`)
big_binop!(Rem, rem, RemSpecImpl, obeys_rem_spec, rem_req, rem_spec, BigInt, i64, |a, b| b != 0, trem(a.v.view(), b as int));
big_binop!(Rem, rem, RemSpecImpl, obeys_rem_spec, rem_req, rem_spec, i64, BigInt, |a, b| b.v.view() != 0, trem(a as int, b.v.view()));
big_binop!(Rem, rem, RemSpecImpl, obeys_rem_spec, rem_req, rem_spec, BigInt, BigInt, |a, b| b.v.view() != 0, trem(a.v.view(), b.v.view()));
big_binop!(Rem, rem, RemSpecImpl, obeys_rem_spec, rem_req, rem_spec, &'a BigInt, &'a i64, |a, b| *b != 0, trem(a.v.view(), *b as int));
big_binop!(Rem, rem, RemSpecImpl, obeys_rem_spec, rem_req, rem_spec, &'a i64, &'a BigInt, |a, b| b.v.view() != 0, trem(*a as int, b.v.view()));
big_binop!(Rem, rem, RemSpecImpl, obeys_rem_spec, rem_req, rem_spec, &'a BigInt, &'a BigInt, |a, b| b.v.view() != 0, trem(a.v.view(), b.v.view()));
// Div
big_binop!(Div, div, DivSpecImpl, obeys_div_spec, div_req, div_spec, BigInt, i64, |a, b| b != 0, tdiv(a.v.view(), b as int));
big_binop!(Div, div, DivSpecImpl, obeys_div_spec, div_req, div_spec, i64, BigInt, |a, b| b.v.view() != 0, tdiv(a as int, b.v.view()));
big_binop!(Div, div, DivSpecImpl, obeys_div_spec, div_req, div_spec, BigInt, BigInt, |a, b| b.v.view() != 0, tdiv(a.v.view(), b.v.view()));
// bitwise (two's complement on unbounded integers; only their agreement with i64 on fitting
// operands is axiomatised below)
big_binop!(BitAnd, bitand, BitAndSpecImpl, obeys_bitand_spec, bitand_req, bitand_spec, BigInt, BigInt, |a, b| true, iand(a.v.view(), b.v.view()));
big_binop!(BitOr, bitor, BitOrSpecImpl, obeys_bitor_spec, bitor_req, bitor_spec, BigInt, BigInt, |a, b| true, ior(a.v.view(), b.v.view()));
big_binop!(BitXor, bitxor, BitXorSpecImpl, obeys_bitxor_spec, bitxor_req, bitxor_spec, BigInt, BigInt, |a, b| true, ixor(a.v.view(), b.v.view()));

impl BigInt {
    #[verifier::external_body]
    pub fn abs(&self) -> (r: BigInt) ensures r.v@ == (if self.v@ >= 0 { self.v@ } else { -self.v@ }) { unimplemented!() }
    #[verifier::external_body]
    pub fn signum(&self) -> (r: BigInt) ensures r.v@ == (if self.v@ > 0 { 1int } else if self.v@ == 0 { 0int } else { -1int }) { unimplemented!() }
    #[verifier::external_body]
    pub fn is_positive(&self) -> (r: bool) ensures r == (self.v@ > 0) { unimplemented!() }
    #[verifier::external_body]
    pub fn is_negative(&self) -> (r: bool) ensures r == (self.v@ < 0) { unimplemented!() }
    #[verifier::external_body]
    pub fn cmp(&self, other: &BigInt) -> (r: Ordering) ensures r == int_cmp(self.v@, other.v@) { unimplemented!() }
    /// num_traits::Pow<BigUint> for BigInt
    #[verifier::external_body]
    pub fn pow(self, e: BigUint) -> (r: BigInt) ensures r.v@ == ipow(self.v@, e.v@) { unimplemented!() }
}
pub struct BigUint { pub v: Ghost<nat> }
impl TryFrom<i64> for BigUint {
    type Error = ();
    #[verifier::external_body]
    fn try_from(x: i64) -> Result<BigUint, ()> { unimplemented!() }
}
impl TryFromSpecImpl<i64> for BigUint {
    open spec fn obeys_try_from_spec() -> bool { true }
    open spec fn try_from_spec(x: i64) -> Result<BigUint, ()> {
        if x >= 0 { Ok(BigUint { v: Ghost(x as nat) }) } else { Err(()) }
    }
}
impl TryFrom<BigInt> for BigUint {
    type Error = ();
    #[verifier::external_body]
    fn try_from(x: BigInt) -> Result<BigUint, ()> { unimplemented!() }
}
impl TryFromSpecImpl<BigInt> for BigUint {
    open spec fn obeys_try_from_spec() -> bool { true }
    open spec fn try_from_spec(x: BigInt) -> Result<BigUint, ()> {
        if x.v@ >= 0 { Ok(BigUint { v: Ghost(x.v@ as nat) }) } else { Err(()) }
    }
}
impl TryFrom<BigInt> for i64 {
    type Error = ();
    #[verifier::external_body]
    fn try_from(x: BigInt) -> Result<i64, ()> { unimplemented!() }
}
impl TryFromSpecImpl<BigInt> for i64 {
    open spec fn obeys_try_from_spec() -> bool { true }
    open spec fn try_from_spec(x: BigInt) -> Result<i64, ()> {
        if fits(x.v@) { Ok(x.v@ as i64) } else { Err(()) }
    }
}
// std integer methods without a vstd specification (documented std semantics)
pub assume_specification [i64::abs] (a: i64) -> (r: i64)
    requires a != i64::MIN,
    ensures r as int == (if a >= 0 { a as int } else { -(a as int) });
pub assume_specification [i64::unsigned_abs] (a: i64) -> (r: u64)
    ensures r as int == (if a >= 0 { a as int } else { -(a as int) });
pub assume_specification [i64::signum] (a: i64) -> (r: i64)
    ensures r as int == (if a > 0 { 1int } else if a == 0 { 0int } else { -1int });
pub assume_specification [i64::is_positive] (a: i64) -> (r: bool) ensures r == (a > 0);
pub assume_specification [i64::is_negative] (a: i64) -> (r: bool) ensures r == (a < 0);
pub assume_specification [i64::checked_pow] (a: i64, e: u32) -> (r: Option<i64>)
    ensures match r { Some(v) => v as int == ipow(a as int, e as nat), None => !fits(ipow(a as int, e as nat)) };

/// num_integer::Integer::{div_floor, div_ceil} (free functions `div_floor`, `div_ceil`)
pub trait Integer: Sized {
    spec fn as_int(self) -> int;
    /// i64: the implementation computes `self / other` first, so MIN / -1 overflows
    spec fn div_ok(self, other: Self) -> bool;
}
impl Integer for i64 {
    open spec fn as_int(self) -> int { self as int }
    open spec fn div_ok(self, other: i64) -> bool { other != 0 && !(self == i64::MIN && other == -1) }
}
impl Integer for BigInt {
    open spec fn as_int(self) -> int { self.v@ }
    open spec fn div_ok(self, other: BigInt) -> bool { other.v@ != 0 }
}
#[verifier::external_body]
pub fn div_floor<T: Integer>(a: T, b: T) -> (r: T)
    requires a.div_ok(b),
    ensures r.as_int() == fdiv(a.as_int(), b.as_int()),
{ unimplemented!() }
#[verifier::external_body]
pub fn div_ceil<T: Integer>(a: T, b: T) -> (r: T)
    requires a.div_ok(b),
    ensures r.as_int() == cdiv(a.as_int(), b.as_int()),
{ unimplemented!() }

impl<'a> MulAssign<&'a BigInt> for BigInt {
    #[verifier::external_body]
    fn mul_assign(&mut self, rhs: &'a BigInt) { unimplemented!() }
}
impl<'a> MulAssignSpecImpl<&'a BigInt> for BigInt {
    open spec fn obeys_mul_assign_spec() -> bool { true }
    open spec fn mul_assign_req(&self, rhs: &'a BigInt) -> bool { true }
    open spec fn mul_assign_spec(&self, rhs: &'a BigInt) -> &BigInt { &big(smul(self.v@, rhs.v@)) }
}



// ------------------------------------------------------------------ LazyBigint: abstraction
impl LazyBigint {
    /// the mathematical integer denoted
    pub open spec fn val(self) -> int {
        match self { LazyBigint::Short(s) => s as int, LazyBigint::Long(b) => b.v@ }
    }
    /// representation invariant: `Long` only outside the i64 range (canonical form)
    pub open spec fn wf(self) -> bool {
        match self { LazyBigint::Short(s) => true, LazyBigint::Long(b) => !fits(b.v@) }
    }
}
/// the canonical representation of x
pub open spec fn lb(x: int) -> LazyBigint {
    if fits(x) { LazyBigint::Short(x as i64) } else { LazyBigint::Long(big(x)) }
}

/// C14 "equal integers are indistinguishable": canonical values with the same meaning are
/// structurally identical (derived PartialEq / Hash / Display see the same representation).
pub proof fn lemma_canonical_unique(a: LazyBigint, b: LazyBigint)
    requires a.wf(), b.wf(), a.val() == b.val(),
    ensures a == b,
{
}
pub proof fn lemma_lb_canonical(x: int)
    ensures lb(x).wf(), lb(x).val() == x,
{
}

// derived in the source (`#[derive(Eq, PartialEq, Clone)]`, dropped by R-drop): structural
impl PartialEq for LazyBigint {
    #[verifier::external_body]
    fn eq(&self, other: &Self) -> bool { unimplemented!() }
}
impl Eq for LazyBigint {}
impl PartialEqSpecImpl for LazyBigint {
    open spec fn obeys_eq_spec() -> bool { true }
    open spec fn eq_spec(&self, other: &Self) -> bool { *self == *other }
}
impl Clone for LazyBigint {
    #[verifier::external_body]
    fn clone(&self) -> (r: Self) ensures r == *self { unimplemented!() }
}

// `impl<T: TryInto<SmallInt> + Into<BigInt> + Clone> From<T> for LazyBigint` (generic, iterator
// of Option combinators): ASSUMED here with the contract below, DISCHARGED by K-int on the real
// generic impl for the instantiations used.
impl From<BigInt> for LazyBigint {
    #[verifier::external_body]
    fn from(x: BigInt) -> Self { unimplemented!() }
}
impl From<usize> for LazyBigint {
    #[verifier::external_body]
    fn from(x: usize) -> Self { unimplemented!() }
}
impl FromSpecImpl<usize> for LazyBigint {
    open spec fn obeys_from_spec() -> bool { true }
    open spec fn from_spec(x: usize) -> Self { lb(x as int) }
}
impl FromSpecImpl<BigInt> for LazyBigint {
    open spec fn obeys_from_spec() -> bool { true }
    open spec fn from_spec(x: BigInt) -> Self { lb(x.v@) }
}

// ------------------------------------------------------------------ contracts of the real impls
// One *SpecImpl per operator impl of the source.  `req` = representation invariant of the operands
// plus the precondition the callers in builtin/int.rs establish; `spec` = canonical representation
// of the mathematical result (strongest postcondition).
impl NegSpecImpl for LazyBigint {
    open spec fn obeys_neg_spec() -> bool { true }
    open spec fn neg_req(self) -> bool { self.wf() }
    open spec fn neg_spec(self) -> LazyBigint { lb(-self.val()) }
}

macro_rules! lazy_binop_contract {
    ($SpecTr:ident, $obeys:ident, $req:ident, $spec:ident, $L:ty, $R:ty, |$a:ident, $b:ident| $reqe:expr, $val:expr) => {
        verus! {
        impl<'a> $SpecTr<$R> for $L {
            open spec fn $obeys() -> bool { true }
            open spec fn $req(self, rhs: $R) -> bool { let $a = self; let $b = rhs; $a.wf() && $b.wf() && $reqe }
            open spec fn $spec(self, rhs: $R) -> LazyBigint { let $a = self; let $b = rhs; lb($val) }
        }
        }
    };
}
lazy_binop_contract!(AddSpecImpl, obeys_add_spec, add_req, add_spec, LazyBigint, LazyBigint, |a, b| true, a.val() + b.val());
lazy_binop_contract!(AddSpecImpl, obeys_add_spec, add_req, add_spec, &'a LazyBigint, &'a LazyBigint, |a, b| true, a.val() + b.val());
lazy_binop_contract!(SubSpecImpl, obeys_sub_spec, sub_req, sub_spec, LazyBigint, LazyBigint, |a, b| true, a.val() - b.val());
lazy_binop_contract!(SubSpecImpl, obeys_sub_spec, sub_req, sub_spec, &'a LazyBigint, &'a LazyBigint, |a, b| true, a.val() - b.val());
lazy_binop_contract!(MulSpecImpl, obeys_mul_spec, mul_req, mul_spec, LazyBigint, LazyBigint, |a, b| true, smul(a.val(), b.val()));
lazy_binop_contract!(MulSpecImpl, obeys_mul_spec, mul_req, mul_spec, &'a LazyBigint, &'a LazyBigint, |a, b| true, smul(a.val(), b.val()));
// floored modulo of the language = Rust `%` here? no: `mod` in int.rs calls `%` (truncated); the
// postcondition is the truncated remainder, the caller-established precondition is rhs != 0
lazy_binop_contract!(RemSpecImpl, obeys_rem_spec, rem_req, rem_spec, LazyBigint, LazyBigint, |a, b| b.val() != 0, trem(a.val(), b.val()));
lazy_binop_contract!(RemSpecImpl, obeys_rem_spec, rem_req, rem_spec, &'a LazyBigint, &'a LazyBigint, |a, b| b.val() != 0, trem(a.val(), b.val()));
// `/` has two call sites (binom, multinom in builtin/int.rs), both with a divisor that is a product of
// positive factors: the precondition is taken from them
lazy_binop_contract!(DivSpecImpl, obeys_div_spec, div_req, div_spec, LazyBigint, LazyBigint, |a, b| b.val() > 0, tdiv(a.val(), b.val()));
lazy_binop_contract!(BitAndSpecImpl, obeys_bitand_spec, bitand_req, bitand_spec, LazyBigint, LazyBigint, |a, b| true, iand(a.val(), b.val()));
lazy_binop_contract!(BitOrSpecImpl, obeys_bitor_spec, bitor_req, bitor_spec, LazyBigint, LazyBigint, |a, b| true, ior(a.val(), b.val()));
lazy_binop_contract!(BitXorSpecImpl, obeys_bitxor_spec, bitxor_req, bitxor_spec, LazyBigint, LazyBigint, |a, b| true, ixor(a.val(), b.val()));

impl AddSpecImpl<usize> for LazyBigint {
    open spec fn obeys_add_spec() -> bool { true }
    open spec fn add_req(self, rhs: usize) -> bool { self.wf() }
    open spec fn add_spec(self, rhs: usize) -> LazyBigint { lb(self.val() + rhs) }
}
impl<'a> AddSpecImpl<usize> for &'a LazyBigint {
    open spec fn obeys_add_spec() -> bool { true }
    open spec fn add_req(self, rhs: usize) -> bool { self.wf() }
    open spec fn add_spec(self, rhs: usize) -> LazyBigint { lb(self.val() + rhs) }
}
impl<'a> MulAssignSpecImpl<&'a LazyBigint> for LazyBigint {
    open spec fn obeys_mul_assign_spec() -> bool { true }
    open spec fn mul_assign_req(&self, rhs: &'a LazyBigint) -> bool { self.wf() && rhs.wf() }
    open spec fn mul_assign_spec(&self, rhs: &'a LazyBigint) -> &LazyBigint { &lb(smul(self.val(), rhs.val())) }
}
impl MulAssignSpecImpl<LazyBigint> for LazyBigint {
    open spec fn obeys_mul_assign_spec() -> bool { true }
    open spec fn mul_assign_req(&self, rhs: LazyBigint) -> bool { self.wf() && rhs.wf() }
    open spec fn mul_assign_spec(&self, rhs: LazyBigint) -> &LazyBigint { &lb(smul(self.val(), rhs.val())) }
}
impl<'a> AddAssignSpecImpl<&'a LazyBigint> for LazyBigint {
    open spec fn obeys_add_assign_spec() -> bool { true }
    open spec fn add_assign_req(&self, rhs: &'a LazyBigint) -> bool { self.wf() && rhs.wf() }
    open spec fn add_assign_spec(&self, rhs: &'a LazyBigint) -> &LazyBigint { &lb(self.val() + rhs.val()) }
}
impl AddAssignSpecImpl<LazyBigint> for LazyBigint {
    open spec fn obeys_add_assign_spec() -> bool { true }
    open spec fn add_assign_req(&self, rhs: LazyBigint) -> bool { self.wf() && rhs.wf() }
    open spec fn add_assign_spec(&self, rhs: LazyBigint) -> &LazyBigint { &lb(self.val() + rhs.val()) }
}

// @@EXTRACTED@@

} // verus!
fn main() {}
