// V-gcons prelude (C16, "consumers"): the loops of the generator consumers to_array, len, last and get
// (src/builtin/generators.rs), real text from the first statement after the downcast through the end of the
// native closure (R-for).  The generator is modelled by the finite list `elems()` of the element results its
// iterator yields (value, error value, or violation), in order.
//
// Contract (for the case that no violation interrupts): to_array -- the array of all elements, in order;
// len -- their number; last -- the last element, an error value for the empty generator; get(i) -- the
// element at index i, an error value when i is not below the length; an element that is an error value
// ends the consumer with that error value (leftmost one), a violation element ends it with a violation.
//
// Assumed: the generator is finite (the loops terminate); XGenerator::iter yields `elems()` in order;
// LazyBigint by V-int's contracts.
#![allow(unused_imports, dead_code, unused_variables, unused_mut)]
use vstd::prelude::*;
use vstd::std_specs::convert::*;

verus! {

// @@INCLUDE lazyint@@
/// num_traits::One
pub struct One;
impl One { #[verifier::external_body] pub fn one() -> (r: LazyBigint) ensures r.val() == 1 { unimplemented!() } }

pub struct P<W, R, T> { pub w: Ghost<W>, pub r: Ghost<R>, pub t: Ghost<T> }
/// the representations a copying update can produce
pub enum XSequence<W, R, T> { Empty, Array(Vec<Val<W, R, T>>), Other(P<W, R, T>) }
pub enum XValue<W, R, T> { Native(Box<XSequence<W, R, T>>), Bool(bool), Int(LazyBigint) }
/// Rc<ManagedXValue>
pub struct Val<W, R, T> { pub value: XValue<W, R, T> }
impl<W, R, T> Clone for Val<W, R, T> { #[verifier::external_body] fn clone(&self) -> (r: Self) ensures r == *self { unimplemented!() } }
pub struct ErrV { pub id: Ghost<int> }
pub struct RuntimeViolation { pub id: Ghost<int> }
pub type RuntimeResult<X> = Result<X, RuntimeViolation>;
pub type EvaluatedValue<W, R, T> = Result<Val<W, R, T>, ErrV>;
pub type XResult<X> = RuntimeResult<Result<X, ErrV>>;
pub enum TailedEvalResult<W, R, T> { Value(EvaluatedValue<W, R, T>), TailCall(Vec<EvaluatedValue<W, R, T>>) }
pub mod xexpr { pub use super::TailedEvalResult; }
pub struct Rt;
impl Rt { #[verifier::external_body] pub fn clone(&self) -> (r: Rt) { unimplemented!() } }
pub struct Ns;
pub struct ManagedXValue;
impl ManagedXValue {
    #[verifier::external_body]
    pub fn new<W, R, T>(value: XValue<W, R, T>, rt: Rt) -> (r: RuntimeResult<Val<W, R, T>>)
        ensures r matches Ok(m) ==> m.value == value,
    { unimplemented!() }
}
impl<W, R, T> Val<W, R, T> {
    #[verifier::external_body]
    pub fn into(self) -> (r: TailedEvalResult<W, R, T>) ensures r == TailedEvalResult::Value(Ok(self)) { unimplemented!() }
}
impl ErrV { #[verifier::external_body] pub fn into(self) -> (r: ErrV) ensures r == self { unimplemented!() } }

pub struct ManagedXError;
impl ManagedXError {
    #[verifier::external_body]
    pub fn new(error: &str, rt: Rt) -> (r: RuntimeResult<ErrV>) { unimplemented!() }
}
/// builtin/core.rs `xerr`
#[verifier::external_body]
pub fn xerr<W, R, T>(err: ErrV) -> (r: RuntimeResult<TailedEvalResult<W, R, T>>)
    ensures r == Ok::<TailedEvalResult<W, R, T>, RuntimeViolation>(TailedEvalResult::Value(Err(err))),
{ unimplemented!() }
impl Rt {
    /// pre-flight allocation check (C09)
    #[verifier::external_body]
    pub fn can_afford<W, R, T>(&self, x: &Vec<Val<W, R, T>>) -> (r: RuntimeResult<()>) { unimplemented!() }
}

/// xexpr.rs: `impl From<EvaluatedValue> for TailedEvalResult` (the real impl is extracted below and checked
/// against this specification)
impl<W, R, T> FromSpecImpl<EvaluatedValue<W, R, T>> for TailedEvalResult<W, R, T> {
    open spec fn obeys_from_spec() -> bool { true }
    open spec fn from_spec(v: EvaluatedValue<W, R, T>) -> Self { TailedEvalResult::Value(v) }
}

// ------------------------------------------------------------------ the generator and its iterator
pub struct XGenerator<W, R, T> { pub e: Ghost<Seq<XResult<Val<W, R, T>>>> }
pub struct GenIter<W, R, T> { pub r: Ghost<Seq<XResult<Val<W, R, T>>>> }
impl<W, R, T> XGenerator<W, R, T> {
    pub open spec fn elems(&self) -> Seq<XResult<Val<W, R, T>>> { self.e@ }
    #[verifier::external_body]
    pub fn iter(&self, ns: &Ns, rt: Rt) -> (r: GenIter<W, R, T>) ensures r.rest() == self.elems() { unimplemented!() }
}
impl<W, R, T> GenIter<W, R, T> {
    pub open spec fn rest(&self) -> Seq<XResult<Val<W, R, T>>> { self.r@ }
    #[verifier::external_body]
    pub fn next(&mut self) -> (r: Option<XResult<Val<W, R, T>>>)
        ensures
            old(self).rest().len() == 0 ==> r is None && final(self).rest() == old(self).rest(),
            old(self).rest().len() > 0 ==> r == Some(old(self).rest()[0]) && final(self).rest() == old(self).rest().skip(1),
    { unimplemented!() }
}

// ------------------------------------------------------------------ specification vocabulary
pub open spec fn is_val<W, R, T>(x: XResult<Val<W, R, T>>) -> bool { x matches Ok(Ok(_)) }
pub open spec fn val_of<W, R, T>(x: XResult<Val<W, R, T>>) -> Val<W, R, T> { x->Ok_0->Ok_0 }
/// all of the first n elements are values
pub open spec fn vals_before<W, R, T>(g: Seq<XResult<Val<W, R, T>>>, n: int) -> bool {
    forall|j: int| 0 <= j < n ==> is_val(#[trigger] g[j])
}
/// the outcome when the k-th element is the first one that is not a value: its error value, or a violation
pub open spec fn stops_at<W, R, T>(r: RuntimeResult<TailedEvalResult<W, R, T>>, g: Seq<XResult<Val<W, R, T>>>, k: int) -> bool {
    match g[k] {
        Err(_) => r is Err,
        Ok(Err(e)) => r matches Ok(t) ==> t == TailedEvalResult::<W, R, T>::Value(Err(e)),
        Ok(Ok(_)) => true,
    }
}
pub open spec fn vals<W, R, T>(s: XSequence<W, R, T>) -> Seq<Val<W, R, T>> {
    match s { XSequence::Empty => Seq::empty(), XSequence::Array(v) => v@, XSequence::Other(_) => arbitrary() }
}

// @@INCLUDE stdx@@

// @@EXTRACTED@@

} // verus!
fn main() {}
