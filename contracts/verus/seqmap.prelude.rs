// V-seqmap prelude (C15, "Map / Zip representations denote the mapped / zipped list"): the arm `Map` of
// `XSequence::get` (src/builtin/sequence.rs), real text of the arm bodies (real `to_primitive!`, `forward_err!`; the
// downcast `to_native!` as a model macro).
//
// The inner sequences are abstract element lists: `elem(s, i)` is what `get(i)` of an inner sequence answers (a value, an
// error value, or a violation).
//
// Contract: Map -- element i of the mapped sequence is f applied to what element i of the inner sequence answers (a
// violation of the inner `get` is handed on).  (The Zip arm -- `iter().map(..).collect()` into nested Results inside one
// expression -- was tried and left out: the mapped list cannot be named for a hint; the model types for it stay below.)
//
// Assumed: the evaluator as a deterministic function `apply`; std's `iter().map(..).collect()` into nested Results
// evaluates in order and stops at the first failure (documented meaning).
#![allow(unused_imports, dead_code, unused_variables, unused_mut, unreachable_code)]
use vstd::prelude::*;

verus! {

pub struct Func { pub id: Ghost<int> }
pub enum XValue { Function(Func), StructInstance(Vec<Val>), Native(Box<XSeqI>), Other(Ghost<int>) }
/// Vec<T> as its element list, with the iterator tower `iter().map(f).collect()` into nested Results
pub struct Vec<T> { pub v: Ghost<Seq<T>> }   // (named like std's, so that `Vec<_>` in the source text is this type)
pub struct MIter<'a, T> { pub r: Ghost<Seq<&'a T>> }
pub struct MMapped<U> { pub r: Ghost<Seq<U>> }
pub uninterp spec fn refs<'a, T>(s: Seq<T>) -> Seq<&'a T>;
pub broadcast axiom fn axiom_refs<'a, T>(s: Seq<T>)
    ensures (#[trigger] refs::<T>(s)).len() == s.len(), forall|i: int| 0 <= i < s.len() ==> *(#[trigger] refs::<T>(s)[i]) == s[i];
impl<T> Vec<T> {
    #[verifier::external_body]
    pub fn iter<'a>(&'a self) -> (r: MIter<'a, T>) ensures r.r@ == refs(self.v@) { unimplemented!() }
}
impl<'a, T> MIter<'a, T> {
    #[verifier::external_body]
    pub fn map<U, F: Fn(&'a T) -> U>(self, f: F) -> (r: MMapped<U>)
        requires forall|i: int| 0 <= i < self.r@.len() ==> call_requires(f, (#[trigger] self.r@[i],)),
        ensures r.r@.len() == self.r@.len(), forall|i: int| 0 <= i < self.r@.len() ==> call_ensures(f, (self.r@[i],), #[trigger] r.r@[i]),
    { unimplemented!() }
}
/// the first item that is not a value decides, in order; otherwise the values
pub open spec fn first_failure(ms: Seq<XResult<Val>>, k: int) -> bool {
    0 <= k < ms.len() && !(ms[k] matches Ok(Ok(_))) && forall|j: int| 0 <= j < k ==> (#[trigger] ms[j]) matches Ok(Ok(_))
}
/// what the nested collect can build
pub trait VxNested: Sized { spec fn nested(&self) -> XResult<Vec<Val>>; }
impl VxNested for Result<Result<Vec<Val>, ErrV>, RuntimeViolation> { open spec fn nested(&self) -> XResult<Vec<Val>> { *self } }
impl MMapped<XResult<Val>> {
    /// `collect::<Result<Result<Vec<_>, _>, _>>()`
    #[verifier::external_body]
    pub fn collect<X: VxNested>(self) -> (r: X)
        ensures
            (forall|j: int| 0 <= j < self.r@.len() ==> (#[trigger] self.r@[j]) matches Ok(Ok(_))) ==> (r.nested() matches Ok(Ok(v)) && v.v@.len() == self.r@.len() && forall|j: int| 0 <= j < self.r@.len() ==> Ok::<Result<Val, ErrV>, RuntimeViolation>(Ok(#[trigger] v.v@[j])) == self.r@[j]),
            forall|k: int| first_failure(self.r@, k) ==> match self.r@[k] { Err(x) => r.nested() == Err::<Result<Vec<Val>, ErrV>, RuntimeViolation>(x), Ok(Err(e)) => r.nested() == Ok::<Result<Vec<Val>, ErrV>, RuntimeViolation>(Err(e)), _ => true },
    { unimplemented!() }
}
pub mod xvalue { pub use super::XValue; }
/// Rc<ManagedXValue>
pub struct Val { pub value: XValue }
pub struct ErrV { pub id: Ghost<int> }
pub struct RuntimeViolation { pub id: Ghost<int> }
pub type RuntimeResult<X> = Result<X, RuntimeViolation>;
pub type EvaluatedValue = Result<Val, ErrV>;
pub type XResult<X> = RuntimeResult<Result<X, ErrV>>;
pub enum TailedEvalResult { Value(EvaluatedValue), TailCall(Ghost<int>) }
impl TailedEvalResult {
    #[verifier::external_body]
    pub fn unwrap_value(self) -> (r: EvaluatedValue) requires self is Value, ensures r == self->Value_0 { unimplemented!() }
}
pub struct Rt;
impl Rt { #[verifier::external_body] pub fn clone(&self) -> (r: Rt) { unimplemented!() } }
pub struct Ns;
pub uninterp spec fn apply(f: Func, args: Seq<EvaluatedValue>) -> EvaluatedValue;
impl Ns {
    #[verifier::external_body]
    pub fn eval_func_with_values(&self, func: &Func, args: Vec<EvaluatedValue>, rt: Rt, tail_available: bool) -> (r: RuntimeResult<TailedEvalResult>)
        ensures !tail_available ==> (r matches Ok(t) ==> t == TailedEvalResult::Value(apply(*func, args.v@))),
    { unimplemented!() }
}
pub struct ManagedXValue;
impl ManagedXValue {
    #[verifier::external_body]
    pub fn new(value: XValue, rt: Rt) -> (r: RuntimeResult<Val>) ensures r matches Ok(m) ==> m.value == value { unimplemented!() }
}
#[verifier::external_body]
pub fn vx_vec1<X>(x: X) -> (r: Vec<X>) ensures r.v@ == seq![x] { unimplemented!() }
macro_rules! vec { ($x:expr) => { vx_vec1($x) } }
/// an inner sequence: `get(i)` answers `elem(self, i)`
pub struct XSeqI { pub id: Ghost<int> }
pub uninterp spec fn elem(s: XSeqI, i: int) -> XResult<Val>;
impl XSeqI {
    #[verifier::external_body]
    pub fn get(&self, idx: usize, ns: &Ns, rt: Rt) -> (r: XResult<Val>) ensures r == elem(*self, idx as int) { unimplemented!() }
}
/// the downcast of an inner sequence (model macro: C01 -- the operands of map / zip are sequences)
#[verifier::external_body]
pub fn vx_downcast(b: &Box<XSeqI>) -> (r: &XSeqI) ensures *r == **b { unimplemented!() }
#[verifier::external_body]
pub fn vx_panic<X>() -> (r: X) requires false { unimplemented!() }
macro_rules! to_native { ($x:expr, $t:ty) => { match &$x.value { XValue::Native(__b) => vx_downcast(__b), _ => vx_panic() } } }
macro_rules! panic { ($($t:tt)*) => { vx_panic() } }
pub open spec fn inner_of(v: Val) -> XSeqI { *v.value->Native_0 }
pub mod ext {
    use vstd::prelude::*;
    use super::*;
    pub broadcast proof fn lemma_apply1(f: Func, s: Seq<EvaluatedValue>)
        requires s.len() == 1,
        ensures #[trigger] apply(f, s) == apply(f, seq![s[0]]),
    { assert(s =~= seq![s[0]]); }
}

// @@EXTRACTED@@

} // verus!
fn main() {}
