// V-grepeat prelude (C10 "no accepted program can keep the interpreter busy without bound"; C16 "repeat"): the Repeat
// arm of `XGenerator::_iter` (src/builtin/generators.rs), real text.
//
// A generator denotes a possibly endless stream (`slen`: its length if it is finite); `_iter` hands out that stream
// lazily, `next` advances it.
//
// Contract of the step function of the repeated stream (the closure handed to `iter::from_fn`), over its captured state
// (the iterator of the current pass, and whether that pass has yielded anything): every call TERMINATES (`decreases`);
// repeating an EMPTY generator is the empty stream; otherwise the call answers the element at the current position of
// the pass -- position 0 of a fresh pass when the previous one is exhausted -- and advances by one, i.e. the stream is
// s[0], .., s[n-1], s[0], .. for a finite s and s itself for an endless one.
//
// Assumed: the downcast `to_native!(gen, Self)` as a model macro (C01); `iter::from_fn` calls the closure once per
// requested element (std's documented meaning); `Iterator::flatten` over an ENDLESS outer iterator answers `next` only
// if some later inner iterator yields an element (its `next` loops over the inner iterators): it REQUIRES that.
#![allow(unused_imports, dead_code, unused_variables, unused_mut, unreachable_code)]
use vstd::prelude::*;

verus! {

pub struct ErrV { pub id: Ghost<int> }
pub struct RuntimeViolation { pub id: Ghost<int> }
pub type RuntimeResult<X> = Result<X, RuntimeViolation>;
pub type XResult<X> = RuntimeResult<Result<X, ErrV>>;
/// the stream a generator denotes: element k for every k below its length (None: endless)
pub struct Stream { pub slen: Option<nat>, pub id: int }
pub uninterp spec fn stream_at(s: Stream, k: int) -> XResult<Val>;
pub struct XGenerator { pub s: Ghost<Stream> }
pub enum XValue { Native(Box<XGenerator>), Other(Ghost<int>) }
/// Rc<ManagedXValue>
pub struct Val { pub value: XValue }
pub struct Rt;
impl Rt { #[verifier::external_body] pub fn clone(&self) -> (r: Rt) { unimplemented!() } }
pub struct Ns;
/// the iterator `_iter` hands out: lazily, the generator's stream from position `pos`
/// (the three parameters stand for the interpreter's W, R, T, so that `BIter<_, _, _>` in the source text resolves)
pub struct GIterP<A, B, C> { pub s: Ghost<Stream>, pub pos: Ghost<nat>, pub p: Ghost<(A, B, C)> }
pub type GIter = GIterP<(), (), ()>;
pub type BIter<A, B, C> = Box<GIterP<A, B, C>>;
impl XGenerator {
    pub open spec fn stream(&self) -> Stream { self.s@ }
    #[verifier::external_body]
    pub fn _iter(&self, ns: &Ns, rt: Rt) -> (r: GIter) ensures r.s@ == self.stream(), r.pos@ == 0 { unimplemented!() }
}
pub open spec fn exhausted(s: Stream, pos: nat) -> bool { s.slen matches Some(n) && pos >= n }
impl<A, B, C> GIterP<A, B, C> {
    #[verifier::external_body]
    pub fn next(&mut self) -> (r: Option<XResult<Val>>)
        ensures final(self).s@ == old(self).s@,
            exhausted(old(self).s@, old(self).pos@) ==> (r is None && final(self).pos@ == old(self).pos@),
            !exhausted(old(self).s@, old(self).pos@) ==> (r == Some(stream_at(old(self).s@, old(self).pos@ as int)) && final(self).pos@ == old(self).pos@ + 1),
    { unimplemented!() }
}
/// the captured state of the step function between calls: the pass belongs to the generator, lies inside it, has
/// yielded if it has moved, and a pass that has yielded nothing is only left behind by an EMPTY generator
pub open spec fn base_ok(gen: XGenerator, current: Option<BIter<(), (), ()>>, flag: bool) -> bool {
    match current {
        None => flag,
        Some(it) => it.s@ == gen.stream() && (gen.stream().slen matches Some(n) ==> it.pos@ <= n) && (it.pos@ > 0 ==> flag),
    }
}
pub open spec fn st_ok(gen: XGenerator, current: Option<BIter<(), (), ()>>, flag: bool) -> bool {
    base_ok(gen, current, flag) && (!flag ==> gen.stream().slen == Some(0nat))
}
/// `iter::repeat_with(f)`: the endless iterator f(), f(), ..
pub struct RepeatWith<F> { pub f: F }
pub struct Flattened { pub id: Ghost<int> }
/// an iterator every `next` of which returns
pub trait VxAnswers: Sized {}
impl VxAnswers for Flattened {}
/// `iter::from_fn(f)`: calls f once per requested element (f's termination is the step function's contract)
pub struct FromFn { pub id: Ghost<int> }
impl VxAnswers for FromFn {}
pub struct OpaqueStep;
#[verifier::external_body]
pub fn vx_opaque_closure() -> (r: OpaqueStep) { unimplemented!() }
pub mod iter {
    use super::*;
    pub fn repeat_with<F: FnMut() -> BIter<(), (), ()>>(f: F) -> (r: RepeatWith<F>) ensures r.f == f { RepeatWith { f } }
    #[verifier::external_body]
    pub fn from_fn(f: OpaqueStep) -> (r: FromFn) { unimplemented!() }
}
impl<F: FnMut() -> BIter<(), (), ()>> RepeatWith<F> {
    /// `Iterator::flatten` over an endless outer iterator: `next` loops over the inner iterators until one yields, so it
    /// terminates only if every inner iterator the closure can answer yields at least one element
    #[verifier::external_body]
    pub fn flatten(self) -> (r: Flattened)
        requires forall|it: BIter<(), (), ()>| #[trigger] call_ensures(self.f, (), it) ==> !exhausted(it.s@, it.pos@),
    { unimplemented!() }
}
/// the downcast of the repeated generator (model macro: C01)
#[verifier::external_body]
pub fn vx_downcast(b: &Box<XGenerator>) -> (r: &XGenerator) ensures *r == **b { unimplemented!() }
#[verifier::external_body]
pub fn vx_panic<X>() -> (r: X) requires false { unimplemented!() }
macro_rules! to_native { ($x:expr, $t:ty) => { match &$x.value { XValue::Native(__b) => vx_downcast(__b), _ => vx_panic() } } }

// @@EXTRACTED@@

} // verus!
fn main() {}
