// V-gwithcount prelude (C16, "with_count"): the WithCount arm of `XGenerator::_iter` (src/builtin/generators.rs), real
// text of the element closure (whole body; real `forward_err!`); the counter is the real `XMapping` struct with
// V = usize (R-self as in V-mapupd); `put` is used through the contract V-mapupd proves of the real method.
//
// Contract of the step on an incoming element: a violation / an error value is handed on and the counter is
// untouched; for a value x the counter is updated through `put` at the location `locate` answers -- a found key gets
// its count + 1, a new key the count 1, nothing else changes -- and the element yielded is the pair (x, that count).
//
// Assumed: the evaluator as a deterministic function `apply`; hash answers an Int, eq a Bool (C01); every stored
// count is below usize::MAX (fewer than 2^64 equal elements); `counter.dyn_size()` by V-tabsize's contract.
#![allow(unused_imports, dead_code, unused_variables, unused_mut, unreachable_code)]
use vstd::prelude::*;
use vstd::std_specs::core::IndexSpecImpl;
use core::ops::Index;

verus! {

// @@INCLUDE lazyint@@
pub struct Func { pub id: Ghost<int> }
pub enum XValue { Int(LazyBigint), Bool(bool), Function(Func), StructInstance(Vec<Val>), Native(Box<XMapping<Val>>) }
pub mod xvalue { pub use super::XValue; }
pub mod xexpr { pub use super::TailedEvalResult; }
/// Rc<ManagedXValue>
pub struct Val { pub value: XValue }
impl Clone for Val { #[verifier::external_body] fn clone(&self) -> (r: Self) ensures r == *self { unimplemented!() } }
pub struct ErrV { pub id: Ghost<int> }
pub struct RuntimeViolation { pub id: Ghost<int> }
pub type RuntimeResult<X> = Result<X, RuntimeViolation>;
pub type EvaluatedValue = Result<Val, ErrV>;
pub type XResult<X> = RuntimeResult<Result<X, ErrV>>;
pub enum TailedEvalResult { Value(EvaluatedValue), TailCall(Vec<EvaluatedValue>) }
impl ErrV { #[verifier::external_body] pub fn into(self) -> (r: ErrV) ensures r == self { unimplemented!() } }
impl Val {
    #[verifier::external_body]
    pub fn into(self) -> (r: TailedEvalResult) ensures r == TailedEvalResult::Value(Ok(self)) { unimplemented!() }
}
pub struct Rt;
impl Rt {
    #[verifier::external_body] pub fn clone(&self) -> (r: Rt) { unimplemented!() }
    /// pre-flight allocation check (C09)
    #[verifier::external_body] pub fn can_allocate(&self, n: usize) -> (r: RuntimeResult<()>) { unimplemented!() }
}
pub struct Ns;
pub struct ManagedXValue;
impl ManagedXValue {
    #[verifier::external_body]
    pub fn new(value: XValue, rt: Rt) -> (r: RuntimeResult<Val>)
        ensures r matches Ok(m) ==> m.value == value,
    { unimplemented!() }
}
pub uninterp spec fn apply(f: Func, args: Seq<EvaluatedValue>) -> EvaluatedValue;

// ------------------------------------------------------------------ std::collections::HashMap (model)
pub struct HashMap<K, V> { pub m: Ghost<Map<K, V>> }
impl<K, V> HashMap<K, V> {
    pub open spec fn view(&self) -> Map<K, V> { self.m@ }
    #[verifier::external_body]
    pub fn get_mut(&mut self, k: &K) -> (r: Option<&mut V>)
        ensures
            !old(self)@.contains_key(*k) ==> r is None && final(self)@ == old(self)@,
            old(self)@.contains_key(*k) ==> r is Some && *(r->Some_0) == old(self)@[*k] && final(self)@ == old(self)@.insert(*k, *final(r->Some_0)),
    { unimplemented!() }
    /// (the previous value, if any, is answered and dropped by the caller)
    #[verifier::external_body]
    pub fn insert(&mut self, k: K, v: V) -> (r: Option<V>)
        ensures final(self)@ == old(self)@.insert(k, v), r == (if old(self)@.contains_key(k) { Some(old(self)@[k]) } else { None::<V> }),
    { unimplemented!() }
    #[verifier::external_body]
    pub fn clone(&self) -> (r: Self) where V: Clone ensures r@ == self@ { unimplemented!() }
}
impl<K, V> HashMap<K, V> {
    #[verifier::external_body]
    pub fn get(&self, k: &K) -> (r: Option<&V>)
        ensures r == (if self@.contains_key(*k) { Some(&self@[*k]) } else { None }),
    { unimplemented!() }
    /// R-entry target: `self.entry(k).or_insert(v)`
    #[verifier::external_body]
    pub fn vx_entry_or_insert(&mut self, k: K, v: V) -> (r: &mut V)
        ensures
            old(self)@.contains_key(k) ==> *r == old(self)@[k] && final(self)@ == old(self)@.insert(k, *final(r)),
            !old(self)@.contains_key(k) ==> *r == v && final(self)@ == old(self)@.insert(k, *final(r)),
    { unimplemented!() }
}
/// `map[&k]` (std panics when the key is absent)
impl<'a, K, V> Index<&'a K> for HashMap<K, V> {
    type Output = V;
    #[verifier::external_body]
    fn index(&self, k: &'a K) -> (o: &V) ensures *o == self@[*k] { unimplemented!() }
}
impl<'a, K, V> IndexSpecImpl<&'a K> for HashMap<K, V> { open spec fn index_req(&self, k: &&'a K) -> bool { self@.contains_key(**k) } }
/// `<[T]>::swap` by its documented meaning (panics when an index is out of bounds)
pub assume_specification<T> [<[T]>::swap] (s: &mut [T], a: usize, b: usize)
    requires a < old(s)@.len(), b < old(s)@.len(),
    ensures final(s)@ == old(s)@.update(a as int, old(s)@[b as int]).update(b as int, old(s)@[a as int]);
/// `vec![x]`
pub fn vx_vec1<X>(x: X) -> (r: Vec<X>) ensures r@ == seq![x] { let mut v = Vec::new(); v.push(x); v }
pub fn vx_vec2<X>(x: X, y: X) -> (r: Vec<X>) ensures r@ == seq![x, y] { let mut v = Vec::new(); v.push(x); v.push(y); v }
macro_rules! vec { ($x:expr) => { vx_vec1($x) }; ($x:expr, $y:expr) => { vx_vec2($x, $y) } }


// ------------------------------------------------------------------ specification vocabulary
pub type Table<V> = Map<u64, Vec<(Val, V)>>;
pub open spec fn keys<V>(b: Seq<(Val, V)>) -> Seq<Val> { Seq::new(b.len(), |i: int| b[i].0) }
pub open spec fn hash_ans(hf: XValue, key: Val) -> EvaluatedValue { apply(hf->Function_0, seq![Ok(key)]) }
pub open spec fn eq_ans(ef: XValue, key: Val, k: Val) -> EvaluatedValue { apply(ef->Function_0, seq![Ok(key), Ok(k)]) }
pub open spec fn is_true(a: EvaluatedValue) -> bool { a matches Ok(v) && v.value == XValue::Bool(true) }
pub open spec fn is_false(a: EvaluatedValue) -> bool { a matches Ok(v) && v.value == XValue::Bool(false) }
pub open spec fn hashes_to(hf: XValue, x: Val, h: u64) -> bool {
    hash_ans(hf, x) matches Ok(hv) && hv.value is Int && hv.value->Int_0.val() == h
}
pub open spec fn fn_answers_int(f: XValue) -> bool {
    f is Function && forall|s: Seq<EvaluatedValue>| (#[trigger] apply(f->Function_0, s)) matches Ok(c) ==> c.value is Int
}
pub open spec fn fn_answers_bool(f: XValue) -> bool {
    f is Function && forall|s: Seq<EvaluatedValue>| (#[trigger] apply(f->Function_0, s)) matches Ok(c) ==> c.value is Bool
}
/// the sum of the bucket lengths of a finite table
pub uninterp spec fn total<V>(m: Table<V>) -> nat;
pub broadcast axiom fn axiom_total_insert<V>(m: Table<V>, h: u64, b: Vec<(Val, V)>)
    ensures #[trigger] total(m.insert(h, b)) == total(m) - (if m.contains_key(h) { m[h]@.len() } else { 0 }) + b@.len();
/// the location is one `locate` can answer for this table
spec fn loc_valid<V>(m: Table<V>, loc: KeyLocation) -> bool {
    match loc {
        KeyLocation::Found((h, i)) => m.contains_key(h) && i < m[h]@.len(),
        KeyLocation::Missing(h) => m.contains_key(h),
        KeyLocation::Vacant(h) => !m.contains_key(h),
    }
}
/// the table after putting value v for key k at that location
spec fn put_at<V>(m: Table<V>, loc: KeyLocation, k: Val, v: V, b2: Vec<(Val, V)>) -> bool {
    match loc {
        KeyLocation::Found((h, i)) => b2@ == m[h]@.update(i as int, (m[h]@[i as int].0, v)),
        KeyLocation::Missing(h) => b2@ == m[h]@.push((k, v)),
        KeyLocation::Vacant(h) => b2@ == seq![(k, v)],
    }
}
/// table m1 / counter len1 are m0 / len0 after storing v for k at the location
spec fn stored<V>(m0: Table<V>, len0: usize, m1: Table<V>, len1: usize, loc: KeyLocation, k: Val, v: V) -> bool {
    let h = loc_hash(loc);
    &&& m1.contains_key(h) && m1 == m0.insert(h, m1[h])
    &&& put_at(m0, loc, k, v, m1[h])
    &&& len1 == len0 + (if loc is Found { 0int } else { 1int })
}
spec fn loc_hash(loc: KeyLocation) -> u64 {
    match loc { KeyLocation::Found((h, _)) => h, KeyLocation::Missing(h) => h, KeyLocation::Vacant(h) => h }
}
/// representation invariant of a mapping
spec fn rep_ok<V>(s: XMapping<V>) -> bool {
    &&& s.len == total(s.inner@)
    &&& forall|h: u64, i: int| s.inner@.contains_key(h) && 0 <= i < s.inner@[h]@.len() ==> hashes_to(s.hash_func.value, (#[trigger] s.inner@[h]@[i]).0, h)
}
/// eq answers false for each of the first n keys
#[verifier::opaque]
pub open spec fn all_false(ef: XValue, key: Val, ks: Seq<Val>, n: int) -> bool {
    forall|j: int| 0 <= j < n ==> is_false(#[trigger] eq_ans(ef, key, ks[j]))
}
/// the outcome of scanning the keys `ks` of the bucket for hash `h` (V-locate's contract; its inner quantifier
/// "eq answers false for every earlier key" is named `all_false` here, and kept opaque where it is not needed)
spec fn scan_result(r: XResult<KeyLocation>, ef: XValue, key: Val, ks: Seq<Val>, h: u64) -> bool {
    r matches Ok(x) ==> {
        &&& all_false(ef, key, ks, ks.len() as int) ==> x == Ok::<KeyLocation, ErrV>(KeyLocation::Missing(h))
        &&& forall|k: int| 0 <= k < ks.len() && !is_false(#[trigger] eq_ans(ef, key, ks[k])) && all_false(ef, key, ks, k)
            ==> match eq_ans(ef, key, ks[k]) {
                Err(e) => x == Err::<KeyLocation, ErrV>(e),
                Ok(_) => x == Ok::<KeyLocation, ErrV>(KeyLocation::Found((h, k as usize))),
            }
    }
}
/// V-locate's postcondition of `XMapping::locate`
spec fn locate_post<V>(s: XMapping<V>, key: Val, r: XResult<KeyLocation>) -> bool {
    r matches Ok(x) ==> match hash_ans(s.hash_func.value, key) {
        Err(e) => x == Err::<KeyLocation, ErrV>(e),
        Ok(hv) => {
            let hi = hv.value->Int_0.val();
            if !(0 <= hi <= u64::MAX) { x is Err } else {
                let h = hi as u64;
                &&& !s.inner@.contains_key(h) ==> x == Ok::<KeyLocation, ErrV>(KeyLocation::Vacant(h))
                &&& s.inner@.contains_key(h) ==> scan_result(r, s.eq_func.value, key, keys(s.inner@[h]@), h)
            }
        },
    }
}
impl<V> XMapping<V> {
    /// `XMapping::locate`, by the contract V-locate proves of the real method
    #[verifier::external_body]
    fn locate(&self, key: &Val, ns: &Ns, rt: Rt) -> (r: XResult<KeyLocation>)
        requires fn_answers_int(self.hash_func.value), fn_answers_bool(self.eq_func.value),
        ensures locate_post(*self, *key, r),
    { unimplemented!() }
}

/// every stored count can still be incremented
spec fn counts_small(m: Table<usize>) -> bool {
    forall|h: u64, i: int| m.contains_key(h) && 0 <= i < m[h]@.len() ==> (#[trigger] m[h]@[i]).1 < usize::MAX
}
impl XMapping<usize> {
    /// `XMapping::put`, by the contract V-mapupd proves of the real method
    #[verifier::external_body]
    fn put<F0: FnOnce() -> usize, F1: FnOnce(&usize) -> usize>(&mut self, k: &Val, on_empty: F0, on_found: F1, ns: &Ns, rt: Rt) -> (r: XResult<&usize>)
        requires
            fn_answers_int(old(self).hash_func.value), fn_answers_bool(old(self).eq_func.value), old(self).len < usize::MAX,
            call_requires(on_empty, ()),
            forall|h: u64, i: int| old(self).inner@.contains_key(h) && 0 <= i < old(self).inner@[h]@.len() ==> call_requires(on_found, (&(#[trigger] old(self).inner@[h]@[i]).1,)),
        ensures
            final(self).hash_func == old(self).hash_func, final(self).eq_func == old(self).eq_func,
            match r {
                Ok(Ok(vref)) => exists|loc: KeyLocation| #[trigger] loc_valid(old(self).inner@, loc)
                    && locate_post(*old(self), *k, Ok::<Result<KeyLocation, ErrV>, RuntimeViolation>(Ok(loc)))
                    && stored(old(self).inner@, old(self).len, final(self).inner@, final(self).len, loc, *k, *vref)
                    && (match loc {
                            KeyLocation::Found((h, i)) => call_ensures(on_found, (&old(self).inner@[h]@[i as int].1,), *vref),
                            _ => call_ensures(on_empty, (), *vref),
                        }),
                Ok(Err(e)) => locate_post(*old(self), *k, Ok::<Result<KeyLocation, ErrV>, RuntimeViolation>(Err(e)))
                    && final(self).inner@ == old(self).inner@ && final(self).len == old(self).len,
                Err(_) => final(self).inner@ == old(self).inner@ && final(self).len == old(self).len,
            },
    { unimplemented!() }
    /// `dyn_size` (V-tabsize)
    #[verifier::external_body]
    fn dyn_size(&self) -> (r: usize) { unimplemented!() }
}
/// the count a key gets at a location: one more than the stored one, or 1 for a new key
spec fn count_at(m: Table<usize>, loc: KeyLocation) -> int {
    match loc { KeyLocation::Found((h, i)) => m[h]@[i as int].1 + 1, _ => 1 }
}

// @@INCLUDE stdx@@

// @@EXTRACTED@@

} // verus!
fn main() {}
