// V-intsize prelude (C09, "size model of values"): LazyBigint::additional_size (src/util/lazy_bigint.rs), real
// text; the enum is the real definition.  Contract: a machine integer is charged nothing beyond the enum, a
// big integer its header plus 8 bytes for every 64-bit limb of its magnitude.  num_bigint is axiomatised:
// `iter_u64_digits().count()` is the number of limbs, which is ceil(bits / 64).
#![allow(unused_imports, dead_code, unused_variables)]
use vstd::prelude::*;
use std::mem::size_of;

verus! {

pub struct BigInt { pub v: Ghost<int> }
/// number of 64-bit limbs of the magnitude (what `iter_u64_digits()` yields)
pub uninterp spec fn limbs(x: int) -> nat;
/// num_bigint::U64Digits
pub struct U64Digits { pub n: Ghost<nat> }
impl U64Digits {
    #[verifier::external_body]
    pub fn count(self) -> (r: usize) ensures r == self.n@ { unimplemented!() }
}
impl BigInt {
    #[verifier::external_body]
    pub fn iter_u64_digits(&self) -> (r: U64Digits) ensures r.n@ == limbs(self.v@), limbs(self.v@) <= usize::MAX / 16 { unimplemented!() }
    /// number of bits of the magnitude: limbs == ceil(bits / 64)
    #[verifier::external_body]
    pub fn bits(&self) -> (r: u64) ensures limbs(self.v@) == (r as int + 63) / 64, r <= u64::MAX - 64 { unimplemented!() }
}

// @@EXTRACTED@@

} // verus!
fn main() {}
