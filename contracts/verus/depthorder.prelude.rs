// V-depthorder prelude (C08, "depth check when a frame is created"): the ORDER of effects in
// RuntimeScope::from_template (src/runtime_scope.rs): the depth test (the read of `limits.depth_limit`, whose
// expression and early return V-tail decides) comes before everything that can run user code or allocate for
// the new frame: the evaluation of a declaration's expression, the creation of function values, the
// factory callbacks, the defaults.
//
// The function after the marker is a SKELETON (R-skel) of the real body: control flow, early exits and the
// occurrences of the primitives in evaluation order; every other computation is dropped.
#![allow(unused_imports, dead_code, unused_variables, unreachable_code, unused_must_use)]
use vstd::prelude::*;

verus! {

pub struct Viol;
/// the depth test has been performed on this path
pub uninterp spec fn depth_tested() -> bool;
/// `rt.limits.depth_limit` is read (the test of V-tail's `ifcond` fragment)
#[verifier::external_body]
pub fn depth_test()
    ensures depth_tested(),
{ unimplemented!() }
/// work for the new frame that can run user code or allocate: allowed only after the depth test
#[verifier::external_body]
pub fn frame_work()
    requires depth_tested(),
{ unimplemented!() }
#[verifier::external_body]
pub fn sk_nondet() -> bool { unimplemented!() }
#[verifier::external_body]
pub fn sk_ret() -> Result<(), Viol> { unimplemented!() }

// @@EXTRACTED@@

} // verus!
fn main() {}
