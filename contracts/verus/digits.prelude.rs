// V-digits prelude (C14): the digit loop of the `digits` builtin (src/builtin/int.rs), verified as real
// text against V-int's contracts for `%` (Rem for &LazyBigint: divisor != 0) and `/` (Div for
// LazyBigint: divisor > 0, the precondition taken from the call sites).  Dropped by R-dropstmt (listed in
// the evidence): the pre-flight accounting statements and the collection of the digits.
#![allow(unused_imports, dead_code, unused_variables, unused_mut)]
use vstd::prelude::*;
use vstd::std_specs::ops::*;
use vstd::std_specs::cmp::*;
use vstd::arithmetic::div_mod::*;
use core::ops::{Div, Rem};
use core::cmp::Ordering;
use std::rc::Rc;

verus! {

global size_of usize == 8;

pub open spec fn tdiv(a: int, b: int) -> int { rust_div(a, b) }
pub open spec fn trem(a: int, b: int) -> int { rust_rem(a, b) }
pub open spec fn iabs(a: int) -> int { if a >= 0 { a } else { -a } }

pub struct LazyBigint { pub v: Ghost<int> }
pub open spec fn lbv(x: int) -> LazyBigint { LazyBigint { v: Ghost(x) } }
impl LazyBigint {
    pub open spec fn val(self) -> int { self.v@ }
    #[verifier::external_body]
    pub fn clone(&self) -> (r: LazyBigint) ensures r == *self { unimplemented!() }
    #[verifier::external_body]
    pub fn is_zero(&self) -> (r: bool) ensures r == (self.val() == 0) { unimplemented!() }
    #[verifier::external_body]
    pub fn one() -> (r: LazyBigint) ensures r.val() == 1 { unimplemented!() }
    #[verifier::external_body]
    pub fn bits(&self) -> (r: u64) { unimplemented!() }
}
impl PartialEq for LazyBigint { #[verifier::external_body] fn eq(&self, o: &Self) -> bool { unimplemented!() } }
impl PartialEqSpecImpl for LazyBigint {
    open spec fn obeys_eq_spec() -> bool { true }
    open spec fn eq_spec(&self, o: &Self) -> bool { self.val() == o.val() }
}
impl PartialOrd for LazyBigint { #[verifier::external_body] fn partial_cmp(&self, o: &Self) -> Option<Ordering> { unimplemented!() } }
impl PartialOrdSpecImpl for LazyBigint {
    open spec fn obeys_partial_cmp_spec() -> bool { true }
    open spec fn partial_cmp_spec(&self, o: &Self) -> Option<Ordering> {
        Some(if self.val() < o.val() { Ordering::Less } else if self.val() == o.val() { Ordering::Equal } else { Ordering::Greater })
    }
}
// V-int: `impl Rem for &LazyBigint` (divisor != 0) and `impl Div for LazyBigint` (divisor > 0)
impl<'a> Rem<&'a LazyBigint> for &'a LazyBigint { type Output = LazyBigint; #[verifier::external_body] fn rem(self, rhs: &'a LazyBigint) -> LazyBigint { unimplemented!() } }
impl<'a> RemSpecImpl<&'a LazyBigint> for &'a LazyBigint {
    open spec fn obeys_rem_spec() -> bool { true }
    open spec fn rem_req(self, rhs: &'a LazyBigint) -> bool { rhs.val() != 0 }
    open spec fn rem_spec(self, rhs: &'a LazyBigint) -> LazyBigint { lbv(trem(self.val(), rhs.val())) }
}
impl Div for LazyBigint { type Output = LazyBigint; #[verifier::external_body] fn div(self, rhs: LazyBigint) -> LazyBigint { unimplemented!() } }
impl DivSpecImpl<LazyBigint> for LazyBigint {
    open spec fn obeys_div_spec() -> bool { true }
    open spec fn div_req(self, rhs: LazyBigint) -> bool { rhs.val() > 0 }
    open spec fn div_spec(self, rhs: LazyBigint) -> LazyBigint { lbv(tdiv(self.val(), rhs.val())) }
}
/// `Cow<LazyBigint>` (the optional base argument with its default)
pub struct CowInt { pub v: Ghost<int> }
impl CowInt {
    #[verifier::external_body]
    pub fn as_ref(&self) -> (r: &LazyBigint) ensures r.val() == self.v@ { unimplemented!() }
    #[verifier::external_body]
    pub fn clone(&self) -> (r: CowInt) ensures r == *self { unimplemented!() }
    // Signed::is_positive / One::is_one through the Cow's Deref (contracts of V-int)
    #[verifier::external_body]
    pub fn is_positive(&self) -> (r: bool) ensures r == (self.v@ > 0) { unimplemented!() }
    #[verifier::external_body]
    pub fn is_one(&self) -> (r: bool) ensures r == (self.v@ == 1) { unimplemented!() }
    #[verifier::external_body]
    pub fn is_zero(&self) -> (r: bool) ensures r == (self.v@ == 0) { unimplemented!() }
    #[verifier::external_body]
    pub fn is_negative(&self) -> (r: bool) ensures r == (self.v@ < 0) { unimplemented!() }
    #[verifier::external_body]
    pub fn into_owned(self) -> (r: LazyBigint) ensures r.val() == self.v@ { unimplemented!() }
}
pub struct Rt;
impl Rt { #[verifier::external_body] pub fn clone(&self) -> (r: Rt) { unimplemented!() } }
pub struct RuntimeViolation;
pub struct ManagedXError;
pub struct Tailed;
pub type RuntimeResult<T> = Result<T, RuntimeViolation>;
impl ManagedXError {
    #[verifier::external_body]
    pub fn new(error: &str, runtime: Rt) -> (r: RuntimeResult<Rc<ManagedXError>>) { unimplemented!() }
}
#[verifier::external_body]
pub fn xerr(e: Rc<ManagedXError>) -> (r: RuntimeResult<Tailed>) { unimplemented!() }
#[verifier::external_body]
pub fn done() -> (r: RuntimeResult<Tailed>) { unimplemented!() }

/// the quotient by a base >= 2 is strictly smaller in magnitude (termination of the digit loop)
pub proof fn lemma_tdiv_decreases(n: int, b: int)
    requires n != 0, b >= 2,
    ensures iabs(tdiv(n, b)) < iabs(n),
{
    if n > 0 { lemma_div_decreases(n, b); lemma_div_pos_is_pos(n, b); }
    else { lemma_div_decreases(-n, b); lemma_div_pos_is_pos(-n, b); }
}

// @@EXTRACTED@@

} // verus!
fn main() {}
