// V-gwindows prelude (C16, "per-adaptor iterator construction"): the element closure of the Windows adaptor
// (src/builtin/generators.rs, XGenerator::_iter), real text of the whole closure body.  Contract of one step,
// over the ghost content of the window buffer: the budget's violation wins and nothing is consumed; a value is
// appended; when the buffer then holds `size` elements that window is yielded (exactly those elements, in
// order) and the oldest element dropped; an error value / a violation of the inner stream is handed on.
//
// std's `VecDeque` and the tower `iter().cloned().collect()` are modelled on ghost sequences (trusted);
// `e.map(Ok)` by R-match.
#![allow(unused_imports, dead_code, unused_variables)]
use vstd::prelude::*;

verus! {

pub struct Val { pub id: Ghost<int> }            // Rc<ManagedXValue>
impl Clone for Val { #[verifier::external_body] fn clone(&self) -> (r: Val) ensures r == *self { unimplemented!() } }

/// Vec<T>
pub struct MVec<T> { pub v: Ghost<Seq<T>> }
/// iterator over references (slice::Iter and what is chained to it)
pub struct MIter<'a, T> { pub r: Ghost<Seq<&'a T>> }
/// iterator over values
pub struct OIter<T> { pub r: Ghost<Seq<T>> }
/// core::iter::Once
pub struct Once<X> { pub x: X }
pub mod iter {
    use super::*;
    pub fn once<X>(x: X) -> (r: Once<X>) ensures r.x == x { Once { x } }
}
pub open spec fn refs<'a, T>(s: Seq<T>) -> Seq<&'a T>;   // the references to the elements, in order
pub broadcast axiom fn axiom_refs<'a, T>(s: Seq<T>)
    ensures (#[trigger] refs::<T>(s)).len() == s.len(), forall|i: int| 0 <= i < s.len() ==> *(#[trigger] refs::<T>(s)[i]) == s[i];
pub open spec fn derefs<'a, T>(s: Seq<&'a T>) -> Seq<T> { Seq::new(s.len(), |i: int| *s[i]) }

pub trait IntoMIter<'a, T>: Sized { spec fn mseq(self) -> Seq<&'a T>; }
impl<'a, T> IntoMIter<'a, T> for MIter<'a, T> { open spec fn mseq(self) -> Seq<&'a T> { self.r@ } }
impl<'a, T> IntoMIter<'a, T> for &'a MVec<T> { open spec fn mseq(self) -> Seq<&'a T> { refs(self.v@) } }
impl<'a, T> IntoMIter<'a, T> for Once<&'a T> { open spec fn mseq(self) -> Seq<&'a T> { seq![self.x] } }
pub trait IntoOIter<T>: Sized { spec fn oseq(self) -> Seq<T>; }
impl<T> IntoOIter<T> for OIter<T> { open spec fn oseq(self) -> Seq<T> { self.r@ } }
impl<T> IntoOIter<T> for Once<T> { open spec fn oseq(self) -> Seq<T> { seq![self.x] } }

impl<T> MVec<T> {
    #[verifier::external_body]
    pub fn iter<'a>(&'a self) -> (r: MIter<'a, T>) ensures r.r@ == refs(self.v@) { unimplemented!() }
    /// `vec![a, b, ..]`
    #[verifier::external_body]
    pub fn from_array<const N: usize>(a: [T; N]) -> (r: MVec<T>) ensures r.v@ == a@ { unimplemented!() }
}
impl<'a, T> MIter<'a, T> {
    #[verifier::external_body]
    pub fn chain<I: IntoMIter<'a, T>>(self, other: I) -> (r: MIter<'a, T>) ensures r.r@ == self.r@ + other.mseq() { unimplemented!() }
    #[verifier::external_body]
    pub fn cloned(self) -> (r: OIter<T>) where T: Clone ensures r.r@ == derefs(self.r@) { unimplemented!() }
    /// Iterator::map with a closure whose postcondition determines its result
    #[verifier::external_body]
    pub fn map<U, F: Fn(&'a T) -> U>(self, f: F) -> (r: OIter<U>)
        requires forall|i: int| 0 <= i < self.r@.len() ==> call_requires(f, (#[trigger] self.r@[i],)),
        ensures r.r@.len() == self.r@.len(), forall|i: int| 0 <= i < self.r@.len() ==> call_ensures(f, (self.r@[i],), #[trigger] r.r@[i]),
    { unimplemented!() }
}
impl<'a, T> Once<&'a T> {
    #[verifier::external_body]
    pub fn chain<I: IntoMIter<'a, T>>(self, other: I) -> (r: MIter<'a, T>) ensures r.r@ == seq![self.x] + other.mseq() { unimplemented!() }
}
impl Once<usize> {
    #[verifier::external_body]
    pub fn chain<I: IntoOIter<usize>>(self, other: I) -> (r: OIter<usize>) ensures r.r@ == seq![self.x] + other.oseq() { unimplemented!() }
}
impl<T> OIter<T> {
    #[verifier::external_body]
    pub fn chain<I: IntoOIter<T>>(self, other: I) -> (r: OIter<T>) ensures r.r@ == self.r@ + other.oseq() { unimplemented!() }
    #[verifier::external_body]
    pub fn collect(self) -> (r: MVec<T>) ensures r.v@ == self.r@ { unimplemented!() }
}
macro_rules! vec { ($($x:expr),* $(,)?) => { MVec::from_array([$($x),*]) } }

// ------------------------------------------------------------------ the Windows adaptor (unit `gwindows`)
pub struct ErrV { pub id: Ghost<int> }
pub struct RuntimeViolation { pub id: Ghost<int> }
pub type RuntimeResult<X> = Result<X, RuntimeViolation>;
pub type XResult<X> = RuntimeResult<Result<X, ErrV>>;
/// VecDeque<Rc<ManagedXValue>>
pub struct MDeque { pub v: Ghost<Seq<Val>> }
impl MDeque {
    #[verifier::external_body]
    pub fn push_back(&mut self, x: Val) ensures final(self).v@ == old(self).v@.push(x) { unimplemented!() }
    #[verifier::external_body]
    pub fn pop_front(&mut self) -> (r: Option<Val>)
        ensures old(self).v@.len() > 0 ==> r == Some(old(self).v@[0]) && final(self).v@ == old(self).v@.skip(1),
            old(self).v@.len() == 0 ==> r is None && final(self).v@ == old(self).v@,
    { unimplemented!() }
    #[verifier::external_body]
    pub fn len(&self) -> (r: usize) ensures r == self.v@.len() { unimplemented!() }
    #[verifier::external_body]
    pub fn iter<'a>(&'a self) -> (r: MIter<'a, Val>) ensures r.r@ == refs(self.v@) { unimplemented!() }
}
/// the sequence value a window becomes: its element list
pub struct XSequence { pub e: Ghost<Seq<Val>> }
impl XSequence {
    /// XSequence::array
    #[verifier::external_body]
    pub fn array(v: MVec<Val>) -> (r: XSequence) ensures r.e@ == v.v@ { unimplemented!() }
}
pub enum XValue { Native(Box<XSequence>) }
pub struct Rt;
impl Rt { #[verifier::external_body] pub fn clone(&self) -> (r: Rt) { unimplemented!() } }
/// the managed value of a window: which elements it holds
pub uninterp spec fn window_of(v: Val) -> Seq<Val>;
pub struct ManagedXValue;
impl ManagedXValue {
    #[verifier::external_body]
    pub fn new(value: XValue, rt: Rt) -> (r: RuntimeResult<Val>)
        ensures r matches Ok(m) ==> (value matches XValue::Native(b) && window_of(m) == b.e@),
    { unimplemented!() }
}


// @@INCLUDE stdx@@

// @@EXTRACTED@@

} // verus!
fn main() {}
