// V-strnat prelude (C18, "out-of-range requests giving error values", "searching ... operate on code points"):
// the index handling of the str natives get, find, rfind and substring (src/builtin/str.rs), real text; real
// `to_primitive!`, `xraise!`.  FencedString is used through the contracts V-fstr proves (len == number of code
// points; substr / substring require start <= len and start <= end).
//
// Contract: a request outside the string (get: index not in [-len, len); find: start beyond the end;
// substring: start beyond the end) is an error value -- the preconditions of substr / substring are established
// on every path that reaches them; the position find / rfind answer is the CODE-POINT index of the match
// (`cp_of_byte`: the number of code points before a byte offset), not its byte offset.
#![allow(unused_imports, dead_code, unused_variables)]
use vstd::prelude::*;
use vstd::std_specs::ops::*;
use core::ops::Add;

verus! {

// @@INCLUDE lazyint@@
impl<'a> Add<usize> for &'a LazyBigint { type Output = LazyBigint; #[verifier::external_body] fn add(self, rhs: usize) -> LazyBigint { unimplemented!() } }
impl<'a> AddSpecImpl<usize> for &'a LazyBigint {
    open spec fn obeys_add_spec() -> bool { true }
    open spec fn add_req(self, rhs: usize) -> bool { true }
    open spec fn add_spec(self, rhs: usize) -> LazyBigint { lbv(self.val() + rhs) }
}
/// std::borrow::Cow<LazyBigint>
pub enum Cow<'a> { Borrowed(&'a LazyBigint), Owned(LazyBigint) }
impl<'a> Cow<'a> {
    pub open spec fn val(&self) -> int { match self { Cow::Borrowed(b) => b.val(), Cow::Owned(o) => o.val() } }
    #[verifier::external_body]
    pub fn to_usize(&self) -> (r: Option<usize>)
        ensures r == (if 0 <= self.val() <= usize::MAX { Some(self.val() as usize) } else { None::<usize> }),
    { unimplemented!() }
}
pub struct Func { pub id: Ghost<int> }
/// the text of a string: its code points are numbered 0 .. n
pub struct FencedString { pub n: Ghost<nat>, pub id: Ghost<int> }
/// `&str` handed out by substr: the code points [from, to) of a string
pub struct Hay { pub src: Ghost<int>, pub from: Ghost<int>, pub to: Ghost<int> }
pub struct Needle { pub id: Ghost<int> }
/// byte offset of code point k of the string with identity `src` (V-fstr: `off`)
pub uninterp spec fn boff(src: int, k: int) -> int;
/// number of code points of `h` that lie before the byte offset `p` (p a code-point boundary of h)
pub uninterp spec fn cp_of_byte(h: Hay, p: int) -> int;
/// p is a code-point boundary of h: the boundary of the code point `from + cp_of_byte(h, p)` of the source
pub open spec fn is_boundary(h: Hay, p: int) -> bool {
    0 <= cp_of_byte(h, p) <= h.to@ - h.from@ && boff(h.src@, h.from@ + cp_of_byte(h, p)) == boff(h.src@, h.from@) + p
}
/// offsets identify code points (they are strictly increasing)
pub broadcast axiom fn axiom_boff_inj(src: int, i: int, j: int)
    requires #[trigger] boff(src, i) == #[trigger] boff(src, j), 0 <= i, 0 <= j,
    ensures i == j;
pub broadcast axiom fn axiom_boff_mono(src: int, i: int, j: int)
    requires 0 <= i <= j,
    ensures #[trigger] boff(src, i) <= #[trigger] boff(src, j);
impl Hay {
    /// byte length of the haystack
    #[verifier::external_body]
    pub fn len(&self) -> (r: usize) ensures r == boff(self.src@, self.to@) - boff(self.src@, self.from@) { unimplemented!() }
}
impl FencedString {
    pub open spec fn nchars(&self) -> nat { self.n@ }
    /// V-fstr: len == number of code points
    #[verifier::external_body]
    pub fn len(&self) -> (r: usize) ensures r == self.nchars() { unimplemented!() }
    #[verifier::external_body]
    pub fn is_empty(&self) -> (r: bool) ensures r == (self.nchars() == 0) { unimplemented!() }
    /// V-fstr: substr requires an in-range request
    #[verifier::external_body]
    pub fn substr(&self, start: usize, end: Option<usize>) -> (r: &Hay)
        requires start <= self.nchars(), end matches Some(e) ==> start <= e,
        ensures r.src@ == self.id@, r.from@ == start, r.to@ == (match end { Some(e) if e < self.nchars() => e as int, _ => self.nchars() as int }),
    { unimplemented!() }
    /// V-fstr: substring requires an in-range request
    #[verifier::external_body]
    pub fn substring(&self, start: usize, end: Option<usize>) -> (r: FencedString)
        requires start <= self.nchars(), end matches Some(e) ==> start <= e,
        ensures r.nchars() == (match end { Some(e) if e < self.nchars() => e - start, _ => self.nchars() - start }),
    { unimplemented!() }
    #[verifier::external_body]
    pub fn as_str(&self) -> (r: &Needle) { unimplemented!() }
    /// V-fstr: the code point that starts at a byte offset (which must be a code-point boundary)
    #[verifier::external_body]
    pub fn char_index_of_byte(&self, byte_idx: usize) -> (r: usize)
        requires exists|k: int| 0 <= k <= self.nchars() && #[trigger] boff(self.id@, k) == byte_idx,
        ensures r <= self.nchars(), boff(self.id@, r as int) == byte_idx,
    { unimplemented!() }
    /// byte length of the text
    #[verifier::external_body]
    pub fn bytes(&self) -> (r: usize) ensures r == boff(self.id@, self.nchars() as int), boff(self.id@, 0) == 0 { unimplemented!() }
}
pub enum XValue { Int(LazyBigint), String(Box<FencedString>), Bool(bool), Function(Func) }
pub mod xvalue { pub use super::XValue; }
pub mod xexpr { pub use super::TailedEvalResult; }
pub struct Val { pub value: XValue }
pub struct ErrV { pub id: Ghost<int> }
pub struct RuntimeViolation { pub id: Ghost<int> }
pub type RuntimeResult<X> = Result<X, RuntimeViolation>;
pub type EvaluatedValue = Result<Val, ErrV>;
pub enum TailedEvalResult { Value(EvaluatedValue), TailCall(Vec<EvaluatedValue>) }
impl ErrV { #[verifier::external_body] pub fn into(self) -> (r: ErrV) ensures r == self { unimplemented!() } }
impl Val { #[verifier::external_body] pub fn into(self) -> (r: TailedEvalResult) ensures r == TailedEvalResult::Value(Ok(self)) { unimplemented!() } }
pub struct Rt;
impl Rt { #[verifier::external_body] pub fn clone(&self) -> (r: Rt) { unimplemented!() } }
pub struct ManagedXValue;
impl ManagedXValue {
    #[verifier::external_body]
    pub fn new(value: XValue, rt: Rt) -> (r: RuntimeResult<Val>) ensures r matches Ok(m) ==> m.value == value { unimplemented!() }
}
pub struct ManagedXError;
impl ManagedXError {
    #[verifier::external_body]
    pub fn new(error: &str, rt: Rt) -> (r: RuntimeResult<ErrV>) { unimplemented!() }
}
#[verifier::external_body]
pub fn xerr(err: ErrV) -> (r: RuntimeResult<TailedEvalResult>)
    ensures r == Ok::<TailedEvalResult, RuntimeViolation>(TailedEvalResult::Value(Err(err))),
{ unimplemented!() }
#[verifier::external_body]
pub fn vx_panic<X>() -> (r: X)
    requires false,
{ unimplemented!() }
macro_rules! panic { ($($t:tt)*) => { vx_panic() } }
/// the native's result is an error value
pub open spec fn is_err_value(r: RuntimeResult<TailedEvalResult>) -> bool {
    r matches Ok(t) ==> t is Value && t->Value_0 is Err
}

// @@INCLUDE stdx@@

// @@EXTRACTED@@

} // verus!
fn main() {}
