// V-seqstr prelude (C19 "to_str of containers"; C18 "the join of the to_str of its parts"): the derived `to_str` of
// sequences (src/builtin/sequence.rs), real text from the length test to the end of the closure; real `xraise!`,
// `to_primitive!`; `for` by R-for.  The sequence, its iterator and the search budget as in V-derive (`XSeq`, `ElemIter`,
// `Budget`); FencedString by the contracts V-fstr proves of the real methods (`from_str`, `push`, `push_ascii`,
// `shrink_to_fit`: the byte text of the result, and that the representation invariant `wf` is kept).
//
// Contract: an endless sequence has no text (an error value); for a finite one whose element texts are all clean the
// result is "[" + t0 + ", " + t1 + ", " + .. + "]" (t_i = what the element's to_str answers for element i), well-formed;
// the first element whose to_str answers an error value ends it with that error value; the pre-flight arithmetic
// cannot overflow for any length.
//
// Assumed: the evaluator as a deterministic function `apply`; the element function answers a str (C01) that satisfies
// `wf`; the literals "[", ", ", "]" are ASCII text.
#![feature(allocator_api)]
#![allow(unused_imports, dead_code, unused_variables, unused_mut, unreachable_code)]
use vstd::prelude::*;
use std::mem::size_of;

verus! {

global size_of usize == 8;

// @@INCLUDE lazyint@@
pub struct Func { pub id: Ghost<int> }
pub enum XValue { Int(LazyBigint), Bool(bool), Function(Func), StructInstance(Items), String(Box<FencedString>) }
/// `$crate::xvalue::XValue` as the macro `to_primitive!` names it
pub mod xvalue { pub use super::XValue; }
pub mod xexpr { pub use super::TailedEvalResult; }

pub struct Val { pub value: XValue }            // Rc<ManagedXValue>
pub struct ErrV { pub id: Ghost<int> }          // Rc<ManagedXError>
pub struct RuntimeViolation { pub id: Ghost<int> }
pub type RuntimeResult<T> = Result<T, RuntimeViolation>;
pub type EvaluatedValue = Result<Val, ErrV>;
pub enum TailedEvalResult { Value(EvaluatedValue), TailCall(Vec<EvaluatedValue>) }
impl TailedEvalResult {
    /// panics on a tail call
    #[verifier::external_body]
    pub fn unwrap_value(self) -> (r: EvaluatedValue)
        requires self is Value,
        ensures r == self->Value_0,
    { unimplemented!() }
}
// `__e.into()` inside xraise!: Rc<ManagedXError> into itself
impl ErrV { #[verifier::external_body] pub fn into(self) -> (r: ErrV) ensures r == self { unimplemented!() } }
// impl From<Rc<ManagedXValue>> for TailedEvalResult (xexpr.rs)
impl Val { #[verifier::external_body] pub fn into(self) -> (r: TailedEvalResult) ensures r == TailedEvalResult::Value(Ok(self)) { unimplemented!() } }

impl Clone for Val { #[verifier::external_body] fn clone(&self) -> (r: Val) ensures r == *self { unimplemented!() } }

// ------------------------------------------------------------------ std iterators (model, trusted)
pub trait VxIt: Sized {
    type Item;
    spec fn rest(&self) -> Seq<Self::Item>;
    fn next(&mut self) -> (r: Option<Self::Item>)
        ensures
            old(self).rest().len() == 0 ==> r is None && final(self).rest() == old(self).rest(),
            old(self).rest().len() > 0 ==> r == Some(old(self).rest()[0]) && final(self).rest() == old(self).rest().skip(1);
}
/// core::slice::Iter over the elements of a Vec
pub struct SeqIter<'a, T> { pub r: Ghost<Seq<&'a T>> }
impl<'a, T> VxIt for SeqIter<'a, T> {
    type Item = &'a T;
    open spec fn rest(&self) -> Seq<&'a T> { self.r@ }
    #[verifier::external_body]
    fn next(&mut self) -> (r: Option<&'a T>) { unimplemented!() }
}
pub open spec fn zip_seq<A, B>(a: Seq<A>, b: Seq<B>) -> Seq<(A, B)> {
    Seq::new(if a.len() <= b.len() { a.len() } else { b.len() }, |i: int| (a[i], b[i]))
}
/// core::iter::Zip: pairs up to the shorter side
pub struct Zip<A, B> { pub a: A, pub b: B }
impl<A: VxIt, B: VxIt> VxIt for Zip<A, B> {
    type Item = (A::Item, B::Item);
    open spec fn rest(&self) -> Seq<(A::Item, B::Item)> { zip_seq(self.a.rest(), self.b.rest()) }
    #[verifier::external_body]
    fn next(&mut self) -> (r: Option<(A::Item, B::Item)>) { unimplemented!() }
}
impl<'a, T> SeqIter<'a, T> {
    pub fn zip<B: VxIt>(self, b: B) -> (r: Zip<SeqIter<'a, T>, B>) ensures r.a == self, r.b == b { Zip { a: self, b } }
}
impl<A: VxIt, B: VxIt> Zip<A, B> {
    pub fn zip<C: VxIt>(self, c: C) -> (r: Zip<Zip<A, B>, C>) ensures r.a == self, r.b == c { Zip { a: self, b: c } }
}
/// Vec<Rc<ManagedXValue>>: the fields of a tuple / the table of component functions
pub struct Items { pub v: Vec<Val> }
impl Items {
    #[verifier::external_body]
    pub fn iter<'a>(&'a self) -> (r: SeqIter<'a, Val>)
        ensures r.r@.len() == self.v@.len(), forall|i: int| 0 <= i < self.v@.len() ==> *(#[trigger] r.r@[i]) == self.v@[i],
    { unimplemented!() }
}

// ------------------------------------------------------------------ possibly endless streams (model, trusted)
/// an iterator whose remaining items are `sat(0), sat(1), ..`; `slen() == None`: the stream is endless
pub trait SIt: Sized {
    type Item;
    spec fn slen(&self) -> Option<nat>;
    spec fn sat(&self, i: int) -> Self::Item;
    fn next(&mut self) -> (r: Option<Self::Item>)
        ensures
            old(self).slen() == Some(0nat) ==> r is None && final(self).slen() == Some(0nat),
            old(self).slen() != Some(0nat) ==> r == Some(old(self).sat(0))
                && final(self).slen() == odec(old(self).slen())
                && (forall|i: int| 0 <= i ==> #[trigger] final(self).sat(i) == old(self).sat(i + 1));
}
pub open spec fn odec(l: Option<nat>) -> Option<nat> { match l { Some(n) => Some((n - 1) as nat), None => None } }
pub open spec fn osub(l: Option<nat>, k: int) -> Option<nat> { match l { Some(n) => Some((n - k) as nat), None => None } }
pub open spec fn omin(a: Option<nat>, b: Option<nat>) -> Option<nat> {
    match (a, b) { (None, x) => x, (x, None) => x, (Some(x), Some(y)) => Some(if x <= y { x } else { y }) }
}
/// i is a position of a stream of length l
pub open spec fn within(i: int, l: Option<nat>) -> bool { 0 <= i && (l matches Some(n) ==> i < n) }
/// core::iter::Zip: as long as the shorter side
pub struct Zip2<A, B> { pub a: A, pub b: B }
impl<A: SIt, B: SIt> SIt for Zip2<A, B> {
    type Item = (A::Item, B::Item);
    open spec fn slen(&self) -> Option<nat> { omin(self.a.slen(), self.b.slen()) }
    open spec fn sat(&self, i: int) -> (A::Item, B::Item) { (self.a.sat(i), self.b.sat(i)) }
    #[verifier::external_body]
    fn next(&mut self) -> (r: Option<(A::Item, B::Item)>) { unimplemented!() }
}
/// core::iter::Enumerate
pub struct Enumerate<A> { pub a: A, pub count: Ghost<int> }
impl<A: SIt> SIt for Enumerate<A> {
    type Item = (usize, A::Item);
    open spec fn slen(&self) -> Option<nat> { self.a.slen() }
    open spec fn sat(&self, i: int) -> (usize, A::Item) { ((self.count@ + i) as usize, self.a.sat(i)) }
    #[verifier::external_body]
    fn next(&mut self) -> (r: Option<(usize, A::Item)>) { unimplemented!() }
}
/// XSequence (builtin/sequence.rs) as seen here: the list of its element results, finite or endless
/// (`XSequence::len` is `None` exactly for an endless sequence, e.g. `count()`)
pub struct XSeq { pub l: Ghost<Option<nat>>, pub g: Ghost<spec_fn(int) -> RuntimeResult<EvaluatedValue>> }
/// the iterator `XSequence::iter` hands out (elements in index order)
pub struct ElemIter { pub l: Ghost<Option<nat>>, pub g: Ghost<spec_fn(int) -> RuntimeResult<EvaluatedValue>> }
impl SIt for ElemIter {
    type Item = RuntimeResult<EvaluatedValue>;
    open spec fn slen(&self) -> Option<nat> { self.l@ }
    open spec fn sat(&self, i: int) -> RuntimeResult<EvaluatedValue> { (self.g@)(i) }
    #[verifier::external_body]
    fn next(&mut self) -> (r: Option<RuntimeResult<EvaluatedValue>>) { unimplemented!() }
}
impl ElemIter {
    pub fn zip<B: SIt>(self, b: B) -> (r: Zip2<ElemIter, B>) ensures r.a == self, r.b == b { Zip2 { a: self, b } }
    pub fn enumerate(self) -> (r: Enumerate<ElemIter>) ensures r.a == self, r.count@ == 0 { Enumerate { a: self, count: Ghost(0) } }
}
impl XSeq {
    pub open spec fn slen(&self) -> Option<nat> { self.l@ }
    pub open spec fn at(&self, i: int) -> RuntimeResult<EvaluatedValue> { (self.g@)(i) }
    #[verifier::external_body]
    pub fn len(&self) -> (r: Option<usize>)
        ensures
            r == (match self.slen() { Some(n) => Some(n as usize), None => None::<usize> }),
            self.slen() matches Some(n) ==> n <= usize::MAX,
    { unimplemented!() }
    #[verifier::external_body]
    pub fn iter(&self, ns: &Ns, rt: Rt) -> (r: ElemIter)
        ensures r.slen() == self.slen(), forall|i: int| 0 <= i ==> #[trigger] r.sat(i) == self.at(i),
    { unimplemented!() }
}
/// the search budget (RuntimeLimits::search_iter; V-budget proves this shape): endless permits without a
/// limit, otherwise L permits, one MaximumSearch violation, and the end
pub struct Budget { pub l: Ghost<Option<nat>>, pub g: Ghost<spec_fn(int) -> RuntimeResult<()>> }
impl SIt for Budget {
    type Item = RuntimeResult<()>;
    open spec fn slen(&self) -> Option<nat> { self.l@ }
    open spec fn sat(&self, i: int) -> RuntimeResult<()> { (self.g@)(i) }
    #[verifier::external_body]
    fn next(&mut self) -> (r: Option<RuntimeResult<()>>) { unimplemented!() }
}
pub open spec fn is_budget(b: Budget) -> bool {
    match b.slen() {
        None => forall|i: int| 0 <= i ==> (#[trigger] b.sat(i)) is Ok,
        Some(m) => m >= 1 && b.sat(m - 1) is Err && forall|i: int| 0 <= i < m - 1 ==> (#[trigger] b.sat(i)) is Ok,
    }
}
/// builtin/core.rs `search`: zip with the search budget (V-budget)
#[verifier::external_body]
pub fn search<I: SIt>(other: I, rt: Rt) -> (r: Zip2<I, Budget>)
    ensures r.a == other, is_budget(r.b),
{ unimplemented!() }
pub assume_specification [<isize as core::convert::From<bool>>::from] (b: bool) -> (r: isize)
    ensures r == (if b { 1isize } else { 0isize });

/// XStack (builtin/stack.rs): `length` is the number of nodes `iter()` visits (representation invariant,
/// assumed here)
pub struct XStack { pub length: usize, pub e: Ghost<Seq<Val>> }
pub struct StackIter { pub r: Ghost<Seq<Val>> }
impl VxIt for StackIter {
    type Item = Val;
    open spec fn rest(&self) -> Seq<Val> { self.r@ }
    #[verifier::external_body]
    fn next(&mut self) -> (r: Option<Val>) { unimplemented!() }
}
impl StackIter {
    pub fn zip<B: VxIt>(self, b: B) -> (r: Zip<StackIter, B>) ensures r.a == self, r.b == b { Zip { a: self, b } }
}
impl XStack {
    pub open spec fn elems(&self) -> Seq<Val> { self.e@ }
    pub open spec fn wf(&self) -> bool { self.length == self.e@.len() }
    #[verifier::external_body]
    pub fn iter(&self) -> (r: StackIter) ensures r.rest() == self.elems() { unimplemented!() }
}

pub struct Rt;
impl Rt { #[verifier::external_body] pub fn clone(&self) -> (r: Rt) { unimplemented!() } }
pub struct ManagedXValue;
impl ManagedXValue {
    #[verifier::external_body]
    pub fn new(value: XValue, rt: Rt) -> (r: RuntimeResult<Val>)
        ensures r matches Ok(m) ==> m.value == value,
    { unimplemented!() }
}

/// `&LazyBigint + usize` / `LazyBigint + usize` (util/lazy_bigint.rs, by V-int's contract: the exact sum)
impl<'a> core::ops::Add<usize> for &'a LazyBigint { type Output = LazyBigint; #[verifier::external_body] fn add(self, rhs: usize) -> LazyBigint { unimplemented!() } }
impl<'a> vstd::std_specs::ops::AddSpecImpl<usize> for &'a LazyBigint {
    open spec fn obeys_add_spec() -> bool { true }
    open spec fn add_req(self, rhs: usize) -> bool { true }
    open spec fn add_spec(self, rhs: usize) -> LazyBigint { lbv(self.val() + rhs) }
}
/// std::collections::hash_map::DefaultHasher as the list of words written to it; `finish` is a function of that list
pub struct DefaultHasher { pub w: Ghost<Seq<u64>> }
pub uninterp spec fn hfin(w: Seq<u64>) -> u64;
impl DefaultHasher {
    #[verifier::external_body]
    pub fn new() -> (r: DefaultHasher) ensures r.w@ == Seq::<u64>::empty() { unimplemented!() }
    #[verifier::external_body]
    pub fn write_u64(&mut self, x: u64) ensures final(self).w@ == old(self).w@.push(x) { unimplemented!() }
    #[verifier::external_body]
    pub fn finish(&self) -> (r: u64) ensures r == hfin(self.w@) { unimplemented!() }
}
pub struct ManagedXError;
impl ManagedXError {
    #[verifier::external_body]
    pub fn new(error: &str, rt: Rt) -> (r: RuntimeResult<ErrV>) { unimplemented!() }
}
/// builtin/core.rs `xerr`
#[verifier::external_body]
pub fn xerr(err: ErrV) -> (r: RuntimeResult<TailedEvalResult>)
    ensures r == Ok::<TailedEvalResult, RuntimeViolation>(TailedEvalResult::Value(Err(err))),
{ unimplemented!() }

pub struct XExpr { pub id: Ghost<int> }
/// what an argument expression evaluates to (when evaluation is not cut short by a violation)
pub uninterp spec fn ev(e: XExpr) -> EvaluatedValue;
/// what a function value answers for an argument list
pub uninterp spec fn apply(f: Func, args: Seq<EvaluatedValue>) -> EvaluatedValue;

pub struct Ns;
/// builtin/core.rs `eval`: evaluate in non-tail mode and unwrap the value
#[verifier::external_body]
pub fn eval(expr: &XExpr, ns: &Ns, rt: &Rt) -> (r: RuntimeResult<EvaluatedValue>)
    ensures r matches Ok(v) ==> v == ev(*expr),
{ unimplemented!() }
impl Ns {
    #[verifier::external_body]
    pub fn eval_func_with_values(&self, func: &Func, args: Vec<EvaluatedValue>, rt: Rt, tail_available: bool) -> (r: RuntimeResult<TailedEvalResult>)
        ensures
            !tail_available ==> (r matches Ok(t) ==> t == TailedEvalResult::Value(apply(*func, args@))),
    { unimplemented!() }
}

/// `panic!(..)` inside `to_primitive!`: reaching it is a failed obligation
#[verifier::external_body]
pub fn vx_panic<T>() -> (r: T)
    requires false,
{ unimplemented!() }
macro_rules! panic { ($($t:tt)*) => { vx_panic() } }

// ------------------------------------------------------------------ specification vocabulary
/// the answer of the k-th component function on (x[k], y[k])
pub open spec fn ans(funcs: Items, x: Items, y: Items, k: int) -> EvaluatedValue {
    apply(funcs.v@[k].value->Function_0, seq![Ok(x.v@[k]), Ok(y.v@[k])])
}
pub open spec fn is_true(a: EvaluatedValue) -> bool { a matches Ok(v) && v.value == XValue::Bool(true) }
pub open spec fn is_zero(a: EvaluatedValue) -> bool { a matches Ok(v) && v.value is Int && v.value->Int_0.val() == 0 }
pub open spec fn funcs_answer_bool(funcs: Items) -> bool {
    forall|k: int, s: Seq<EvaluatedValue>| 0 <= k < funcs.v@.len() ==> funcs.v@[k].value is Function
        && ((#[trigger] apply(funcs.v@[k].value->Function_0, s)) matches Ok(c) ==> c.value is Bool)
}
pub open spec fn funcs_answer_int(funcs: Items) -> bool {
    forall|k: int, s: Seq<EvaluatedValue>| 0 <= k < funcs.v@.len() ==> funcs.v@[k].value is Function
        && ((#[trigger] apply(funcs.v@[k].value->Function_0, s)) matches Ok(c) ==> c.value is Int)
}
pub mod ext {
    use vstd::prelude::*;
    use super::*;
    pub broadcast proof fn lemma_apply1(f: Func, s: Seq<EvaluatedValue>)
        requires s.len() == 1,
        ensures #[trigger] apply(f, s) == apply(f, seq![s[0]]),
    { assert(s =~= seq![s[0]]); }
}
/// the hash the k-th component function answers for x[k]
pub open spec fn hans(funcs: Items, x: Items, k: int) -> EvaluatedValue {
    apply(funcs.v@[k].value->Function_0, seq![Ok(x.v@[k])])
}
/// the hash the element function answers for the k-th element of a sequence
pub open spec fn shans(f: Val, x: XSeq, k: int) -> EvaluatedValue {
    apply(f.value->Function_0, seq![x.at(k)->Ok_0])
}
/// a clean hash answer: an Int that fits u64
pub open spec fn hok(a: EvaluatedValue) -> bool { a matches Ok(v) && v.value is Int && 0 <= v.value->Int_0.val() <= u64::MAX }
pub open spec fn hval(a: EvaluatedValue) -> u64 { a->Ok_0.value->Int_0.val() as u64 }
/// both arguments evaluate to tuples of the arity of the component-function table (or to error values)
pub open spec fn tuple_args(args: &[XExpr], funcs: Items) -> bool {
    args@.len() == 2
    && (ev(args[0]) matches Ok(v) ==> v.value is StructInstance && v.value->StructInstance_0.v@.len() == funcs.v@.len())
    && (ev(args[1]) matches Ok(v) ==> v.value is StructInstance && v.value->StructInstance_0.v@.len() == funcs.v@.len())
}
/// the answer of the element function on the k-th elements of two sequences
pub open spec fn sans(f: Val, x: XSeq, y: XSeq, k: int) -> EvaluatedValue {
    apply(f.value->Function_0, seq![x.at(k)->Ok_0, y.at(k)->Ok_0])
}
pub open spec fn func_answers_bool(f: Val) -> bool {
    f.value is Function && forall|s: Seq<EvaluatedValue>| (#[trigger] apply(f.value->Function_0, s)) matches Ok(c) ==> c.value is Bool
}
pub open spec fn func_answers_int(f: Val) -> bool {
    f.value is Function && forall|s: Seq<EvaluatedValue>| (#[trigger] apply(f.value->Function_0, s)) matches Ok(c) ==> c.value is Int
}
pub open spec fn kans(f: Val, x: Seq<Val>, y: Seq<Val>, k: int) -> EvaluatedValue {
    apply(f.value->Function_0, seq![Ok(x[k]), Ok(y[k])])
}
pub open spec fn imin(a: int, b: int) -> int { if a <= b { a } else { b } }
pub open spec fn result_int(t: TailedEvalResult, x: int) -> bool {
    t matches TailedEvalResult::Value(Ok(v)) && v.value is Int && v.value->Int_0.val() == x
}
pub open spec fn result_bool(t: TailedEvalResult, b: bool) -> bool {
    t matches TailedEvalResult::Value(Ok(v)) && v.value == XValue::Bool(b)
}

/// util/fenced_string.rs, by V-fstr's contracts
pub struct FencedString { pub b: Ghost<Seq<u8>>, pub ok: Ghost<bool> }
/// the bytes of a string literal
pub uninterp spec fn lit(s: &str) -> Seq<u8>;
impl FencedString {
    pub open spec fn wf(&self) -> bool { self.ok@ }
    pub open spec fn text(&self) -> Seq<u8> { self.b@ }
    #[verifier::external_body]
    pub fn from_str(s: &str) -> (r: FencedString) ensures r.wf(), r.text() == lit(s) { unimplemented!() }
    #[verifier::external_body]
    pub fn push(&mut self, other: &Self)
        requires old(self).wf(), other.wf(),
        ensures final(self).wf(), final(self).text() == old(self).text() + other.text(),
    { unimplemented!() }
    /// (V-fstr: requires ASCII text -- here only literals are passed)
    #[verifier::external_body]
    pub fn push_ascii(&mut self, other: &str)
        requires old(self).wf(),
        ensures final(self).wf(), final(self).text() == old(self).text() + lit(other),
    { unimplemented!() }
    #[verifier::external_body]
    pub fn shrink_to_fit(&mut self) ensures final(self).text() == old(self).text(), old(self).wf() ==> final(self).wf() { unimplemented!() }
    #[verifier::external_body]
    pub fn size(&self) -> (r: usize) { unimplemented!() }
}
impl Rt {
    /// pre-flight allocation check (C09)
    #[verifier::external_body] pub fn can_allocate(&self, n: usize) -> (r: RuntimeResult<()>) { unimplemented!() }
}
pub assume_specification<X: ?Sized, A: core::alloc::Allocator> [<Box<X, A> as AsRef<X>>::as_ref] (b: &Box<X, A>) -> (r: &X)
    ensures r == &**b;
/// the text the k-th component function answers for x[k]
pub open spec fn ctans(funcs: Items, x: Items, k: int) -> EvaluatedValue { apply(funcs.v@[k].value->Function_0, seq![Ok(x.v@[k])]) }
pub open spec fn funcs_answer_str(funcs: Items) -> bool {
    forall|k: int, s: Seq<EvaluatedValue>| 0 <= k < funcs.v@.len() ==> funcs.v@[k].value is Function
        && ((#[trigger] apply(funcs.v@[k].value->Function_0, s)) matches Ok(c) ==> c.value is String && c.value->String_0.wf())
}
/// "(" + t0 + ", " + t1 + .. for the first n components (without the closing bracket)
pub open spec fn tup_acc(funcs: Items, x: Items, n: int) -> Seq<u8>
    decreases n
{
    if n <= 0 { lit("(") } else if n == 1 { lit("(") + ttext(ctans(funcs, x, 0)) } else { tup_acc(funcs, x, n - 1) + lit(", ") + ttext(ctans(funcs, x, n - 1)) }
}
/// the text the element function answers for the k-th element
pub open spec fn tans(f: Val, x: XSeq, k: int) -> EvaluatedValue { apply(f.value->Function_0, seq![x.at(k)->Ok_0]) }
pub open spec fn tok(a: EvaluatedValue) -> bool { a matches Ok(v) && v.value is String && v.value->String_0.wf() }
pub open spec fn ttext(a: EvaluatedValue) -> Seq<u8> { a->Ok_0.value->String_0.text() }
pub open spec fn func_answers_str(f: Val) -> bool {
    f.value is Function && forall|s: Seq<EvaluatedValue>| (#[trigger] apply(f.value->Function_0, s)) matches Ok(c) ==> c.value is String && c.value->String_0.wf()
}
/// "[" + t0 + ", " + t1 + .. for the first n elements (without the closing bracket)
pub open spec fn str_acc(f: Val, x: XSeq, n: int) -> Seq<u8>
    decreases n
{
    if n <= 0 { lit("[") } else if n == 1 { lit("[") + ttext(tans(f, x, 0)) } else { str_acc(f, x, n - 1) + lit(", ") + ttext(tans(f, x, n - 1)) }
}

// @@INCLUDE stdx@@

// @@EXTRACTED@@

} // verus!
fn main() {}
