// shared block: the binomial coefficient by Pascal's rule and proved identities (used by V-comb and V-binom)
/// n choose k (Pascal's rule)
pub open spec fn binom_c(n: nat, k: nat) -> nat decreases n {
    if k == 0 { 1 } else if n == 0 { 0 } else { binom_c((n - 1) as nat, (k - 1) as nat) + binom_c((n - 1) as nat, k) }
}
pub proof fn lemma_binom_zero(n: nat, k: nat)
    requires n < k,
    ensures binom_c(n, k) == 0,
    decreases n,
{
    if n > 0 { lemma_binom_zero((n - 1) as nat, (k - 1) as nat); lemma_binom_zero((n - 1) as nat, k); }
}
pub proof fn lemma_binom_full(n: nat)
    ensures binom_c(n, n) == 1,
    decreases n,
{
    if n > 0 { lemma_binom_full((n - 1) as nat); lemma_binom_zero((n - 1) as nat, n); }
}
pub proof fn lemma_binom_pos(n: nat, k: nat)
    requires k <= n,
    ensures binom_c(n, k) >= 1,
    decreases n,
{
    if k > 0 && n > 0 {
        if k == n { lemma_binom_full(n); } else { lemma_binom_pos((n - 1) as nat, k); }
    }
}
/// absorption: C(n,k) * k == n * C(n-1,k-1)
pub proof fn lemma_absorb(n: nat, k: nat)
    requires n >= 1, k >= 1,
    ensures binom_c(n, k) * k == n * binom_c((n - 1) as nat, (k - 1) as nat),
    decreases n,
{
    let a = binom_c((n - 1) as nat, (k - 1) as nat);
    let b = binom_c((n - 1) as nat, k);
    if n == 1 {
        if k == 1 {
            assert(binom_c(0, 0) == 1 && binom_c(0, 1) == 0);
            assert(binom_c(1, 1) == 1);
        } else {
            lemma_binom_zero(0, (k - 1) as nat); lemma_binom_zero(0, k); lemma_binom_zero(1, k);
            assert(a == 0);
            assert(n * a == 0);
            assert(binom_c(n, k) * k == 0) by(nonlinear_arith) requires binom_c(n, k) == 0;
        }
    } else if k == 1 {
        // C(n,1) == C(n-1,0) + C(n-1,1) == 1 + (n-1): by induction C(n-1,1) * 1 == (n-1) * C(n-2,0)
        lemma_absorb((n - 1) as nat, 1);
        assert(binom_c((n - 2) as nat, 0) == 1);
        assert(a == 1);
        assert(b == n - 1) by(nonlinear_arith) requires b * 1 == (n - 1) * 1;
        assert(binom_c(n, k) == n);
        assert(n * a == n) by(nonlinear_arith) requires a == 1;
    } else {
        lemma_absorb((n - 1) as nat, (k - 1) as nat);   // a*(k-1) == (n-1)*C(n-2,k-2)
        lemma_absorb((n - 1) as nat, k);                // b*k == (n-1)*C(n-2,k-1)
        let c = binom_c((n - 2) as nat, (k - 2) as nat);
        let d = binom_c((n - 2) as nat, (k - 1) as nat);
        assert(a == c + d);
        assert((a + b) * k == n * a) by(nonlinear_arith)
            requires a * (k - 1) == (n - 1) * c, b * k == (n - 1) * d, a == c + d, k >= 2, n >= 2;
    }
}
/// C(m,j) * (m-j) == m * C(m-1,j)
pub proof fn lemma_absorb_up(m: nat, j: nat)
    requires m >= 1, j <= m,
    ensures binom_c(m, j) * (m - j) == m * binom_c((m - 1) as nat, j),
{
    if j == 0 {
        assert(binom_c(m, 0) == 1 && binom_c((m - 1) as nat, 0) == 1);
    } else {
        lemma_absorb(m, j);
        let x = binom_c(m, j); let a = binom_c((m - 1) as nat, (j - 1) as nat); let b = binom_c((m - 1) as nat, j);
        assert(x == a + b);
        assert(x * (m - j) == m * b) by(nonlinear_arith) requires x * j == m * a, x == a + b, j <= m;
    }
}
/// the step of the multiplicative formula: C(n,j) * (n-j) == C(n,j+1) * (j+1)
pub proof fn lemma_binom_step(n: nat, j: nat)
    requires j < n,
    ensures binom_c(n, j) * (n - j) == binom_c(n, j + 1) * (j + 1),
{
    lemma_absorb_up(n, j);
    lemma_absorb(n, j + 1);
}
pub proof fn lemma_binom_sym(n: nat, k: nat)
    requires k <= n,
    ensures binom_c(n, k) == binom_c(n, (n - k) as nat),
    decreases n,
{
    if k == 0 { lemma_binom_full(n); }
    else if k == n { lemma_binom_full(n); }
    else {
        lemma_binom_sym((n - 1) as nat, (k - 1) as nat);
        lemma_binom_sym((n - 1) as nat, k);
    }
}
/// C(n, .) does not decrease up to the middle
pub proof fn lemma_binom_mono(n: nat, a: nat, b: nat)
    requires a <= b, 2 * b <= n,
    ensures binom_c(n, a) <= binom_c(n, b),
    decreases b - a,
{
    if a < b {
        lemma_binom_mono(n, a + 1, b);
        lemma_binom_step(n, a);
        let x = binom_c(n, a); let y = binom_c(n, a + 1);
        assert(x <= y) by(nonlinear_arith) requires x * (n - a) == y * (a + 1), n - a >= a + 1, a + 1 >= 1;
    }
}
/// (q * d) / d == q
pub proof fn lemma_exact_div(p: int, q: int, d: int)
    requires d > 0, q >= 0, p == q * d || p == d * q,
    ensures p / d == q,
{
    assert(q * d == d * q) by(nonlinear_arith);
    vstd::arithmetic::div_mod::lemma_div_by_multiple(q, d);
}

