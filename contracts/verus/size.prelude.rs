// V-size prelude (C09, the size model of values): XValue::size (src/xvalue.rs) and FencedString::size
// (src/util/fenced_string.rs).  Decided: the accounted size of a value is at least size_of::<XValue>() plus
// its payload (the bytes of a string's buffer and index, the words of a struct instance, the reported size of
// a big integer / native value), without overflow for payloads below 2^60 bytes.
#![allow(unused_imports, dead_code, unused_variables)]
use vstd::prelude::*;
use std::rc::Rc;
use std::mem::size_of;

verus! {

global size_of usize == 8;

pub mod words {
    use vstd::prelude::*;
    /// `n * size_of::<usize>()` with the word size known to be 8 is the linear term `n * 8` (Z3's nonlinear
    /// engine does not substitute the constant on its own)
    pub broadcast proof fn lemma_mul_word(a: int, b: int)
        requires b == 8,
        ensures #[trigger] (a * b) == a * 8,
    {}
}
broadcast use words::lemma_mul_word;

pub open spec fn small(x: int) -> bool { 0 <= x < 0x1000_0000_0000_0000 }

// ------------------------------------------------------------------ payload types (stubs)
pub struct LazyBigint;
impl LazyBigint {
    pub uninterp spec fn add_size(&self) -> int;
    #[verifier::external_body]
    pub fn additional_size(&self) -> (r: usize) ensures r as int == self.add_size() { unimplemented!() }
}
pub struct ManagedXValue<W, R, T> { pub w: Ghost<W>, pub r: Ghost<R>, pub t: Ghost<T> }
pub struct Cells { pub n: Ghost<int> }
impl Cells {
    #[verifier::external_body]
    pub fn len(&self) -> (r: usize) ensures r as int == self.n@ { unimplemented!() }
}
pub struct RuntimeScopeTemplate<W, R, T> { pub cells: Cells, pub w: Ghost<W>, pub r: Ghost<R>, pub t: Ghost<T> }
pub struct NativeFn;
pub struct XExprBox;
pub enum XFunction<W, R, T> {
    Native(NativeFn),
    UserFunction { template: Rc<RuntimeScopeTemplate<W, R, T>>, output: XExprBox },
}
pub struct NativeBox { pub sz: Ghost<int> }
impl NativeBox {
    /// XNativeValue::full_size through the Box<dyn XNativeValue>
    #[verifier::external_body]
    pub fn full_size(&self) -> (r: usize) ensures r as int == self.sz@ { unimplemented!() }
}
pub type UnionInstance<W, R, T> = (usize, Rc<ManagedXValue<W, R, T>>);

/// the payload a value holds beyond the enum itself
pub open spec fn payload<W, R, T>(v: XValue<W, R, T>) -> int {
    match v {
        XValue::Int(i) => i.add_size(),
        XValue::String(s) => s.spec_size(),
        XValue::Function(XFunction::UserFunction { template, .. }) => 8 + template.cells.n@ * 8,
        XValue::StructInstance(items) => (items@.len() * 8) as int,
        XValue::Native(n) => 8 + n.sz@,
        _ => 0,
    }
}

/// number of bytes of a String (std: `String::len` is the length in bytes, not chars)
pub uninterp spec fn byte_len(s: &String) -> nat;
pub assume_specification [String::len] (s: &String) -> (r: usize)
    ensures r == byte_len(s);

impl FencedString {
    /// what a string value holds: the struct, the bytes of its text and the character index
    pub closed spec fn spec_size(&self) -> int {
        size_of::<FencedString>() + byte_len(&self.buffer) + self.char_starts@.len() * 8
    }
    pub closed spec fn spec_small(&self) -> bool {
        small(byte_len(&self.buffer) as int) && small(self.char_starts@.len() as int)
    }
}

// @@EXTRACTED@@

} // verus!
fn main() {}
