// V-floatint prelude (C14, "conversion ... from float"): the closures of the builtins floor / ceil / trunc
// (src/builtin/floats.rs).  Contract: the result is the integer whose value is EXACTLY the value of the
// whole float std's floor / ceil / trunc returns -- i.e. the conversion goes through
// `LazyBigint::from_f64` (exact for every whole finite float; its Short / Long split is checked by the
// Kani harness `from_f64_exact`), not through a saturating or truncating cast.
//
// f64 is opaque to Verus: `ffloor / fceil / ftrunc` name std's rounding functions, `fint(x)` the integer
// value of a whole finite float (uninterpreted; assumed: std's functions return whole floats and keep
// finiteness).  XValue::Float payloads are finite (C13).
#![allow(unused_imports, dead_code, unused_variables)]
use vstd::prelude::*;

verus! {

pub uninterp spec fn finite(x: f64) -> bool;
pub uninterp spec fn whole(x: f64) -> bool;
/// the integer a whole finite float denotes
pub uninterp spec fn fint(x: f64) -> int;
pub uninterp spec fn ffloor(x: f64) -> f64;
pub uninterp spec fn fceil(x: f64) -> f64;
pub uninterp spec fn ftrunc(x: f64) -> f64;

pub assume_specification [f64::floor] (x: f64) -> (r: f64)
    ensures r == ffloor(x), finite(x) ==> finite(r) && whole(r);
pub assume_specification [f64::ceil] (x: f64) -> (r: f64)
    ensures r == fceil(x), finite(x) ==> finite(r) && whole(r);
pub assume_specification [f64::trunc] (x: f64) -> (r: f64)
    ensures r == ftrunc(x), finite(x) ==> finite(r) && whole(r);

pub struct LazyBigint { pub v: Ghost<int> }
impl LazyBigint {
    pub open spec fn val(&self) -> int { self.v@ }
    /// num_traits::FromPrimitive::from_f64 (util/lazy_bigint.rs:451): None unless the float is whole
    #[verifier::external_body]
    pub fn from_f64(n: f64) -> (r: Option<LazyBigint>)
        ensures
            (finite(n) && whole(n)) ==> (r matches Some(v) && v.val() == fint(n)),
    { unimplemented!() }
}
pub struct RuntimeViolation;
pub struct ManagedXError;
pub type RuntimeResult<T> = Result<T, RuntimeViolation>;
pub type XResult<T> = RuntimeResult<Result<T, std::rc::Rc<ManagedXError>>>;
pub struct Rt;
pub enum XValue { Int(LazyBigint), Float(f64), Bool(bool) }

/// the result is the integer `x`
pub open spec fn is_int(r: XResult<XValue>, x: int) -> bool {
    r matches Ok(Ok(XValue::Int(i))) && i.val() == x
}

// @@INCLUDE stdx@@

// @@EXTRACTED@@

} // verus!
fn main() {}
