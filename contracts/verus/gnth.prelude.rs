// V-gnth prelude (C16 "consumers", C08 "nth"): the search loop of the generator consumer `nth`
// (src/builtin/generators.rs), real text from the loop to the end of the native closure (R-for); real
// `xraise!`, `to_primitive!`, `manage_native!`; `XOptional` is the real struct.
//
// Contract: with m the (non-negative) number of matches to skip, the result is `some(x)` for the element x
// at the FIRST position whose element satisfies the predicate and has exactly m satisfying elements before
// it, and `none` when the generator ends first; an element / predicate answer that is an error value ends
// the search with that error value.  (Counting is the recursive spec `hits`.)
//
// Assumed: the generator is finite (termination); the evaluator as a deterministic function `apply`; the
// predicate answers a Bool; LazyBigint by V-int's contracts.
#![allow(unused_imports, dead_code, unused_variables, unused_mut)]
use vstd::prelude::*;
use vstd::std_specs::convert::*;
use std::rc::Rc;

verus! {

// @@INCLUDE lazyint@@
/// num_traits::One
pub struct One;
impl One { #[verifier::external_body] pub fn one() -> (r: LazyBigint) ensures r.val() == 1 { unimplemented!() } }

pub struct P<W, R, T> { pub w: Ghost<W>, pub r: Ghost<R>, pub t: Ghost<T> }
pub struct Func { pub id: Ghost<int> }
pub enum XValue<W, R, T> { Native(Box<XOptional<W, R, T>>), Bool(bool), Int(LazyBigint), Function(Func), Other(P<W, R, T>) }
pub mod xvalue { pub use super::XValue; }
/// Rc<ManagedXValue>
pub struct Val<W, R, T> { pub value: XValue<W, R, T> }
pub struct ErrV { pub id: Ghost<int> }
pub struct RuntimeViolation { pub id: Ghost<int> }
pub type RuntimeResult<X> = Result<X, RuntimeViolation>;
pub type EvaluatedValue<W, R, T> = Result<Val<W, R, T>, ErrV>;
pub type XResult<X> = RuntimeResult<Result<X, ErrV>>;
pub enum TailedEvalResult<W, R, T> { Value(EvaluatedValue<W, R, T>), TailCall(Vec<EvaluatedValue<W, R, T>>) }
pub mod xexpr { pub use super::TailedEvalResult; }
pub struct Rt;
impl Rt { #[verifier::external_body] pub fn clone(&self) -> (r: Rt) { unimplemented!() } }
pub struct Ns;
pub struct ManagedXValue;
impl ManagedXValue {
    #[verifier::external_body]
    pub fn new<W, R, T>(value: XValue<W, R, T>, rt: Rt) -> (r: RuntimeResult<Val<W, R, T>>)
        ensures r matches Ok(m) ==> m.value == value,
    { unimplemented!() }
}
impl<W, R, T> Val<W, R, T> {
    #[verifier::external_body]
    pub fn into(self) -> (r: TailedEvalResult<W, R, T>) ensures r == TailedEvalResult::Value(Ok(self)) { unimplemented!() }
}
impl ErrV { #[verifier::external_body] pub fn into(self) -> (r: ErrV) ensures r == self { unimplemented!() } }

pub struct ManagedXError;
impl ManagedXError {
    #[verifier::external_body]
    pub fn new(error: &str, rt: Rt) -> (r: RuntimeResult<ErrV>) { unimplemented!() }
}
/// builtin/core.rs `xerr`
#[verifier::external_body]
pub fn xerr<W, R, T>(err: ErrV) -> (r: RuntimeResult<TailedEvalResult<W, R, T>>)
    ensures r == Ok::<TailedEvalResult<W, R, T>, RuntimeViolation>(TailedEvalResult::Value(Err(err))),
{ unimplemented!() }

/// xexpr.rs: `impl From<EvaluatedValue> for TailedEvalResult` (the real impl is extracted below and checked
/// against this specification)
impl<W, R, T> FromSpecImpl<EvaluatedValue<W, R, T>> for TailedEvalResult<W, R, T> {
    open spec fn obeys_from_spec() -> bool { true }
    open spec fn from_spec(v: EvaluatedValue<W, R, T>) -> Self { TailedEvalResult::Value(v) }
}

// ------------------------------------------------------------------ the generator and its iterator
pub struct XGenerator<W, R, T> { pub e: Ghost<Seq<XResult<Val<W, R, T>>>> }
pub struct GenIter<W, R, T> { pub r: Ghost<Seq<XResult<Val<W, R, T>>>> }
impl<W, R, T> XGenerator<W, R, T> {
    pub open spec fn elems(&self) -> Seq<XResult<Val<W, R, T>>> { self.e@ }
    #[verifier::external_body]
    pub fn iter(&self, ns: &Ns, rt: Rt) -> (r: GenIter<W, R, T>) ensures r.rest() == self.elems() { unimplemented!() }
}
impl<W, R, T> GenIter<W, R, T> {
    pub open spec fn rest(&self) -> Seq<XResult<Val<W, R, T>>> { self.r@ }
    #[verifier::external_body]
    pub fn next(&mut self) -> (r: Option<XResult<Val<W, R, T>>>)
        ensures
            old(self).rest().len() == 0 ==> r is None && final(self).rest() == old(self).rest(),
            old(self).rest().len() > 0 ==> r == Some(old(self).rest()[0]) && final(self).rest() == old(self).rest().skip(1),
    { unimplemented!() }
}

// ------------------------------------------------------------------ specification vocabulary
pub open spec fn is_val<W, R, T>(x: XResult<Val<W, R, T>>) -> bool { x matches Ok(Ok(_)) }
pub open spec fn val_of<W, R, T>(x: XResult<Val<W, R, T>>) -> Val<W, R, T> { x->Ok_0->Ok_0 }
/// all of the first n elements are values
pub open spec fn vals_before<W, R, T>(g: Seq<XResult<Val<W, R, T>>>, n: int) -> bool {
    forall|j: int| 0 <= j < n ==> is_val(#[trigger] g[j])
}
/// the outcome when the k-th element is the first one that is not a value: its error value, or a violation
pub open spec fn stops_at<W, R, T>(r: RuntimeResult<TailedEvalResult<W, R, T>>, g: Seq<XResult<Val<W, R, T>>>, k: int) -> bool {
    match g[k] {
        Err(_) => r is Err,
        Ok(Err(e)) => r matches Ok(t) ==> t == TailedEvalResult::<W, R, T>::Value(Err(e)),
        Ok(Ok(_)) => true,
    }
}
/// what a function value answers for an argument list
pub uninterp spec fn apply<W, R, T>(f: Func, args: Seq<EvaluatedValue<W, R, T>>) -> EvaluatedValue<W, R, T>;
impl Ns {
    #[verifier::external_body]
    pub fn eval_func_with_values<W, R, T>(&self, func: &Func, args: Vec<EvaluatedValue<W, R, T>>, rt: Rt, tail_available: bool) -> (r: RuntimeResult<TailedEvalResult<W, R, T>>)
        ensures
            !tail_available ==> (r matches Ok(t) ==> t == TailedEvalResult::Value(apply(*func, args@))),
    { unimplemented!() }
}
impl<W, R, T> TailedEvalResult<W, R, T> {
    #[verifier::external_body]
    pub fn unwrap_value(self) -> (r: EvaluatedValue<W, R, T>)
        requires self is Value,
        ensures r == self->Value_0,
    { unimplemented!() }
}
impl<W, R, T> Clone for Val<W, R, T> { #[verifier::external_body] fn clone(&self) -> (r: Self) ensures r == *self { unimplemented!() } }
impl Clone for ErrV { #[verifier::external_body] fn clone(&self) -> (r: ErrV) ensures r == *self { unimplemented!() } }
pub assume_specification<X: Clone, E0: Clone> [<Result<X, E0> as Clone>::clone] (x: &Result<X, E0>) -> (r: Result<X, E0>)
    ensures (match *x { Ok(a) => r matches Ok(b) && call_ensures(X::clone, (&a,), b), Err(a) => r matches Err(b) && call_ensures(E0::clone, (&a,), b) });
#[verifier::external_body]
pub fn vx_panic<X>() -> (r: X)
    requires false,
{ unimplemented!() }
macro_rules! panic { ($($t:tt)*) => { vx_panic() } }
pub mod ext {
    use vstd::prelude::*;
    use super::*;
    pub broadcast proof fn lemma_apply1<W, R, T>(f: Func, s: Seq<EvaluatedValue<W, R, T>>)
        requires s.len() == 1,
        ensures #[trigger] apply(f, s) == apply(f, seq![s[0]]),
    { assert(s =~= seq![s[0]]); }
}
/// the predicate's answer on the k-th element (which is a value or an error value)
pub open spec fn pans<W, R, T>(f: Func, g: Seq<XResult<Val<W, R, T>>>, k: int) -> EvaluatedValue<W, R, T> {
    apply(f, seq![g[k]->Ok_0])
}
pub open spec fn hit<W, R, T>(f: Func, g: Seq<XResult<Val<W, R, T>>>, k: int) -> bool {
    pans(f, g, k) matches Ok(v) && v.value == XValue::<W, R, T>::Bool(true)
}
pub open spec fn miss<W, R, T>(f: Func, g: Seq<XResult<Val<W, R, T>>>, k: int) -> bool {
    pans(f, g, k) matches Ok(v) && v.value == XValue::<W, R, T>::Bool(false)
}
/// the number of positions below k whose element satisfies the predicate
pub open spec fn hits<W, R, T>(f: Func, g: Seq<XResult<Val<W, R, T>>>, k: int) -> int
    decreases k
{
    if k <= 0 { 0 } else { hits(f, g, k - 1) + (if hit(f, g, k - 1) { 1int } else { 0int }) }
}
pub open spec fn answers_bool<W, R, T>(f: Func) -> bool {
    forall|s: Seq<EvaluatedValue<W, R, T>>| (#[trigger] apply(f, s)) matches Ok(c) ==> c.value is Bool
}
/// the native's result is the optional `o`
pub open spec fn is_opt<W, R, T>(r: RuntimeResult<TailedEvalResult<W, R, T>>, o: Option<Val<W, R, T>>) -> bool {
    r matches Ok(t) ==> (t is Value && t->Value_0 is Ok && t->Value_0->Ok_0.value is Native
        && t->Value_0->Ok_0.value->Native_0.value == o)
}

// @@INCLUDE stdx@@

// @@EXTRACTED@@

} // verus!
fn main() {}
