// V-budget prelude (C08, "search budget: L permits, then a violation"): RuntimeLimits::search_iter
// (src/runtime.rs) and the helper `search` (src/builtin/core.rs), real text.
//
// Contract of search_iter: without a search limit the stream is endless and every item is a permit
// `Ok(())`; with `maximum_search = Some(L)` the stream has exactly L permits followed by exactly one
// `Err(RuntimeViolation::MaximumSearch)` and then ends.  `search(it, rt)` pairs the k-th element with the
// k-th item of that stream.
//
// std's iterator adaptors (repeat_with, take, chain, once) and either::Either are modelled as streams
// (`Stream`: length -- finite or endless -- and the item at each index) with their documented meaning
// (trusted).  The parameterless closure `|| Ok(())` gets its own body as postcondition (R-closurepost).
#![allow(unused_imports, dead_code, unused_variables)]
use vstd::prelude::*;
use std::rc::Rc;

verus! {

#[verifier::external_type_specification]
#[verifier::external_body]
pub struct ExIoError(std::io::Error);

pub enum Len { Inf, Fin(nat) }
pub trait Stream: Sized {
    type Item;
    spec fn slen(&self) -> Len;
    spec fn at(&self, i: int) -> Self::Item;
}

pub open spec fn in_stream(l: Len, i: int) -> bool { 0 <= i && (l matches Len::Fin(n) ==> i < n) }

/// core::iter::RepeatWith
pub struct Repeat<T> { pub g: Ghost<spec_fn(int) -> T> }
impl<T> Stream for Repeat<T> {
    type Item = T;
    open spec fn slen(&self) -> Len { Len::Inf }
    open spec fn at(&self, i: int) -> T { (self.g@)(i) }
}
/// core::iter::Take
pub struct Take<S> { pub s: S, pub n: usize }
impl<S: Stream> Stream for Take<S> {
    type Item = S::Item;
    open spec fn slen(&self) -> Len {
        match self.s.slen() { Len::Inf => Len::Fin(self.n as nat), Len::Fin(m) => Len::Fin(if m <= self.n { m } else { self.n as nat }) }
    }
    open spec fn at(&self, i: int) -> S::Item { self.s.at(i) }
}
/// core::iter::Once
pub struct Once<T> { pub x: T }
impl<T> Stream for Once<T> {
    type Item = T;
    open spec fn slen(&self) -> Len { Len::Fin(1) }
    open spec fn at(&self, i: int) -> T { self.x }
}
/// core::iter::Chain
pub struct Chain<A, B> { pub a: A, pub b: B }
impl<A: Stream, B: Stream<Item = A::Item>> Stream for Chain<A, B> {
    type Item = A::Item;
    open spec fn slen(&self) -> Len {
        match (self.a.slen(), self.b.slen()) { (Len::Fin(n), Len::Fin(m)) => Len::Fin(n + m), _ => Len::Inf }
    }
    open spec fn at(&self, i: int) -> A::Item {
        match self.a.slen() { Len::Fin(n) => if i < n { self.a.at(i) } else { self.b.at(i - n) }, Len::Inf => self.a.at(i) }
    }
}
/// either::Either as an iterator
pub enum Either<L, R> { Left(L), Right(R) }
impl<L: Stream, R: Stream<Item = L::Item>> Stream for Either<L, R> {
    type Item = L::Item;
    open spec fn slen(&self) -> Len { match self { Either::Left(l) => l.slen(), Either::Right(r) => r.slen() } }
    open spec fn at(&self, i: int) -> L::Item { match self { Either::Left(l) => l.at(i), Either::Right(r) => r.at(i) } }
}
/// core::iter::Zip: as long as the shorter side
pub struct Zip<A, B> { pub a: A, pub b: B }
impl<A: Stream, B: Stream> Stream for Zip<A, B> {
    type Item = (A::Item, B::Item);
    open spec fn slen(&self) -> Len {
        match (self.a.slen(), self.b.slen()) {
            (Len::Inf, l) => l,
            (l, Len::Inf) => l,
            (Len::Fin(n), Len::Fin(m)) => Len::Fin(if n <= m { n } else { m }),
        }
    }
    open spec fn at(&self, i: int) -> (A::Item, B::Item) { (self.a.at(i), self.b.at(i)) }
}

/// the iterator handed to `search` (any element stream)
pub struct AnyStream<T> { pub l: Ghost<Len>, pub g: Ghost<spec_fn(int) -> T> }
impl<T> Stream for AnyStream<T> {
    type Item = T;
    open spec fn slen(&self) -> Len { self.l@ }
    open spec fn at(&self, i: int) -> T { (self.g@)(i) }
}
impl<T> AnyStream<T> {
    /// IntoIterator for an iterator: itself
    pub fn into_iter(self) -> (r: Self) ensures r == self { self }
    pub fn zip<B>(self, b: B) -> (r: Zip<AnyStream<T>, B>) ensures r.a == self, r.b == b { Zip { a: self, b } }
}

pub mod iter {
    use super::*;
    #[verifier::external_body]
    pub fn repeat_with<T, F: Fn() -> T>(f: F) -> (r: Repeat<T>)
        requires f.requires(()),
        ensures forall|i: int| 0 <= i ==> f.ensures((), #[trigger] r.at(i)),
    { unimplemented!() }
    pub fn once<T>(x: T) -> (r: Once<T>) ensures r.x == x { Once { x } }
}
impl<T> Repeat<T> {
    pub fn take(self, n: usize) -> (r: Take<Repeat<T>>) ensures r.s == self, r.n == n { Take { s: self, n } }
}
impl<S: Stream> Take<S> {
    pub fn chain<B: Stream<Item = S::Item>>(self, b: B) -> (r: Chain<Take<S>, B>) ensures r.a == self, r.b == b { Chain { a: self, b } }
}

pub struct Duration;
pub struct PermissionSet;
pub type RuntimeResult<T> = Result<T, RuntimeViolation>;

/// `rt.limits.search_iter()` as `search` reaches it
pub struct Rt { pub limits: RuntimeLimits }

/// the documented budget: L permits, then one MaximumSearch violation, then the end; endless without limit
pub open spec fn is_budget<S: Stream<Item = RuntimeResult<()>>>(s: S, limit: Option<usize>) -> bool {
    match limit {
        None => s.slen() == Len::Inf && forall|i: int| 0 <= i ==> (#[trigger] s.at(i)) == Ok::<(), RuntimeViolation>(()),
        Some(l) => s.slen() == Len::Fin((l + 1) as nat)
            && (forall|i: int| 0 <= i < l ==> (#[trigger] s.at(i)) == Ok::<(), RuntimeViolation>(()))
            && s.at(l as int) == Err::<(), RuntimeViolation>(RuntimeViolation::MaximumSearch),
    }
}
/// C10's reading: with a limit configured the budget is FINITE and ends in a violation (so every loop that
/// consumes an item per step, and stops at the violation, terminates), whatever the exact count
pub open spec fn is_finite_budget<S: Stream<Item = RuntimeResult<()>>>(s: S, limit: Option<usize>) -> bool {
    limit is Some ==> (s.slen() matches Len::Fin(n) && n >= 1 && s.at(n - 1) is Err)
}
pub type BudgetIter = Either<Repeat<RuntimeResult<()>>, Chain<Take<Repeat<RuntimeResult<()>>>, Once<RuntimeResult<()>>>>;

// @@INCLUDE stdx@@

// @@EXTRACTED@@

} // verus!
fn main() {}
