// V-intops prelude (C14): the integer builtins of src/builtin/int.rs (closures passed to
// add_binfunc! / add_int_binop!), verified as real text against the contracts unit V-int proves for
// LazyBigint.  Decided here: the guards of each builtin establish the preconditions of the LazyBigint
// operation it calls (rhs != 0 for mod / div / div_floor / div_ceil, exponent >= 0 and not 0**0 for
// pow), the pre-flight size arithmetic cannot overflow or underflow, and a successful result is the
// exact integer.
#![allow(unused_imports, dead_code, unused_variables)]
use vstd::prelude::*;
use vstd::std_specs::ops::*;
use core::ops::{Add, Sub, Mul, Rem, BitAnd, BitOr, BitXor};
use std::rc::Rc;

verus! {

global size_of usize == 8;

pub open spec fn smul(a: int, b: int) -> int { a * b }
pub open spec fn tdiv(a: int, b: int) -> int { vstd::arithmetic::div_mod::rust_div(a, b) }
pub open spec fn trem(a: int, b: int) -> int { vstd::arithmetic::div_mod::rust_rem(a, b) }
pub open spec fn fdiv(a: int, b: int) -> int { if b > 0 { a / b } else { (-a) / (-b) } }
pub open spec fn cdiv(a: int, b: int) -> int { -fdiv(-a, b) }
pub uninterp spec fn ipow(b: int, e: nat) -> int;
pub uninterp spec fn iand(a: int, b: int) -> int;
pub uninterp spec fn ior(a: int, b: int) -> int;
pub uninterp spec fn ixor(a: int, b: int) -> int;

// ------------------------------------------------------------------ LazyBigint by contract (V-int)
// values are canonical (wf) by V-int's postconditions, so a value is identified with the integer it denotes
pub struct LazyBigint { pub v: Ghost<int> }
impl LazyBigint {
    pub open spec fn val(self) -> int { self.v@ }
    #[verifier::external_body]
    pub fn clone(&self) -> (r: LazyBigint) ensures r == *self { unimplemented!() }
    #[verifier::external_body]
    pub fn is_zero(&self) -> (r: bool) ensures r == (self.val() == 0) { unimplemented!() }
    #[verifier::external_body]
    pub fn is_negative(&self) -> (r: bool) ensures r == (self.val() < 0) { unimplemented!() }
    /// LazyBigint::bits (64 for a Short, the bit length of a Long)
    #[verifier::external_body]
    pub fn bits(&self) -> (r: u64) { unimplemented!() }
    /// num_traits::Pow<Self> for LazyBigint (contract proved by V-int)
    #[verifier::external_body]
    pub fn pow(self, rhs: LazyBigint) -> (r: LazyBigint)
        requires rhs.val() >= 0, !(self.val() == 0 && rhs.val() == 0),
        ensures r.val() == ipow(self.val(), rhs.val() as nat),
    { unimplemented!() }
    /// num_traits::ToPrimitive
    #[verifier::external_body]
    pub fn to_usize(&self) -> (r: Option<usize>) ensures r matches Some(x) ==> x as int == self.val() { unimplemented!() }
    #[verifier::external_body]
    pub fn true_div(self, rhs: LazyBigint) -> (r: f64) requires rhs.val() != 0 { unimplemented!() }
    #[verifier::external_body]
    pub fn div_floor(self, rhs: LazyBigint) -> (r: LazyBigint) requires rhs.val() != 0 ensures r.val() == fdiv(self.val(), rhs.val()) { unimplemented!() }
    #[verifier::external_body]
    pub fn div_ceil(self, rhs: LazyBigint) -> (r: LazyBigint) requires rhs.val() != 0 ensures r.val() == cdiv(self.val(), rhs.val()) { unimplemented!() }
}
pub open spec fn lbv(x: int) -> LazyBigint { LazyBigint { v: Ghost(x) } }

macro_rules! lazy_op {
    ($Tr:ident, $m:ident, $SpecTr:ident, $obeys:ident, $req:ident, $spec:ident, |$a:ident, $b:ident| $reqe:expr, $val:expr) => {
        verus! {
        impl $Tr for LazyBigint { type Output = LazyBigint; #[verifier::external_body] fn $m(self, rhs: LazyBigint) -> LazyBigint { unimplemented!() } }
        impl $SpecTr<LazyBigint> for LazyBigint {
            open spec fn $obeys() -> bool { true }
            open spec fn $req(self, rhs: LazyBigint) -> bool { let $a = self; let $b = rhs; $reqe }
            open spec fn $spec(self, rhs: LazyBigint) -> LazyBigint { let $a = self; let $b = rhs; lbv($val) }
        }
        }
    };
}
lazy_op!(Add, add, AddSpecImpl, obeys_add_spec, add_req, add_spec, |a, b| true, a.val() + b.val());
lazy_op!(Sub, sub, SubSpecImpl, obeys_sub_spec, sub_req, sub_spec, |a, b| true, a.val() - b.val());
lazy_op!(Mul, mul, MulSpecImpl, obeys_mul_spec, mul_req, mul_spec, |a, b| true, smul(a.val(), b.val()));
lazy_op!(BitAnd, bitand, BitAndSpecImpl, obeys_bitand_spec, bitand_req, bitand_spec, |a, b| true, iand(a.val(), b.val()));
lazy_op!(BitOr, bitor, BitOrSpecImpl, obeys_bitor_spec, bitor_req, bitor_spec, |a, b| true, ior(a.val(), b.val()));
lazy_op!(BitXor, bitxor, BitXorSpecImpl, obeys_bitxor_spec, bitxor_req, bitxor_spec, |a, b| true, ixor(a.val(), b.val()));
lazy_op!(Rem, rem, RemSpecImpl, obeys_rem_spec, rem_req, rem_spec, |a, b| b.val() != 0, trem(a.val(), b.val()));

// ------------------------------------------------------------------ runtime, values, errors (stubs)
pub struct RuntimeViolation;
pub struct ManagedXError;
pub type RuntimeResult<T> = Result<T, RuntimeViolation>;
pub type XResult<T> = RuntimeResult<Result<T, Rc<ManagedXError>>>;
pub struct Rt;
impl Rt {
    #[verifier::external_body]
    pub fn clone(&self) -> (r: Rt) { unimplemented!() }
    #[verifier::external_body]
    pub fn can_allocate(&self, new_size: usize) -> (r: RuntimeResult<()>) { unimplemented!() }
    #[verifier::external_body]
    pub fn can_allocate_by<F: Fn() -> Option<usize>>(&self, f: F) -> (r: RuntimeResult<()>)
        requires f.requires(()),
    { unimplemented!() }
    #[verifier::external_body]
    pub fn can_afford(&self, x: &LazyBigint) -> (r: RuntimeResult<()>) { unimplemented!() }
}
impl ManagedXError {
    #[verifier::external_body]
    pub fn new(error: &str, runtime: Rt) -> (r: RuntimeResult<Rc<ManagedXError>>) { unimplemented!() }
}
pub enum XValue { Int(LazyBigint), Float(f64), Bool(bool) }
impl XValue {
    #[verifier::external_body]
    pub fn float(x: f64, rt: &Rt) -> (r: XResult<XValue>)
        ensures r matches Ok(Ok(v)) ==> v is Float,
    { unimplemented!() }
}
pub assume_specification<T, U> [Option::<T>::zip] (a: Option<T>, b: Option<U>) -> (r: Option<(T, U)>)
    ensures r == (match (a, b) { (Some(x), Some(y)) => Some((x, y)), _ => None::<(T, U)> });
/// num_traits::ToPrimitive for u64
pub trait ToPrimitive { fn to_usize(&self) -> Option<usize>; }
impl ToPrimitive for u64 {
    #[verifier::external_body]
    fn to_usize(&self) -> (r: Option<usize>) { unimplemented!() }
}
#[verifier::external_body]
pub fn max(a: usize, b: usize) -> (r: usize) ensures r == (if a >= b { a } else { b }) { unimplemented!() }

/// a successful result is the integer `x`
pub open spec fn is_int(r: XResult<XValue>, x: int) -> bool {
    r matches Ok(Ok(v)) ==> (v matches XValue::Int(i) && i.val() == x)
}

// @@EXTRACTED@@

} // verus!
fn main() {}
