// V-intops prelude (C14): the integer builtins of src/builtin/int.rs (closures passed to
// add_binfunc! / add_int_binop!), verified as real text against the contracts unit V-int proves for
// LazyBigint.  Decided here: the guards of each builtin establish the preconditions of the LazyBigint
// operation it calls (rhs != 0 for mod / div / div_floor / div_ceil, exponent >= 0 and not 0**0 for
// pow), the pre-flight size arithmetic cannot overflow or underflow, and a successful result is the
// exact integer.
#![allow(unused_imports, dead_code, unused_variables)]
use vstd::prelude::*;
use vstd::std_specs::ops::*;
use core::ops::{Add, Sub, Mul, Rem, BitAnd, BitOr, BitXor};
use std::rc::Rc;

verus! {

global size_of usize == 8;

pub open spec fn smul(a: int, b: int) -> int { a * b }
pub open spec fn tdiv(a: int, b: int) -> int { vstd::arithmetic::div_mod::rust_div(a, b) }
pub open spec fn trem(a: int, b: int) -> int { vstd::arithmetic::div_mod::rust_rem(a, b) }
pub open spec fn fdiv(a: int, b: int) -> int { if b > 0 { a / b } else { (-a) / (-b) } }
pub open spec fn cdiv(a: int, b: int) -> int { -fdiv(-a, b) }
/// floored modulo: a - b * floor(a / b)
pub open spec fn fmod(a: int, b: int) -> int { a - smul(b, fdiv(a, b)) }
// ---- floored modulo vs. the truncating remainder of Rust / num-bigint (proved, not assumed)
pub mod fmod_lemmas {
    use vstd::prelude::*;
    use vstd::arithmetic::div_mod::*;
    use super::{smul, trem, fdiv, fmod};
    verus! {
pub open spec fn adjusted(a: int, b: int) -> int {
    let r0 = trem(a, b);
    if r0 != 0 && ((r0 < 0) != (b < 0)) { r0 + b } else { r0 }
}
/// Euclidean remainder is the unique r in [0, d) with x == q*d + r (d > 0)
proof fn uniq(x: int, d: int, q: int, r: int)
    requires d > 0, 0 <= r < d, x == q * d + r,
    ensures x % d == r, x / d == q,
{
    lemma_fundamental_div_mod_converse(x, d, q, r);
}
proof fn pos_case(a: int, b: int)
    requires b > 0,
    ensures fmod(a, b) == adjusted(a, b),
{
    lemma_fundamental_div_mod(a, b);
    lemma_mod_bound(a, b);
    assert(fmod(a, b) == a % b) by(nonlinear_arith) requires a == b * (a / b) + a % b, fmod(a, b) == a - b * (a / b);
    if a < 0 {
        let q1 = (-a) / b; let r1 = (-a) % b;
        lemma_fundamental_div_mod(-a, b);
        lemma_mod_bound(-a, b);
        if r1 == 0 {
            assert(a == (-q1) * b + 0) by(nonlinear_arith) requires -a == b * q1 + r1, r1 == 0;
            uniq(a, b, -q1, 0);
        } else {
            assert(a == (-q1 - 1) * b + (b - r1)) by(nonlinear_arith) requires -a == b * q1 + r1;
            uniq(a, b, -q1 - 1, b - r1);
        }
    }
}

proof fn neg_mod_same(x: int, d: int)
    requires d < 0,
    ensures x % d == x % (-d),
{
    lemma_fundamental_div_mod(x, d);
    assert(0 <= x % d < -d);
    assert(x == (-(x / d)) * (-d) + x % d) by(nonlinear_arith) requires x == d * (x / d) + x % d;
    uniq(x, -d, -(x / d), x % d);
}
proof fn neg_case(a: int, b: int)
    requires b < 0,
    ensures fmod(a, b) == adjusted(a, b),
{
    let nb = -b;
    lemma_fundamental_div_mod(-a, nb);
    lemma_mod_bound(-a, nb);
    assert(fmod(a, b) == -((-a) % nb)) by(nonlinear_arith)
        requires -a == nb * ((-a) / nb) + (-a) % nb, fmod(a, b) == a - b * ((-a) / nb), nb == -b;
    if a >= 0 {
        neg_mod_same(a, b);
        let r0 = a % nb;
        lemma_fundamental_div_mod(a, nb);
        lemma_mod_bound(a, nb);
        let q = a / nb;
        if r0 == 0 {
            assert(-a == (-q) * nb + 0) by(nonlinear_arith) requires a == nb * q + r0, r0 == 0;
            uniq(-a, nb, -q, 0);
        } else {
            assert(-a == (-q - 1) * nb + (nb - r0)) by(nonlinear_arith) requires a == nb * q + r0;
            uniq(-a, nb, -q - 1, nb - r0);
        }
    } else {
        neg_mod_same(-a, b);
    }
}
pub proof fn lemma_floored_mod(a: int, b: int)
    requires b != 0,
    ensures fmod(a, b) == adjusted(a, b),
{
    if b > 0 { pos_case(a, b); } else { neg_case(a, b); }
}

    }
}
pub uninterp spec fn ipow(b: int, e: nat) -> int;
pub uninterp spec fn iand(a: int, b: int) -> int;
pub uninterp spec fn ior(a: int, b: int) -> int;
pub uninterp spec fn ixor(a: int, b: int) -> int;

// ------------------------------------------------------------------ LazyBigint by contract (V-int)
// values are canonical (wf) by V-int's postconditions, so a value is identified with the integer it denotes
pub struct LazyBigint { pub v: Ghost<int> }
// comparison of LazyBigint: `Ord::cmp` / derived `PartialEq` under contract in V-int (the order / equality of the values)
impl PartialEq for LazyBigint { #[verifier::external_body] fn eq(&self, o: &Self) -> bool { unimplemented!() } }
impl vstd::std_specs::cmp::PartialEqSpecImpl for LazyBigint {
    open spec fn obeys_eq_spec() -> bool { true }
    open spec fn eq_spec(&self, o: &Self) -> bool { self.v@ == o.v@ }
}
impl PartialOrd for LazyBigint { #[verifier::external_body] fn partial_cmp(&self, o: &Self) -> Option<core::cmp::Ordering> { unimplemented!() } }
impl vstd::std_specs::cmp::PartialOrdSpecImpl for LazyBigint {
    open spec fn obeys_partial_cmp_spec() -> bool { true }
    open spec fn partial_cmp_spec(&self, o: &Self) -> Option<core::cmp::Ordering> {
        Some(if self.v@ < o.v@ { core::cmp::Ordering::Less } else if self.v@ == o.v@ { core::cmp::Ordering::Equal } else { core::cmp::Ordering::Greater })
    }
}
impl LazyBigint {
    pub open spec fn val(self) -> int { self.v@ }
    #[verifier::external_body]
    pub fn clone(&self) -> (r: LazyBigint) ensures r == *self { unimplemented!() }
    #[verifier::external_body]
    pub fn is_zero(&self) -> (r: bool) ensures r == (self.val() == 0) { unimplemented!() }
    #[verifier::external_body]
    pub fn is_negative(&self) -> (r: bool) ensures r == (self.val() < 0) { unimplemented!() }
    /// LazyBigint::bits (64 for a Short, the bit length of a Long)
    #[verifier::external_body]
    pub fn bits(&self) -> (r: u64) { unimplemented!() }
    /// num_traits::Pow<Self> for LazyBigint (contract proved by V-int)
    #[verifier::external_body]
    pub fn pow(self, rhs: LazyBigint) -> (r: LazyBigint)
        requires rhs.val() >= 0, !(self.val() == 0 && rhs.val() == 0),
        ensures r.val() == ipow(self.val(), rhs.val() as nat),
    { unimplemented!() }
    /// num_traits::ToPrimitive
    #[verifier::external_body]
    pub fn to_usize(&self) -> (r: Option<usize>)
        ensures r matches Some(x) ==> x as int == self.val(), r is None <==> (self.val() < 0 || self.val() > usize::MAX),
    { unimplemented!() }
    /// num_traits::Signed::abs
    #[verifier::external_body]
    pub fn abs(&self) -> (r: LazyBigint) ensures r.val() == (if self.val() < 0 { -self.val() } else { self.val() }) { unimplemented!() }
    /// num_traits::One::one
    #[verifier::external_body]
    pub fn one() -> (r: LazyBigint) ensures r.val() == 1 { unimplemented!() }
    #[verifier::external_body]
    pub fn true_div(self, rhs: LazyBigint) -> (r: f64) requires rhs.val() != 0 { unimplemented!() }
    #[verifier::external_body]
    pub fn div_floor(self, rhs: LazyBigint) -> (r: LazyBigint) requires rhs.val() != 0 ensures r.val() == fdiv(self.val(), rhs.val()) { unimplemented!() }
    #[verifier::external_body]
    pub fn div_ceil(self, rhs: LazyBigint) -> (r: LazyBigint) requires rhs.val() != 0 ensures r.val() == cdiv(self.val(), rhs.val()) { unimplemented!() }
}
pub open spec fn lbv(x: int) -> LazyBigint { LazyBigint { v: Ghost(x) } }

macro_rules! lazy_op {
    ($Tr:ident, $m:ident, $SpecTr:ident, $obeys:ident, $req:ident, $spec:ident, |$a:ident, $b:ident| $reqe:expr, $val:expr) => {
        verus! {
        impl $Tr for LazyBigint { type Output = LazyBigint; #[verifier::external_body] fn $m(self, rhs: LazyBigint) -> LazyBigint { unimplemented!() } }
        impl $SpecTr<LazyBigint> for LazyBigint {
            open spec fn $obeys() -> bool { true }
            open spec fn $req(self, rhs: LazyBigint) -> bool { let $a = self; let $b = rhs; $reqe }
            open spec fn $spec(self, rhs: LazyBigint) -> LazyBigint { let $a = self; let $b = rhs; lbv($val) }
        }
        }
    };
}
lazy_op!(Add, add, AddSpecImpl, obeys_add_spec, add_req, add_spec, |a, b| true, a.val() + b.val());
lazy_op!(Sub, sub, SubSpecImpl, obeys_sub_spec, sub_req, sub_spec, |a, b| true, a.val() - b.val());
lazy_op!(Mul, mul, MulSpecImpl, obeys_mul_spec, mul_req, mul_spec, |a, b| true, smul(a.val(), b.val()));
lazy_op!(BitAnd, bitand, BitAndSpecImpl, obeys_bitand_spec, bitand_req, bitand_spec, |a, b| true, iand(a.val(), b.val()));
lazy_op!(BitOr, bitor, BitOrSpecImpl, obeys_bitor_spec, bitor_req, bitor_spec, |a, b| true, ior(a.val(), b.val()));
lazy_op!(BitXor, bitxor, BitXorSpecImpl, obeys_bitxor_spec, bitxor_req, bitxor_spec, |a, b| true, ixor(a.val(), b.val()));
lazy_op!(Rem, rem, RemSpecImpl, obeys_rem_spec, rem_req, rem_spec, |a, b| b.val() != 0, trem(a.val(), b.val()));

// ------------------------------------------------------------------ runtime, values, errors (stubs)
pub struct RuntimeViolation;
pub struct ManagedXError;
pub type RuntimeResult<T> = Result<T, RuntimeViolation>;
pub type XResult<T> = RuntimeResult<Result<T, Rc<ManagedXError>>>;
pub struct Rt;
/// `stat.size.saturating_add(usize::MAX) > size_limit` for every limit below usize::MAX
pub axiom fn axiom_max_never_fits(rt: &Rt) ensures rt.limited() ==> !rt.fits(usize::MAX);
impl Rt {
    #[verifier::external_body]
    pub fn clone(&self) -> (r: Rt) { unimplemented!() }
    #[verifier::external_body]
    pub fn can_allocate(&self, new_size: usize) -> (r: RuntimeResult<()>) { unimplemented!() }
    /// a size limit below usize::MAX is configured
    pub uninterp spec fn limited(&self) -> bool;
    /// the accounted size plus `size` stays within the configured limit
    pub uninterp spec fn fits(&self, size: usize) -> bool;
    /// RTCell::can_allocate_by (runtime.rs): with a size limit, Ok exactly when the estimate `f` answers is absent
    /// (unknown: the check is skipped) or fits
    #[verifier::external_body]
    pub fn can_allocate_by<F: Fn() -> Option<usize>>(&self, f: F) -> (r: RuntimeResult<()>)
        requires f.requires(()),
        ensures (self.limited() && r is Ok) ==> exists|o: Option<usize>| #[trigger] f.ensures((), o) && (o matches Some(s) ==> self.fits(s)),
    { unimplemented!() }
    #[verifier::external_body]
    pub fn can_afford(&self, x: &LazyBigint) -> (r: RuntimeResult<()>) { unimplemented!() }
}
impl ManagedXError {
    #[verifier::external_body]
    pub fn new(error: &str, runtime: Rt) -> (r: RuntimeResult<Rc<ManagedXError>>) { unimplemented!() }
}
pub enum XValue { Int(LazyBigint), Float(f64), Bool(bool) }
impl XValue {
    #[verifier::external_body]
    pub fn float(x: f64, rt: &Rt) -> (r: XResult<XValue>)
        ensures r matches Ok(Ok(v)) ==> v is Float,
    { unimplemented!() }
}
pub assume_specification<T, U> [Option::<T>::zip] (a: Option<T>, b: Option<U>) -> (r: Option<(T, U)>)
    ensures r == (match (a, b) { (Some(x), Some(y)) => Some((x, y)), _ => None::<(T, U)> });
/// num_traits::ToPrimitive for u64
pub trait ToPrimitive { fn to_usize(&self) -> Option<usize>; }
impl ToPrimitive for u64 {
    #[verifier::external_body]
    fn to_usize(&self) -> (r: Option<usize>) ensures r == Some(*self as usize) { unimplemented!() }
}
#[verifier::external_body]
pub fn max(a: usize, b: usize) -> (r: usize) ensures r == (if a >= b { a } else { b }) { unimplemented!() }

/// a successful result is the integer `x`
pub open spec fn is_int(r: XResult<XValue>, x: int) -> bool {
    r matches Ok(Ok(v)) ==> (v matches XValue::Int(i) && i.val() == x)
}

// @@EXTRACTED@@

} // verus!
fn main() {}
