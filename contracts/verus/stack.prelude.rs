// V-stack prelude (C09, "the accounted size of a value"): `dyn_size` of the persistent stack (src/builtin/stack.rs),
// real text of the method body; StackNode and XStack are the real definitions (R-self: `Rc<ManagedXValue<W, R, T>>`
// -> `Val`, the type parameters W, R, T dropped).
//
// Contract: the size reported is one word per node that this stack alone keeps alive -- the walk stops at the first
// node with another owner, whose owner accounts for the rest of the list -- plus one when the walk reaches the end,
// plus one for the head; the walk terminates and the arithmetic cannot overflow for any list that fits in memory.
//
// Assumed: `Rc` is modelled as a box with a strong count (`Rc::strong_count` returns it, at least 1); an Rc is one
// word; the number of exclusively owned nodes is at most usize::MAX / 64 (every node occupies memory); usize is 64-bit.
#![allow(unused_imports, dead_code, unused_variables, unused_mut, unreachable_code)]
use vstd::prelude::*;
use std::mem::size_of;

verus! {

global size_of usize == 8;
/// Rc<ManagedXValue>: one word
pub struct Val { pub p: usize }
global size_of Val == 8;
/// std::rc::Rc, model: the pointee and the strong count
pub struct Rc<X> { pub v: Box<X>, pub strong: usize }
impl<X> Rc<X> {
    #[verifier::external_body]
    pub fn strong_count(this: &Rc<X>) -> (r: usize) ensures r == this.strong, r >= 1 { unimplemented!() }
}
impl<X> std::ops::Deref for Rc<X> { type Target = X; fn deref(&self) -> (r: &X) ensures *r == *self.v { &*self.v } }

// @@EXTRACTED@@

/// number of words `dyn_size` accounts for below the head: the exclusively owned prefix, plus one at the end of the list
spec fn excl(node: Option<Rc<StackNode>>) -> nat decreases node {
    match node { None => 1, Some(n) => if n.strong > 1 { 0 } else { 1 + excl(n.v.next) } }
}
spec fn depth(node: Option<Rc<StackNode>>) -> nat decreases node {
    match node { None => 0, Some(n) => 1 + depth(n.v.next) }
}

} // verus!
fn main() {}
