// V-ssample prelude (C15 / C09): `XSequence::sample` (src/builtin/sequence.rs) from the test `k == 0` to the
// pre-flight allocation check, and the pre-flight statements of the natives `sample` of discrete / continuous
// distributions and `custom_distribution`, and of `multinom` (src/builtin/int.rs).  Decided: the arithmetic that chooses between the pool and the pick
// method cannot overflow for any k <= len, and before either method collects anything `can_allocate` has covered
// one word per element it will hold (the whole sequence for the pool, k indices otherwise; the request saturates
// instead of overflowing).  The methods themselves (rand's partial_shuffle / sample_iter, itertools' unique) are
// not under contract.
#![allow(unused_imports, dead_code, unused_variables, unused_mut)]
use vstd::prelude::*;
use std::rc::Rc;
use std::mem::size_of;

verus! {

global size_of usize == 8;

pub assume_specification [usize::leading_zeros] (x: usize) -> (r: u32) ensures r <= 64;
pub assume_specification [usize::checked_pow] (x: usize, e: u32) -> (r: Option<usize>);
pub assume_specification [usize::pow] (x: usize, e: u32) -> (r: usize)
    requires vstd::arithmetic::power::pow(x as int, e as nat) <= usize::MAX,
    ensures r == vstd::arithmetic::power::pow(x as int, e as nat);

pub struct RuntimeViolation;
pub struct ManagedXError { pub msg: Ghost<Seq<char>> }
pub type RuntimeResult<T> = Result<T, RuntimeViolation>;
pub type XResult<T> = RuntimeResult<Result<T, Rc<ManagedXError>>>;
/// the bytes the last successful pre-flight check covered (ghost; R-state appends it to `can_allocate`)
pub struct Preflight { pub bytes: int }
pub struct Rt;
impl Rt {
    #[verifier::external_body]
    pub fn clone(&self) -> (r: Rt) { unimplemented!() }
    #[verifier::external_body]
    pub fn can_allocate(&self, new_size: usize, st: &mut Ghost<Preflight>) -> (r: RuntimeResult<()>)
        ensures r is Ok ==> final(st)@.bytes == new_size, r is Err ==> final(st)@ == old(st)@,
    { unimplemented!() }
}
impl ManagedXError {
    #[verifier::external_body]
    pub fn new(error: &str, runtime: Rt) -> (r: RuntimeResult<Rc<ManagedXError>>) ensures r matches Ok(e) ==> e.msg@ == error@ { unimplemented!() }
}
/// XSequence as far as `sample` looks at it: the canonical empty sequence, or anything else with its length
pub enum XSequence { Empty, Other(Option<usize>) }
impl XSequence {
    pub open spec fn length(self) -> Option<usize> { match self { XSequence::Empty => Some(0usize), XSequence::Other(l) => l } }
    #[verifier::external_body]
    pub fn len(&self) -> (r: Option<usize>) ensures r == self.length() { unimplemented!() }
}
/// `n` words, saturating
pub open spec fn words(n: usize) -> int { if n * 8 <= usize::MAX { n * 8 } else { usize::MAX as int } }
/// the rest of `sample`: the pool method collects the whole sequence (len elements), the pick method k indices and
/// then k elements -- the pre-flight check has to have covered that
#[verifier::external_body]
pub fn sample_rest(use_pool: bool, len: usize, k: usize, st: &mut Ghost<Preflight>) -> (r: XResult<XSequence>)
    requires old(st)@.bytes >= words(if use_pool { len } else { k }),
{ unimplemented!() }
/// what follows the pre-flight of a native that is about to build `n` values
#[verifier::external_body]
pub fn build_rest(n: usize, st: &mut Ghost<Preflight>) -> (r: RuntimeResult<()>)
    requires old(st)@.bytes >= words(n),
{ unimplemented!() }
/// util/lazy_bigint.rs LazyBigint as far as its size matters here: at least one word (the real enum is 32 bytes)
pub struct LazyBigint { pub w: [u64; 4] }
global size_of LazyBigint == 32;
#[verifier::external_body]
pub fn xerr(e: Rc<ManagedXError>) -> (r: RuntimeResult<()>) { unimplemented!() }
pub struct Perm;
pub struct Limits;
impl Limits {
    #[verifier::external_body]
    pub fn check_permission(&self, p: &Perm) -> (r: RuntimeResult<()>) { unimplemented!() }
}

// @@EXTRACTED@@

} // verus!
fn main() {}
