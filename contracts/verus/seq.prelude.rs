// V-seq prelude: contracts for the index arithmetic of XSequence (src/builtin/sequence.rs).
// LazyBigint appears here only through the contracts that unit V-int proves for it
// (canonical representation of the mathematical result): callers are checked against the callee's
// contract, not its body.
#![allow(unused_imports, dead_code, unused_variables)]
use vstd::prelude::*;
use vstd::std_specs::ops::*;
use vstd::std_specs::convert::*;
use core::ops::{Add, Mul};

verus! {

global size_of usize == 8;  // 64-bit target (listed under assumptions)

// ------------------------------------------------------------------ LazyBigint by contract (V-int)
pub struct LazyBigint { pub v: Ghost<int> }
impl LazyBigint { pub open spec fn val(self) -> int { self.v@ } }
pub open spec fn lbv(x: int) -> LazyBigint { LazyBigint { v: Ghost(x) } }
pub open spec fn smul(a: int, b: int) -> int { a * b }

impl From<i64> for LazyBigint { #[verifier::external_body] fn from(x: i64) -> Self { unimplemented!() } }
impl FromSpecImpl<i64> for LazyBigint {
    open spec fn obeys_from_spec() -> bool { true }
    open spec fn from_spec(x: i64) -> Self { lbv(x as int) }
}
impl From<usize> for LazyBigint { #[verifier::external_body] fn from(x: usize) -> Self { unimplemented!() } }
impl FromSpecImpl<usize> for LazyBigint {
    open spec fn obeys_from_spec() -> bool { true }
    open spec fn from_spec(x: usize) -> Self { lbv(x as int) }
}
impl Add for LazyBigint { type Output = LazyBigint; #[verifier::external_body] fn add(self, rhs: Self) -> Self { unimplemented!() } }
impl AddSpecImpl<LazyBigint> for LazyBigint {
    open spec fn obeys_add_spec() -> bool { true }
    open spec fn add_req(self, rhs: LazyBigint) -> bool { true }
    open spec fn add_spec(self, rhs: LazyBigint) -> LazyBigint { lbv(self.val() + rhs.val()) }
}
impl Mul for LazyBigint { type Output = LazyBigint; #[verifier::external_body] fn mul(self, rhs: Self) -> Self { unimplemented!() } }
impl MulSpecImpl<LazyBigint> for LazyBigint {
    open spec fn obeys_mul_spec() -> bool { true }
    open spec fn mul_req(self, rhs: LazyBigint) -> bool { true }
    open spec fn mul_spec(self, rhs: LazyBigint) -> LazyBigint { lbv(smul(self.val(), rhs.val())) }
}

pub assume_specification [i64::is_positive] (a: i64) -> (r: bool) ensures r == (a > 0);
pub assume_specification [i64::is_negative] (a: i64) -> (r: bool) ensures r == (a < 0);
// saturating arithmetic (documented std semantics), so that a body using it stays within the dialect
pub open spec fn clamp64(x: int) -> int { if x < i64::MIN { i64::MIN as int } else if x > i64::MAX { i64::MAX as int } else { x } }
pub assume_specification [i64::saturating_sub] (a: i64, b: i64) -> (r: i64) ensures r as int == clamp64(a - b);
pub assume_specification [i64::saturating_add] (a: i64, b: i64) -> (r: i64) ensures r as int == clamp64(a + b);
pub assume_specification [i64::saturating_neg] (a: i64) -> (r: i64) ensures r as int == clamp64(-a);
pub assume_specification [i64::wrapping_neg] (a: i64) -> (r: i64);
pub assume_specification [i64::abs] (a: i64) -> (r: i64) requires a != i64::MIN, ensures r as int == (if a >= 0 { a as int } else { -(a as int) });
pub assume_specification [i64::unsigned_abs] (a: i64) -> (r: u64) ensures r as int == (if a >= 0 { a as int } else { -(a as int) });
pub assume_specification [i128::is_positive] (a: i128) -> (r: bool) ensures r == (a > 0);
pub assume_specification [i128::is_negative] (a: i128) -> (r: bool) ensures r == (a < 0);

/// R-assert target: a run-time `assert!(c)` of the source becomes the obligation `c`
pub fn vx_assert(c: bool) requires c {}

// ------------------------------------------------------------------ the list a Range denotes
/// representation invariant of `XSequence::Range(start, end, step)`: exactly what the guard at the
/// only construction site (`range` builtin) lets through
pub open spec fn range_ok(start: int, end: int, step: int) -> bool {
    step != 0 && !(step > 0 && start >= end) && !(step < 0 && start <= end)
}
/// closed form of the length (ceiling of the distance over the step)
pub open spec fn range_len(start: int, end: int, step: int) -> int {
    if step > 0 { 1 + (end - 1 - start) / step } else { 1 + (start - 1 - end) / (-step) }
}
/// ... which is the number of k >= 0 with start + k*step strictly before end in the direction of
/// step (proved, not assumed): the list a Range denotes is [start + k*step | 0 <= k < range_len]
pub proof fn lemma_range_len_is_the_count(start: int, end: int, step: int, k: int)
    requires range_ok(start, end, step), k >= 0,
    ensures
        step > 0 ==> (k < range_len(start, end, step) <==> start + k * step < end),
        step < 0 ==> (k < range_len(start, end, step) <==> start + k * step > end),
        range_len(start, end, step) >= 1,
{
    let (x, d) = if step > 0 { (end - 1 - start, step) } else { (start - 1 - end, -step) };
    vstd::arithmetic::div_mod::lemma_fundamental_div_mod(x, d);
    vstd::arithmetic::div_mod::lemma_mod_bound(x, d);
    let q = x / d;
    assert(q >= 0) by(nonlinear_arith) requires x == d * q + x % d, 0 <= x % d < d, d > 0, x >= 0;
    if k <= q {
        assert(k * d <= x) by(nonlinear_arith) requires k <= q, x == d * q + x % d, 0 <= x % d, d > 0, k >= 0;
    } else {
        assert(k * d > x) by(nonlinear_arith) requires k >= q + 1, x == d * q + x % d, x % d < d, d > 0;
    }
    if step > 0 { assert(k * step == k * d); } else {
        assert(k * step == -(k * d)) by(nonlinear_arith) requires d == -step;
    }
}
/// quotient of a non-negative dividend by a positive divisor lies between 0 and the dividend
pub proof fn lemma_div_nonneg_bound(x: int, d: int)
    requires x >= 0, d > 0,
    ensures 0 <= x / d <= x,
{
    vstd::arithmetic::div_mod::lemma_fundamental_div_mod(x, d);
    vstd::arithmetic::div_mod::lemma_mod_bound(x, d);
    let q = x / d;
    assert(0 <= q <= x) by(nonlinear_arith) requires x == d * q + x % d, 0 <= x % d < d, d > 0, x >= 0;
}

// ------------------------------------------------------------------ XSequence::slice (composition of lazy slices)
/// `Rc<ManagedXValue>` holding a sequence; `len` is the length of the sequence it holds (None = infinite)
pub struct Inner { pub len: Ghost<Option<usize>> }
impl Inner {
    #[verifier::external_body]
    pub fn clone(&self) -> (r: Inner) ensures r == *self { unimplemented!() }
}
/// the representations that matter for slicing: a slice of a source, the empty sequence, anything else
/// (with its length)
pub enum XSequence { Slice(Inner, usize, Option<usize>), Empty, Other(Ghost<Option<usize>>) }

impl XSequence {
    /// representation invariant documented at the enum (`end is always at most the length of the
    /// sequence, start is always lower than end; end = None indicates an infinite sequence`)
    pub open spec fn rep_ok(self) -> bool {
        match self {
            XSequence::Slice(src, s, e) => match e {
                Some(x) => s < x && (src.len@ matches Some(l) ==> x <= l),
                None => src.len@ is None,
            },
            _ => true,
        }
    }
    pub open spec fn seq_len(self) -> Option<usize> {
        match self {
            XSequence::Slice(_, s, e) => match e { Some(x) => Some((x - s) as usize), None => None },
            XSequence::Empty => Some(0usize),
            XSequence::Other(l) => l@,
        }
    }
    #[verifier::external_body]
    pub fn len(&self) -> (r: Option<usize>)
        requires self.rep_ok(),
        ensures r == self.seq_len(),
    { unimplemented!() }
}
/// the end of the requested window after clamping to the length
pub open spec fn eff_end(end: Option<usize>, len: Option<usize>) -> Option<usize> {
    match (end, len) {
        (None, _) => len,
        (Some(e), Some(l)) => if e >= l { Some(l) } else { Some(e) },
        (Some(e), None) => Some(e),
    }
}

// ------------------------------------------------------------------ Chain: cumulative part lengths
/// representation invariant of `XSequence::Chain { parts, midpoint_lengths }` (established by XSequence::chain):
/// midpoint_lengths[k] is the total length of parts[0..=k] -- non-decreasing -- and there is one more part
/// than midpoints
pub open spec fn chain_ok(parts_len: int, mid: Seq<usize>) -> bool {
    parts_len == mid.len() + 1 && forall|i: int, j: int| 0 <= i < j < mid.len() ==> mid[i] <= mid[j]
}
/// R-ppoint target: `s.partition_point(|x| *x <= k)` on a sorted slice is the number of elements <= k
pub trait VxPartitionPoint { fn vx_partition_point_le(&self, k: usize) -> usize; }
impl VxPartitionPoint for Vec<usize> {
    #[verifier::external_body]
    fn vx_partition_point_le(&self, k: usize) -> (r: usize)
        ensures
            (forall|i: int, j: int| 0 <= i < j < self@.len() ==> self@[i] <= self@[j]) ==>
                r <= self@.len() && forall|i: int| 0 <= i < self@.len() ==> ((#[trigger] self@[i]) <= k) == (i < r),
    { unimplemented!() }
}

// ------------------------------------------------------------------ `len` of a chain (item chain_len)
/// Rc<ManagedXValue> of a part of a chain: a sequence with a length (None: endless)
pub struct PartVal { pub l: Ghost<Option<usize>> }
pub struct PartSeq { pub l: Ghost<Option<usize>> }
impl PartSeq {
    #[verifier::external_body]
    pub fn len(&self) -> (r: Option<usize>) ensures r == self.l@ { unimplemented!() }
}
/// the downcast of a part (model macro: C01 -- the parts of a chain are sequences)
#[verifier::external_body]
pub fn vx_part(v: &PartVal) -> (r: PartSeq) ensures r.l@ == v.l@ { unimplemented!() }
macro_rules! to_native { ($x:expr, $t:ty) => { vx_part($x) } }

// @@EXTRACTED@@

} // verus!
fn main() {}
