// V-qsel prelude (C19, "the order-statistic functions ..."): `partition`, the nested function of
// XSequence::quickselect (src/builtin/sequence.rs), real text (R-self: `Rc<ManagedXValue<W, R, T>>` -> `Val`).
//
// Contract, for EVERY comparator (any function `sgn` into {-1, 0, 1}; no order axioms are assumed, since the
// comparator is user code): no index leaves the slice, the slice stays a permutation of itself (also when
// the comparator fails midway: no element lost or duplicated), nothing outside [left, right] moves, and on
// success the returned position p lies in [left, right], every element before it (from `left`) compares -1
// against the element at p and no element after it (up to `right`) does.
#![allow(unused_imports, dead_code, unused_variables, unused_mut)]
use vstd::prelude::*;
use std::cmp::Ordering;

verus! {

pub struct Val { pub id: Ghost<int> }            // Rc<ManagedXValue>
impl Clone for Val { #[verifier::external_body] fn clone(&self) -> (r: Val) ensures r == *self { unimplemented!() } }
pub struct ErrV { pub id: Ghost<int> }
pub struct RuntimeViolation { pub id: Ghost<int> }
pub type RuntimeResult<X> = Result<X, RuntimeViolation>;
pub type XResult<X> = RuntimeResult<Result<X, ErrV>>;

/// what the comparator answers for (a, b) when it answers
pub uninterp spec fn sgn(a: Val, b: Val) -> int;
/// the pairs for which the user's comparator answers an error value
pub uninterp spec fn fails(a: Val, b: Val) -> bool;
/// the closure `cmp` of quickselect: total; its answers are `sgn` (the sign of the user's `cmp`), or an error
/// value exactly for the pairs in `fails`
pub open spec fn cmp_is_sgn<F: Fn(Val, Val) -> XResult<i8>>(cmp: &F) -> bool {
    &&& forall|a: Val, b: Val| #[trigger] cmp.requires((a, b))
    &&& forall|a: Val, b: Val, r: XResult<i8>| #[trigger] cmp.ensures((a, b), r) ==> (r matches Ok(x) ==> (
            if fails(a, b) { x is Err } else { x matches Ok(c) && c as int == sgn(a, b) && -1 <= c <= 1 }))
}
pub assume_specification<T> [<[T]>::swap] (s: &mut [T], a: usize, b: usize)
    requires a < old(s)@.len(), b < old(s)@.len(),
    ensures final(s)@ == old(s)@.update(a as int, old(s)@[b as int]).update(b as int, old(s)@[a as int]);

/// s and t hold the same elements (a permutation), and agree outside [lo, hi]
pub open spec fn perm_within(s: Seq<Val>, t: Seq<Val>, lo: int, hi: int) -> bool {
    &&& s.len() == t.len()
    &&& s.to_multiset() == t.to_multiset()
    &&& forall|i: int| 0 <= i < s.len() && !(lo <= i <= hi) ==> #[trigger] s[i] == t[i]
}
pub proof fn lemma_swap_perm(s: Seq<Val>, a: int, b: int)
    requires 0 <= a < s.len(), 0 <= b < s.len(),
    ensures s.update(a, s[b]).update(b, s[a]).to_multiset() == s.to_multiset(),
{
    broadcast use vstd::seq_lib::group_seq_properties;
    let t = s.update(a, s[b]).update(b, s[a]);
    if a == b {
        assert(t =~= s);
    } else {
        s.to_multiset_ensures();
        vstd::seq_lib::to_multiset_update(s, a, s[b]);
        vstd::seq_lib::to_multiset_update(s.update(a, s[b]), b, s[a]);
        assert(t.to_multiset() =~= s.to_multiset());
    }
}

// @@INCLUDE stdx@@

// @@EXTRACTED@@

} // verus!
fn main() {}
