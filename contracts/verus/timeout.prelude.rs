// V-timeout prelude (C08 "timeout check on every user call", C10 "once the configured time limit has
// elapsed, no further user-function call begins"): Runtime::check_timeout (src/runtime.rs), real body.
// Contract: with a deadline configured the result is the Timeout violation exactly when the deadline is not
// after the clock reading taken by this call; without a deadline it is Ok.  (V-tail proves that the
// trampoline makes this check, and counts the call, before any frame of a user function is built.)
//
// std::time::Instant is modelled by a point on the integer line, `Instant::now()` by a ghost-logged reading
// (R-state appends the ghost log `st`); RefCell::borrow of the stats by the struct `StatsRef`.
#![allow(unused_imports, dead_code, unused_variables)]
use vstd::prelude::*;
use vstd::std_specs::cmp::*;
use core::cmp::Ordering;
use std::rc::Rc;

verus! {

#[verifier::external_type_specification]
#[verifier::external_body]
pub struct ExIoError(std::io::Error);

#[derive(Clone, Copy)]
pub struct Instant { pub t: Ghost<int> }
/// the clock readings taken (last one)
pub struct Clock { pub last: Option<int> }
impl Instant {
    #[verifier::external_body]
    pub fn now(st: &mut Ghost<Clock>) -> (r: Instant) ensures final(st)@.last == Some(r.t@) { unimplemented!() }
}
impl PartialEq for Instant { #[verifier::external_body] fn eq(&self, o: &Self) -> bool { unimplemented!() } }
impl PartialEqSpecImpl for Instant {
    open spec fn obeys_eq_spec() -> bool { true }
    open spec fn eq_spec(&self, o: &Self) -> bool { self.t@ == o.t@ }
}
impl PartialOrd for Instant { #[verifier::external_body] fn partial_cmp(&self, o: &Self) -> Option<Ordering> { unimplemented!() } }
impl PartialOrdSpecImpl for Instant {
    open spec fn obeys_partial_cmp_spec() -> bool { true }
    open spec fn partial_cmp_spec(&self, o: &Self) -> Option<Ordering> {
        Some(if self.t@ < o.t@ { Ordering::Less } else if self.t@ == o.t@ { Ordering::Equal } else { Ordering::Greater })
    }
}

pub type RuntimeResult<T> = Result<T, RuntimeViolation>;
/// what `self.stats.borrow()` gives access to
/// (the fields of RuntimeStats a body of check_timeout could consult)
pub struct StatsRef { pub timeout: Option<Instant>, pub ud_calls: usize, pub size: usize }
pub struct StatsCell { pub s: StatsRef }
impl StatsCell {
    pub fn borrow(&self) -> (r: &StatsRef) ensures *r == self.s { &self.s }
}
pub struct Runtime { pub stats: StatsCell }

// @@INCLUDE stdx@@

// @@EXTRACTED@@

} // verus!
fn main() {}
