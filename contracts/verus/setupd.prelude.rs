// V-setupd prelude (C17, "insertion"): `XSet::with_update` (src/builtin/set.rs), real text of the whole body;
// the struct, `KeyLocation`, the bucket alias and `XSet::new` are the real definitions (R-self:
// `Rc<ManagedXValue>` -> `Val`, `RTCell` -> `Rt`); real `xraise!` / `manage_native!`; `for` by
// R-for.  `locate` is used through the contract V-slocate proves of the real method.
//
// The table is a model `HashMap` (same name; a finite map from hash to bucket) with `get_mut`, `insert`, `clone`
// by their documented meaning; buckets are std `Vec`s.
//
// Contract (for a run that ends with a value): the result is a NEW set (the receiver is `&self`) that satisfies
// the representation invariant (`len` is the number of stored elements, every stored element lies in the bucket
// of its own hash) and
//   * retention: every bucket of the receiver is a prefix of the bucket of the same hash in the result;
//   * every item is present afterwards: the bucket of its hash holds the item itself or an element that eq
//     answered true for;
//   * nothing else: every stored element beyond the receiver's is one of the items, and it was added only
//     because eq answered false for every element stored before it in its bucket (no duplicates);
// an item that is an error value ends the update with that error value, a violation with a violation; so do
// the error value of the hash function / an out-of-range hash / the error value of a comparison (locate).
//
// Assumed: the evaluator as a deterministic function `apply`; hash answers an Int, eq a Bool (type facts, C01);
// the item stream is finite; `total` (the sum of the bucket lengths of a finite map) by two axioms.
#![allow(unused_imports, dead_code, unused_variables, unused_mut, unreachable_code)]
use vstd::prelude::*;

verus! {

// @@INCLUDE lazyint@@
pub struct Func { pub id: Ghost<int> }
pub enum XValue { Int(LazyBigint), Bool(bool), Function(Func), Native(Box<XSet>) }
pub mod xvalue { pub use super::XValue; }
pub mod xexpr { pub use super::TailedEvalResult; }
/// Rc<ManagedXValue>
pub struct Val { pub value: XValue }
impl Clone for Val { #[verifier::external_body] fn clone(&self) -> (r: Self) ensures r == *self { unimplemented!() } }
pub struct ErrV { pub id: Ghost<int> }
pub struct RuntimeViolation { pub id: Ghost<int> }
pub type RuntimeResult<X> = Result<X, RuntimeViolation>;
pub type EvaluatedValue = Result<Val, ErrV>;
pub type XResult<X> = RuntimeResult<Result<X, ErrV>>;
pub enum TailedEvalResult { Value(EvaluatedValue), TailCall(Vec<EvaluatedValue>) }
impl ErrV { #[verifier::external_body] pub fn into(self) -> (r: ErrV) ensures r == self { unimplemented!() } }
impl Val {
    #[verifier::external_body]
    pub fn into(self) -> (r: TailedEvalResult) ensures r == TailedEvalResult::Value(Ok(self)) { unimplemented!() }
}
pub struct Rt;
impl Rt { #[verifier::external_body] pub fn clone(&self) -> (r: Rt) { unimplemented!() } }
pub struct Ns;
pub struct ManagedXValue;
impl ManagedXValue {
    #[verifier::external_body]
    pub fn new(value: XValue, rt: Rt) -> (r: RuntimeResult<Val>)
        ensures r matches Ok(m) ==> m.value == value,
    { unimplemented!() }
}
pub uninterp spec fn apply(f: Func, args: Seq<EvaluatedValue>) -> EvaluatedValue;

// ------------------------------------------------------------------ std::collections::HashMap (model)
pub struct HashMap<K, V> { pub m: Ghost<Map<K, V>> }
impl<K, V> HashMap<K, V> {
    pub open spec fn view(&self) -> Map<K, V> { self.m@ }
    #[verifier::external_body]
    pub fn get_mut(&mut self, k: &K) -> (r: Option<&mut V>)
        ensures
            !old(self)@.contains_key(*k) ==> r is None && final(self)@ == old(self)@,
            old(self)@.contains_key(*k) ==> r is Some && *(r->Some_0) == old(self)@[*k] && final(self)@ == old(self)@.insert(*k, *final(r->Some_0)),
    { unimplemented!() }
    /// (the previous value, if any, is answered and dropped by the caller)
    #[verifier::external_body]
    pub fn insert(&mut self, k: K, v: V) -> (r: Option<V>)
        ensures final(self)@ == old(self)@.insert(k, v), r == (if old(self)@.contains_key(k) { Some(old(self)@[k]) } else { None::<V> }),
    { unimplemented!() }
    #[verifier::external_body]
    pub fn clone(&self) -> (r: Self) where V: Clone ensures r@ == self@ { unimplemented!() }
}
/// `vec![x]`
pub fn vx_vec1<X>(x: X) -> (r: Vec<X>) ensures r@ == seq![x] { let mut v = Vec::new(); v.push(x); v }
macro_rules! vec { ($x:expr) => { vx_vec1($x) } }

// ------------------------------------------------------------------ the item stream
pub struct Items { pub r: Ghost<Seq<XResult<Val>>> }
impl Items {
    pub open spec fn rest(&self) -> Seq<XResult<Val>> { self.r@ }
    #[verifier::external_body]
    pub fn next(&mut self) -> (r: Option<XResult<Val>>)
        ensures
            old(self).rest().len() == 0 ==> r is None && final(self).rest() == old(self).rest(),
            old(self).rest().len() > 0 ==> r == Some(old(self).rest()[0]) && final(self).rest() == old(self).rest().skip(1),
    { unimplemented!() }
}

// ------------------------------------------------------------------ specification vocabulary
pub type Table = Map<u64, Vec<Val>>;
pub open spec fn hash_ans(hf: XValue, key: Val) -> EvaluatedValue { apply(hf->Function_0, seq![Ok(key)]) }
pub open spec fn eq_ans(ef: XValue, key: Val, k: Val) -> EvaluatedValue { apply(ef->Function_0, seq![Ok(key), Ok(k)]) }
pub open spec fn is_true(a: EvaluatedValue) -> bool { a matches Ok(v) && v.value == XValue::Bool(true) }
pub open spec fn is_false(a: EvaluatedValue) -> bool { a matches Ok(v) && v.value == XValue::Bool(false) }
/// h is the hash the function value answers for x
pub open spec fn hashes_to(hf: XValue, x: Val, h: u64) -> bool {
    hash_ans(hf, x) matches Ok(hv) && hv.value is Int && hv.value->Int_0.val() == h
}
/// the sum of the bucket lengths of a finite table
pub uninterp spec fn total(m: Table) -> nat;
pub broadcast axiom fn axiom_total_insert(m: Table, h: u64, b: Vec<Val>)
    ensures #[trigger] total(m.insert(h, b)) == total(m) - (if m.contains_key(h) { m[h]@.len() } else { 0 }) + b@.len();
/// representation invariant of a set
spec fn rep_ok(s: XSet) -> bool {
    &&& s.len == total(s.inner@)
    &&& forall|h: u64, i: int| s.inner@.contains_key(h) && 0 <= i < s.inner@[h]@.len() ==> hashes_to(s.hash_func.value, #[trigger] s.inner@[h]@[i], h)
}
/// x is present in the table: the bucket of its hash holds x itself or an element eq answers true for
pub open spec fn present(m: Table, hf: XValue, ef: XValue, x: Val) -> bool {
    exists|h: u64, i: int| hashes_to(hf, x, h) && m.contains_key(h) && 0 <= i < m[h]@.len() && (#[trigger] m[h]@[i] == x || is_true(eq_ans(ef, x, m[h]@[i])))
}
/// every bucket of a is a prefix of the bucket of the same hash in b
pub open spec fn retained(a: Table, b: Table) -> bool {
    forall|h: u64| #[trigger] a.contains_key(h) ==> b.contains_key(h) && a[h]@.len() <= b[h]@.len() && b[h]@.take(a[h]@.len() as int) =~= a[h]@
}
/// every element of b beyond a's is one of the first n items and no element before it in its bucket is equal to it
pub open spec fn only_new(a: Table, b: Table, ef: XValue, items: Seq<XResult<Val>>, n: int) -> bool {
    forall|h: u64, i: int| b.contains_key(h) && (if a.contains_key(h) { a[h]@.len() } else { 0 }) <= i < b[h]@.len() ==> {
        &&& exists|j: int| 0 <= j < n && items[j] == Ok::<Result<Val, ErrV>, RuntimeViolation>(Ok(#[trigger] b[h]@[i]))
        &&& forall|q: int| 0 <= q < i ==> is_false(eq_ans(ef, b[h]@[i], #[trigger] b[h]@[q]))
    }
}
pub open spec fn is_val(x: XResult<Val>) -> bool { x matches Ok(Ok(_)) }
pub open spec fn val_of(x: XResult<Val>) -> Val { x->Ok_0->Ok_0 }
pub open spec fn fn_answers_int(f: XValue) -> bool {
    f is Function && forall|s: Seq<EvaluatedValue>| (#[trigger] apply(f->Function_0, s)) matches Ok(c) ==> c.value is Int
}
pub open spec fn fn_answers_bool(f: XValue) -> bool {
    f is Function && forall|s: Seq<EvaluatedValue>| (#[trigger] apply(f->Function_0, s)) matches Ok(c) ==> c.value is Bool
}
/// eq answers false for each of the first n keys
#[verifier::opaque]
pub open spec fn all_false(ef: XValue, key: Val, ks: Seq<Val>, n: int) -> bool {
    forall|j: int| 0 <= j < n ==> is_false(#[trigger] eq_ans(ef, key, ks[j]))
}
/// the outcome of scanning the keys `ks` of the bucket for hash `h` (V-slocate's contract; its inner quantifier
/// "eq answers false for every earlier key" is named `all_false` here, and kept opaque where it is not needed)
spec fn scan_result(r: XResult<KeyLocation>, ef: XValue, key: Val, ks: Seq<Val>, h: u64) -> bool {
    r matches Ok(x) ==> {
        &&& all_false(ef, key, ks, ks.len() as int) ==> x == Ok::<KeyLocation, ErrV>(KeyLocation::Missing(h))
        &&& forall|k: int| 0 <= k < ks.len() && !is_false(#[trigger] eq_ans(ef, key, ks[k])) && all_false(ef, key, ks, k)
            ==> match eq_ans(ef, key, ks[k]) {
                Err(e) => x == Err::<KeyLocation, ErrV>(e),
                Ok(_) => x == Ok::<KeyLocation, ErrV>(KeyLocation::Found((h, k as usize))),
            }
    }
}
/// V-slocate's postcondition of `XSet::locate`
spec fn locate_post(s: XSet, element: Val, r: XResult<KeyLocation>) -> bool {
    r matches Ok(x) ==> match hash_ans(s.hash_func.value, element) {
        Err(e) => x == Err::<KeyLocation, ErrV>(e),
        Ok(hv) => {
            let hi = hv.value->Int_0.val();
            if !(0 <= hi <= u64::MAX) { x is Err } else {
                let h = hi as u64;
                &&& !s.inner@.contains_key(h) ==> x == Ok::<KeyLocation, ErrV>(KeyLocation::Vacant(h))
                &&& s.inner@.contains_key(h) ==> scan_result(r, s.eq_func.value, element, s.inner@[h]@, h)
            }
        },
    }
}
impl XSet {
    /// `XSet::locate`, by the contract V-slocate proves of the real method
    #[verifier::external_body]
    fn locate(&self, element: &Val, ns: &Ns, rt: Rt) -> (r: XResult<KeyLocation>)
        requires fn_answers_int(self.hash_func.value), fn_answers_bool(self.eq_func.value),
        ensures locate_post(*self, *element, r),
    { unimplemented!() }
}


/// the first n items are values and present in the table
pub open spec fn presents(m: Table, hf: XValue, ef: XValue, items: Seq<XResult<Val>>, n: int) -> bool {
    forall|j: int| 0 <= j < n ==> is_val(items[j]) && present(m, hf, ef, val_of(#[trigger] items[j]))
}
/// what the loop of with_update maintains about the table `m` / counter `len` built from the receiver's table `a`
pub open spec fn inv(a: Table, hf: XValue, ef: XValue, m: Table, len: int, items: Seq<XResult<Val>>, k: int) -> bool {
    &&& len == total(m)
    &&& forall|h: u64, i: int| m.contains_key(h) && 0 <= i < m[h]@.len() ==> hashes_to(hf, #[trigger] m[h]@[i], h)
    &&& retained(a, m)
    &&& presents(m, hf, ef, items, k)
    &&& only_new(a, m, ef, items, k)
}
/// either no key is equal, or there is a first one that is not unequal
pub proof fn lemma_first(ef: XValue, key: Val, ks: Seq<Val>, n: int) -> (k0: int)
    requires 0 <= n <= ks.len(),
    ensures all_false(ef, key, ks, n) ==> k0 == n,
        !all_false(ef, key, ks, n) ==> 0 <= k0 < n && !is_false(eq_ans(ef, key, ks[k0])) && all_false(ef, key, ks, k0),
    decreases n,
{
    reveal(all_false);
    if n == 0 { 0 } else {
        let k1 = lemma_first(ef, key, ks, n - 1);
        if k1 < n - 1 { k1 } else if is_false(eq_ans(ef, key, ks[n - 1])) { n } else { n - 1 }
    }
}
/// what a clean answer of locate says (V-slocate's contract, read backwards)
proof fn lemma_locate(s: XSet, x: Val, loc: KeyLocation)
    requires
        fn_answers_int(s.hash_func.value), fn_answers_bool(s.eq_func.value),
        locate_post(s, x, Ok::<Result<KeyLocation, ErrV>, RuntimeViolation>(Ok(loc))),
    ensures
        match loc {
            KeyLocation::Vacant(h) => hashes_to(s.hash_func.value, x, h) && !s.inner@.contains_key(h),
            KeyLocation::Missing(h) => hashes_to(s.hash_func.value, x, h) && s.inner@.contains_key(h) && all_false(s.eq_func.value, x, s.inner@[h]@, s.inner@[h]@.len() as int),
            KeyLocation::Found((h, i)) => hashes_to(s.hash_func.value, x, h) && s.inner@.contains_key(h) && 0 <= i < s.inner@[h]@.len()
                && is_true(eq_ans(s.eq_func.value, x, s.inner@[h]@[i as int])) && all_false(s.eq_func.value, x, s.inner@[h]@, i as int),
        },
{
    let r = Ok::<Result<KeyLocation, ErrV>, RuntimeViolation>(Ok(loc));
    assert(r->Ok_0 == Ok::<KeyLocation, ErrV>(loc));
    assert(hash_ans(s.hash_func.value, x) is Ok);
    let hv = hash_ans(s.hash_func.value, x)->Ok_0;
    assert(hv.value is Int);
    assert(0 <= hv.value->Int_0.val() <= u64::MAX);
    let h = hv.value->Int_0.val() as u64;
    if s.inner@.contains_key(h) {
        let ef = s.eq_func.value;
        let ks = s.inner@[h]@;
        assert(s.inner@[h].len() == ks.len());
        assert(scan_result(r, ef, x, ks, h));
        let k0 = lemma_first(ef, x, ks, ks.len() as int);
        lemma_scan(r, ef, x, ks, h, loc, k0);
        assert(s.inner@[h].len() == ks.len());
    }
}
/// scan_result read backwards
proof fn lemma_scan(r: XResult<KeyLocation>, ef: XValue, x: Val, ks: Seq<Val>, h: u64, loc: KeyLocation, k0: int)
    requires
        fn_answers_bool(ef), r == Ok::<Result<KeyLocation, ErrV>, RuntimeViolation>(Ok(loc)), scan_result(r, ef, x, ks, h), ks.len() <= usize::MAX,
        all_false(ef, x, ks, ks.len() as int) ==> k0 == ks.len(),
        !all_false(ef, x, ks, ks.len() as int) ==> 0 <= k0 < ks.len() && !is_false(eq_ans(ef, x, ks[k0])) && all_false(ef, x, ks, k0),
    ensures
        k0 == ks.len() ==> loc == KeyLocation::Missing(h) && all_false(ef, x, ks, ks.len() as int),
        k0 < ks.len() ==> loc == KeyLocation::Found((h, k0 as usize)) && is_true(eq_ans(ef, x, ks[k0])) && all_false(ef, x, ks, k0),
{
    if k0 < ks.len() {
        let a = eq_ans(ef, x, ks[k0]);
        assert(a is Ok ==> a->Ok_0.value is Bool);
    }
}
/// the item was found: nothing changes
proof fn lemma_found(a: Table, hf: XValue, ef: XValue, m: Table, len: int, items: Seq<XResult<Val>>, k: int, x: Val, h: u64, i: int)
    requires inv(a, hf, ef, m, len, items, k), 0 <= k < items.len(), items[k] == Ok::<Result<Val, ErrV>, RuntimeViolation>(Ok(x)),
        hashes_to(hf, x, h), m.contains_key(h), 0 <= i < m[h]@.len(), is_true(eq_ans(ef, x, m[h]@[i])),
    ensures inv(a, hf, ef, m, len, items, k + 1),
{
    assert(present(m, hf, ef, x)) by { assert(m[h]@[i] == m[h]@[i]); }
    assert(only_new(a, m, ef, items, k + 1)) by {
        assert forall|h2: u64, i2: int| m.contains_key(h2) && (if a.contains_key(h2) { a[h2]@.len() } else { 0 }) <= i2 < m[h2]@.len() implies {
            &&& exists|j: int| 0 <= j < k + 1 && items[j] == Ok::<Result<Val, ErrV>, RuntimeViolation>(Ok(#[trigger] m[h2]@[i2]))
            &&& forall|q: int| 0 <= q < i2 ==> is_false(eq_ans(ef, m[h2]@[i2], #[trigger] m[h2]@[q]))
        } by {
            let j = choose|j: int| 0 <= j < k && items[j] == Ok::<Result<Val, ErrV>, RuntimeViolation>(Ok(m[h2]@[i2]));
            assert(0 <= j < k + 1);
        }
    }
}
/// the item was appended to the bucket of its hash (`fresh`: that bucket did not exist)
proof fn lemma_added(a: Table, hf: XValue, ef: XValue, m: Table, len: int, items: Seq<XResult<Val>>, k: int, x: Val, h: u64, b2: Vec<Val>, m2: Table)
    requires inv(a, hf, ef, m, len, items, k), 0 <= k < items.len(), items[k] == Ok::<Result<Val, ErrV>, RuntimeViolation>(Ok(x)),
        hashes_to(hf, x, h), m2 == m.insert(h, b2),
        m.contains_key(h) ==> b2@ == m[h]@.push(x) && all_false(ef, x, m[h]@, m[h]@.len() as int),
        !m.contains_key(h) ==> b2@ == seq![x],
    ensures inv(a, hf, ef, m2, len + 1, items, k + 1),
{
    broadcast use axiom_total_insert;
    reveal(all_false);
    let old_len: int = if m.contains_key(h) { m[h]@.len() as int } else { 0 };
    assert(b2@.len() == old_len + 1);
    assert(b2@[old_len] == x);
    assert(forall|i: int| 0 <= i < old_len ==> b2@[i] == m[h]@[i]);
    // retained
    assert(retained(a, m2)) by {
        assert forall|h2: u64| #[trigger] a.contains_key(h2) implies m2.contains_key(h2) && a[h2]@.len() <= m2[h2]@.len() && m2[h2]@.take(a[h2]@.len() as int) =~= a[h2]@ by {
            assert(m.contains_key(h2));
            if h2 == h { assert(m[h]@.take(a[h]@.len() as int) =~= a[h]@); }
        }
    }
    // present: earlier items keep their witness, the new one is at the end of its bucket
    assert(presents(m2, hf, ef, items, k + 1)) by {
        assert forall|j: int| 0 <= j < k + 1 implies is_val(items[j]) && present(m2, hf, ef, val_of(#[trigger] items[j])) by {
            if j < k {
                let y = val_of(items[j]);
                assert(present(m, hf, ef, y));
                let (h1, i1) = choose|h1: u64, i1: int| hashes_to(hf, y, h1) && m.contains_key(h1) && 0 <= i1 < m[h1]@.len() && (#[trigger] m[h1]@[i1] == y || is_true(eq_ans(ef, y, m[h1]@[i1])));
                assert(m2.contains_key(h1) && m2[h1]@[i1] == m[h1]@[i1]);
                assert(m2[h1]@[i1] == y || is_true(eq_ans(ef, y, m2[h1]@[i1])));
            } else {
                assert(m2[h]@[old_len] == x);
            }
        }
    }
    assert(only_new(a, m2, ef, items, k + 1)) by {
        assert forall|h2: u64, i2: int| m2.contains_key(h2) && (if a.contains_key(h2) { a[h2]@.len() } else { 0 }) <= i2 < m2[h2]@.len() implies {
            &&& exists|j: int| 0 <= j < k + 1 && items[j] == Ok::<Result<Val, ErrV>, RuntimeViolation>(Ok(#[trigger] m2[h2]@[i2]))
            &&& forall|q: int| 0 <= q < i2 ==> is_false(eq_ans(ef, m2[h2]@[i2], #[trigger] m2[h2]@[q]))
        } by {
            if h2 == h && i2 == old_len {
                assert(items[k] == Ok::<Result<Val, ErrV>, RuntimeViolation>(Ok(m2[h2]@[i2])));
                assert forall|q: int| 0 <= q < i2 implies is_false(eq_ans(ef, m2[h2]@[i2], #[trigger] m2[h2]@[q])) by {
                    assert(m2[h2]@[q] == m[h]@[q]);
                }
            } else {
                assert(m.contains_key(h2));
                assert(m2[h2]@[i2] == m[h2]@[i2]);
                if a.contains_key(h2) { assert(m.contains_key(h2)); }
                let j = choose|j: int| 0 <= j < k && items[j] == Ok::<Result<Val, ErrV>, RuntimeViolation>(Ok(m[h2]@[i2]));
                assert(0 <= j < k + 1);
                assert forall|q: int| 0 <= q < i2 implies is_false(eq_ans(ef, m2[h2]@[i2], #[trigger] m2[h2]@[q])) by {
                    assert(m2[h2]@[q] == m[h2]@[q]);
                }
            }
        }
    }
}

// @@INCLUDE stdx@@

// @@EXTRACTED@@

} // verus!
fn main() {}
