// V-managed prelude (C09, "allocate on construction" / "deallocate on drop with the size recorded at
// construction"): ManagedXValue::{new, from_result, drop} and ManagedXError::{new, drop} (src/xvalue.rs),
// real text; the structs are the real definitions (R-self: `RTCell<W, R, T>` -> `Rt<W, R, T>`).
//
// Contract, over a ghost ledger of the accounted total (R-state appends it to `allocate` / `deallocate`):
// a successful construction records in `size` exactly the amount `Runtime::allocate` added for it and
// stores the value given; a failed one adds nothing; `drop` returns exactly the recorded amount -- so
// constructing a value and dropping it restores the total (lemma `new_then_drop_balances`).
// `Runtime::{allocate, deallocate}` by the contracts the Kani unit K-rt proves (one step on the total).
#![allow(unused_imports, dead_code, unused_variables)]
use vstd::prelude::*;
use std::rc::Rc;

verus! {

pub struct RuntimeViolation { pub id: Ghost<int> }
pub type RuntimeResult<X> = Result<X, RuntimeViolation>;
/// units.rs: `struct AllocatedMemory(usize)`
#[derive(Clone, Copy)]
pub struct AllocatedMemory(pub usize);
/// the accounted total (`stats.size`) as a ghost ledger
pub struct Ledger { pub total: int }
pub struct P<W, R, T> { pub w: Ghost<W>, pub r: Ghost<R>, pub t: Ghost<T> }
pub struct XValue<W, R, T> { pub id: Ghost<int>, pub p: P<W, R, T> }
pub struct Rt<W, R, T> { pub p: P<W, R, T> }
impl<W, R, T> Rt<W, R, T> {
    /// K-rt `c09_allocate`: Ok adds exactly the returned size, Err leaves the total unchanged
    #[verifier::external_body]
    pub fn allocate<A>(&self, value: &A, st: &mut Ghost<Ledger>) -> (r: RuntimeResult<AllocatedMemory>)
        ensures
            r matches Ok(s) ==> final(st)@.total == old(st)@.total + s.0,
            r is Err ==> final(st)@.total == old(st)@.total,
    { unimplemented!() }
    /// K-rt `c09_deallocate`: returns exactly `size`
    #[verifier::external_body]
    pub fn deallocate(&self, size: AllocatedMemory, st: &mut Ghost<Ledger>)
        ensures final(st)@.total == old(st)@.total - size.0,
    { unimplemented!() }
}
/// the `E: Into<String>` argument of ManagedXError::new
pub struct StrSrc { pub id: Ghost<int> }
impl StrSrc { #[verifier::external_body] pub fn into(self) -> (r: String) { unimplemented!() } }

// @@INCLUDE stdx@@

// @@EXTRACTED@@

} // verus!
fn main() {}
