// V-fwd prelude (C06, the hand-written forwarding code): the early-return macros `xraise!` and
// `forward_err!`, the search-budget closure of XGenerator::iter and the element closures of the generator
// adaptors Aggregate / Filter / TakeWhile / SkipUntil.  Contract of each: a violation (outer Err) or an
// error value (inner Err) that arrives -- on the incoming item, or from the user callback -- is handed on
// unchanged as the element / result; it is never replaced by a value and never dropped (no `None`).
//
// The user callback is abstracted as a deterministic function `cb` of its argument list.
#![allow(unused_imports, dead_code, unused_variables, unused_mut)]
use vstd::prelude::*;

verus! {

pub struct Val { pub id: Ghost<int> }           // Rc<ManagedXValue>
pub struct ErrV { pub id: Ghost<int> }          // Rc<ManagedXError>
pub struct RuntimeViolation { pub id: Ghost<int> }
pub type RuntimeResult<T> = Result<T, RuntimeViolation>;
pub type EvaluatedValue = Result<Val, ErrV>;
pub type XResult<T> = RuntimeResult<Result<T, ErrV>>;
impl Clone for Val { #[verifier::external_body] fn clone(&self) -> (r: Val) ensures r == *self { unimplemented!() } }
impl Clone for ErrV { #[verifier::external_body] fn clone(&self) -> (r: ErrV) ensures r == *self { unimplemented!() } }

/// `$crate::xexpr::TailedEvalResult` as the macro `xraise!` names it
pub mod xexpr { pub use super::TailedEvalResult; }
pub enum TailedEvalResult { Value(EvaluatedValue), TailCall(Vec<EvaluatedValue>) }
impl TailedEvalResult {
    /// panics on a tail call; the callers below evaluate in non-tail mode
    #[verifier::external_body]
    pub fn unwrap_value(self) -> (r: EvaluatedValue)
        requires self is Value,
        ensures r == self->Value_0,
    { unimplemented!() }
}
// `__e.into()` inside xraise!: Rc<ManagedXError> into itself
impl ErrV { #[verifier::external_body] pub fn into(self) -> (r: ErrV) ensures r == self { unimplemented!() } }

pub struct Func;
pub struct Rt;
impl Rt { #[verifier::external_body] pub fn clone(&self) -> (r: Rt) { unimplemented!() } }
/// ghost record of what the user callback answered (R-state appends `st` to the call)
pub struct CbLog { pub last: Option<RuntimeResult<TailedEvalResult>> }
pub struct Ns;
impl Ns {
    #[verifier::external_body]
    pub fn eval_func_with_values(&self, func: &Func, args: Vec<EvaluatedValue>, rt: Rt, tail_available: bool, st: &mut Ghost<CbLog>) -> (r: RuntimeResult<TailedEvalResult>)
        ensures
            final(st)@.last == Some(r),
            !tail_available ==> (r matches Ok(t) ==> t is Value),
    { unimplemented!() }
}
/// the part of an adaptor's closure after the forwarding prefix (uses the values; not under contract)
#[verifier::external_body]
pub fn vx_rest<T>() -> (r: T) { unimplemented!() }

// @@EXTRACTED@@

// ------------------------------------------------------------------ the early-return macros in use
/// xraise!(e): an error value received is returned as the native's result (as an error *value*)
fn uses_xraise(e: EvaluatedValue) -> (r: RuntimeResult<TailedEvalResult>)
    ensures e matches Err(x) ==> r == Ok::<TailedEvalResult, RuntimeViolation>(TailedEvalResult::Value(Err(x))),
{
    let v = xraise!(e);
    vx_rest()
}
/// forward_err!(e): an error value received is returned as the error value of the enclosing XResult
fn uses_forward_err(e: EvaluatedValue) -> (r: XResult<Val>)
    ensures e matches Err(x) ==> r == Ok::<Result<Val, ErrV>, RuntimeViolation>(Err(x)),
{
    let v = forward_err!(e);
    vx_rest()
}

} // verus!
fn main() {}
