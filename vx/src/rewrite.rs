//! The expression-level rewrite rules R-match, R-op, R-deref, R-drop (DESIGN.md 2.1).
//! Every decision is syntactic; a wrong classification yields a Verus *type* error (exit 2).

use crate::render::{Edits, Piece};
use crate::{norm, SourceFile};
use serde_json::Value;
use std::collections::HashMap;
use syn::spanned::Spanned;
use syn::visit::{self, Visit};
use syn::*;

#[derive(Clone, Default, Debug)]
pub struct Config {
    pub nonprim_ctors: Vec<String>,
    pub prim_ctors: Vec<String>,
    pub nonprim_calls: Vec<String>,
    pub prim_types: Vec<String>,
    pub drop_macros: Vec<String>,
    pub drop_attrs: Vec<String>,
    pub rmatch: bool,
    pub rop: bool,
    pub rderef: bool,
    /// R-state: calls of these methods / paths get `state_arg` appended as last argument
    /// R-match on `o.map(|p| body)` (opt-in: only where the receiver is an Option)
    pub rmatch_map: bool,
    /// R-match (opt-in): `e.map(Ok)` on a Result
    pub rmatch_map_ok: bool,
    /// R-match (opt-in): `e.map(|p| body)` where the receiver is a RESULT -> `match e { Ok(p) => Ok(body), Err(x) => Err(x) }`
    pub rmatch_map_result: bool,
    /// R-capture: variables captured (and mutated) by the extracted closure, passed as `&mut` parameters
    pub capture_mut: Vec<String>,
    /// R-match (with rmatch_map_ok): `e.map(PATH)` on a Result for these function paths
    pub rmatch_map_result_paths: Vec<String>,
    /// R-dropstmt: statements (by normalized text prefix) removed from a fragment; each removal is recorded
    pub drop_stmts: Vec<String>,
    /// R-for: `for P in E { B }` -> `{ let mut it = E; let ghost it0 = it; loop { match it.next() { Some(P) => { B } None => { break; } } } }`
    pub rfor: bool,
    /// R-closurepost: a parameterless closure whose body is (normalized) one of these constructor
    /// expressions `E` becomes `|| -> (o: TYPE) ensures o == E { E }` (Verus attaches no postcondition to an
    /// unannotated closure; the postcondition added is the closure's own body)
    pub closure_post: Vec<(String, String)>,
    /// R-closurepost, closures with parameters: normalized closure source (`|len|len+len0`) -> typed header
    /// (`|len: &usize| -> (o: usize)`); the rule emits `HEADER ensures o == BODY { BODY }`
    pub closure_sig: Vec<(String, String)>,
    pub closure_sig_visit: bool,
    /// R-mirror: every assignment `X = E` to one of these variables is followed by a ghost copy of the new
    /// value into the named ghost out-parameter: `{ X = E; proof { *G.borrow_mut() = X; } }`
    pub mirror: Vec<(String, String)>,
    /// R-alloc: `Vec::with_capacity(E)` -> `vx_with_capacity(E)`, `VecDeque::with_capacity(E)` -> `vx_deque_with_capacity(E)` (prelude: `requires` the request to be covered
    /// by the caller's pre-flight allocation check): the capacity request becomes a proof obligation
    pub ralloc: bool,
    /// R-rangeiter: a parenthesised integer range used as an iterator, `(A..B).m(..)` -> `vx_range(A, B).m(..)` (prelude: the model
    /// iterator over A, A+1, .., B-1; std's adaptor methods on `Range` cannot be given a contract in place)
    pub rrangeiter: bool,
    /// R-entry: `M.entry(K).or_insert(V)` -> `M.vx_entry_or_insert(K, V)` (prelude: std's documented meaning -- the value stored
    /// for K, V being inserted first when K is absent; the intermediate `Entry` holds a `&mut` to the map inside a struct)
    pub rentry: bool,
    /// R-opaquearg: a closure literal passed to one of these functions is replaced by `vx_opaque_closure()` (its body is under
    /// contract in a sibling item; here only the shape of the surrounding code is checked)
    pub opaque_closure_args: Vec<String>,
    pub state_methods: Vec<String>,
    pub state_calls: Vec<String>,
    pub state_arg: String,
}

fn strs(v: &Value) -> Vec<String> {
    v.as_array()
        .map(|a| {
            a.iter()
                .filter_map(|x| x.as_str().map(|s| s.to_string()))
                .collect()
        })
        .unwrap_or_default()
}

impl Config {
    pub fn from_json(v: &Value) -> Self {
        let mut c = Config {
            nonprim_ctors: strs(&v["nonprim_ctors"]),
            prim_ctors: strs(&v["prim_ctors"]),
            nonprim_calls: strs(&v["nonprim_calls"]).iter().map(|s| norm(s)).collect(),
            prim_types: strs(&v["prim_types"]),
            drop_macros: strs(&v["drop_macros"]),
            drop_attrs: strs(&v["drop_attrs"]),
            rmatch: v["rmatch"].as_bool().unwrap_or(true),
            rop: v["rop"].as_bool().unwrap_or(true),
            rderef: v["rderef"].as_bool().unwrap_or(true),
            rmatch_map: v["rmatch_map"].as_bool().unwrap_or(false),
            rmatch_map_ok: v["rmatch_map_ok"].as_bool().unwrap_or(false),
            rmatch_map_result: v["rmatch_map_result"].as_bool().unwrap_or(false),
            closure_sig_visit: v["closure_sig_visit"].as_bool().unwrap_or(false),
            capture_mut: strs(&v["capture_mut"]),
            rmatch_map_result_paths: strs(&v["rmatch_map_result_paths"]).iter().map(|s| norm(s)).collect(),
            drop_stmts: strs(&v["drop_stmts"]).iter().map(|s| norm(s)).collect(),
            rfor: v["rfor"].as_bool().unwrap_or(false),
            ralloc: v["ralloc"].as_bool().unwrap_or(false),
            rrangeiter: v["rrangeiter"].as_bool().unwrap_or(false),
            rentry: v["rentry"].as_bool().unwrap_or(false),
            opaque_closure_args: strs(&v["opaque_closure_args"]),
            mirror: v["mirror"]
                .as_object()
                .map(|m| m.iter().map(|(k, t)| (k.clone(), t.as_str().unwrap_or("").to_string())).collect())
                .unwrap_or_default(),
            closure_sig: v["closure_sig"]
                .as_object()
                .map(|m| m.iter().map(|(k, t)| (norm(k), t.as_str().unwrap_or("").to_string())).collect())
                .unwrap_or_default(),
            closure_post: v["closure_post"]
                .as_object()
                .map(|m| m.iter().map(|(k, t)| (norm(k), t.as_str().unwrap_or("").to_string())).collect())
                .unwrap_or_default(),
            state_methods: strs(&v["state_methods"]),
            state_calls: strs(&v["state_calls"]).iter().map(|s| norm(s)).collect(),
            state_arg: v["state_arg"].as_str().unwrap_or("").to_string(),
        };
        if c.prim_types.is_empty() {
            c.prim_types = [
                "i8", "i16", "i32", "i64", "i128", "isize", "u8", "u16", "u32", "u64", "u128",
                "usize", "bool", "char", "f64", "f32",
            ]
            .iter()
            .map(|s| s.to_string())
            .collect();
        }
        if c.drop_attrs.is_empty() {
            c.drop_attrs = ["derive", "inline", "allow", "cfg", "must_use", "warn", "derivative", "macro_export"]
                .iter()
                .map(|s| s.to_string())
                .collect();
        }
        if c.drop_macros.is_empty() {
            c.drop_macros = vec!["debug_assert".to_string()];
        }
        c
    }
}

#[derive(Clone, Copy, Debug, Default)]
pub struct Kind {
    pub prim: bool,
    pub is_ref: bool,
}

pub struct Applied {
    pub rule: &'static str,
    pub line: usize,
    pub from: String,
}

pub struct Rewriter<'a> {
    pub sf: &'a SourceFile,
    pub cfg: &'a Config,
    pub edits: Edits,
    pub applied: Vec<Applied>,
    pub unsupported: Vec<String>,
    scopes: Vec<HashMap<String, Kind>>,
    self_ref: bool,
    impl_self_ref: bool,
    /// R-break: source range of a `loop` in tail position of the extracted body
    pub tail_loop: Option<(usize, usize)>,
    loop_depth_in_tail: Option<usize>,
    /// kinds the unit file forces for a name wherever it is (re)bound
    pub forced: HashMap<String, Kind>,
    /// R-hoist: nesting depth of macro invocations, start offsets of the enclosing statements, fresh-name counter
    macro_depth: usize,
    stmt_starts: Vec<usize>,
    hoist_n: usize,
}

fn binop_trait(op: &BinOp) -> Option<(&'static str, &'static str, bool)> {
    Some(match op {
        BinOp::Add(_) => ("Add", "add", false),
        BinOp::Sub(_) => ("Sub", "sub", false),
        BinOp::Mul(_) => ("Mul", "mul", false),
        BinOp::Div(_) => ("Div", "div", false),
        BinOp::Rem(_) => ("Rem", "rem", false),
        BinOp::BitAnd(_) => ("BitAnd", "bitand", false),
        BinOp::BitOr(_) => ("BitOr", "bitor", false),
        BinOp::BitXor(_) => ("BitXor", "bitxor", false),
        BinOp::Shl(_) => ("Shl", "shl", false),
        BinOp::Shr(_) => ("Shr", "shr", false),
        BinOp::AddAssign(_) => ("AddAssign", "add_assign", true),
        BinOp::SubAssign(_) => ("SubAssign", "sub_assign", true),
        BinOp::MulAssign(_) => ("MulAssign", "mul_assign", true),
        BinOp::DivAssign(_) => ("DivAssign", "div_assign", true),
        BinOp::RemAssign(_) => ("RemAssign", "rem_assign", true),
        _ => return None,
    })
}

fn is_arith_or_cmp(op: &BinOp) -> bool {
    !matches!(op, BinOp::And(_) | BinOp::Or(_))
}

fn has_continue(b: &Block) -> bool {
    struct F(bool);
    impl<'ast> Visit<'ast> for F {
        fn visit_expr_continue(&mut self, _: &'ast ExprContinue) {
            self.0 = true;
        }
        fn visit_expr_closure(&mut self, _: &'ast ExprClosure) {}
        // a `continue` of a nested loop belongs to that loop
        fn visit_expr_for_loop(&mut self, _: &'ast ExprForLoop) {}
        fn visit_expr_while(&mut self, _: &'ast ExprWhile) {}
        fn visit_expr_loop(&mut self, _: &'ast ExprLoop) {}
    }
    let mut f = F(false);
    f.visit_block(b);
    f.0
}

fn has_escape(e: &Expr) -> bool {
    struct F(bool);
    impl<'ast> Visit<'ast> for F {
        fn visit_expr_return(&mut self, _: &'ast ExprReturn) {
            self.0 = true;
        }
        fn visit_expr_try(&mut self, _: &'ast ExprTry) {
            self.0 = true;
        }
        fn visit_expr_closure(&mut self, _: &'ast ExprClosure) {}
    }
    let mut f = F(false);
    f.visit_expr(e);
    f.0
}

impl<'a> Rewriter<'a> {
    pub fn new(sf: &'a SourceFile, cfg: &'a Config) -> Self {
        Self {
            sf,
            cfg,
            edits: Edits::default(),
            applied: vec![],
            unsupported: vec![],
            macro_depth: 0,
            stmt_starts: vec![],
            hoist_n: 0,
            scopes: vec![HashMap::new()],
            self_ref: false,
            impl_self_ref: false,
            tail_loop: None,
            loop_depth_in_tail: None,
            forced: HashMap::new(),
        }
    }

    pub fn set_impl_self_ref(&mut self, r: bool) {
        self.impl_self_ref = r;
    }

    pub fn declare(&mut self, name: &str, k: Kind) {
        self.scopes.last_mut().unwrap().insert(name.to_string(), k);
    }

    fn lookup(&self, name: &str) -> Option<Kind> {
        if let Some(k) = self.forced.get(name) {
            return Some(*k);
        }
        for s in self.scopes.iter().rev() {
            if let Some(k) = s.get(name) {
                return Some(*k);
            }
        }
        None
    }

    fn r(&self, sp: proc_macro2::Span) -> (usize, usize) {
        self.sf.range(sp)
    }

    fn note(&mut self, rule: &'static str, sp: proc_macro2::Span) {
        let r = self.r(sp);
        let mut from = self.sf.slice(r).to_string();
        if from.len() > 120 {
            from.truncate(120);
            from.push_str("...");
        }
        self.applied.push(Applied {
            rule,
            line: self.sf.line_of(r.0),
            from,
        });
    }

    pub fn type_kind(&self, t: &Type) -> Kind {
        match t {
            Type::Reference(r) => {
                let mut k = self.type_kind(&r.elem);
                k.is_ref = true;
                k
            }
            Type::Paren(p) => self.type_kind(&p.elem),
            Type::Path(p) => {
                let last = p.path.segments.last().map(|s| s.ident.to_string());
                let prim = last
                    .as_ref()
                    .map(|l| self.cfg.prim_types.contains(l))
                    .unwrap_or(false);
                let is_self = p.path.is_ident("Self");
                Kind {
                    prim,
                    is_ref: is_self && self.impl_self_ref,
                }
            }
            _ => Kind::default(),
        }
    }

    fn ident_of(e: &Expr) -> Option<String> {
        match e {
            Expr::Path(p) if p.qself.is_none() && p.path.segments.len() == 1 => {
                Some(p.path.segments[0].ident.to_string())
            }
            _ => None,
        }
    }

    fn is_nonprim(&self, e: &Expr) -> bool {
        match e {
            Expr::Path(_) => {
                if let Some(id) = Self::ident_of(e) {
                    if id == "self" {
                        return true;
                    }
                    self.lookup(&id).map(|k| !k.prim).unwrap_or(false)
                } else {
                    false
                }
            }
            Expr::Call(c) => {
                let f = norm(&self.sf.slice(self.r(c.func.span())).to_string());
                self.cfg.nonprim_calls.iter().any(|p| f.starts_with(p.as_str()))
            }
            Expr::Unary(u) => self.is_nonprim(&u.expr),
            Expr::Reference(r) => self.is_nonprim(&r.expr),
            Expr::Paren(p) => self.is_nonprim(&p.expr),
            Expr::Group(p) => self.is_nonprim(&p.expr),
            Expr::MethodCall(m) => {
                let name = m.method.to_string();
                if ["clone", "abs", "pow", "neg"].contains(&name.as_str()) {
                    self.is_nonprim(&m.receiver)
                } else {
                    false
                }
            }
            Expr::Binary(b) => {
                binop_trait(&b.op).is_some() && (self.is_nonprim(&b.left) || self.is_nonprim(&b.right))
            }
            Expr::Cast(c) => {
                // `(self as &Self)`
                !self.type_kind(&c.ty).prim
            }
            _ => false,
        }
    }

    /// kind of an expression where it is syntactically evident (casts, literals, known idents)
    fn expr_kind(&self, e: &Expr) -> Option<Kind> {
        match e {
            Expr::Cast(c) => Some(self.type_kind(&c.ty)),
            Expr::Lit(_) => Some(Kind { prim: true, is_ref: false }),
            Expr::Paren(p) => self.expr_kind(&p.expr),
            Expr::Path(_) => Self::ident_of(e).and_then(|id| self.lookup(&id)),
            Expr::Unary(u) if matches!(u.op, UnOp::Deref(_)) => {
                self.expr_kind(&u.expr).map(|k| Kind { prim: k.prim, is_ref: false })
            }
            Expr::Reference(r) => self.expr_kind(&r.expr).map(|k| Kind { prim: k.prim, is_ref: true }),
            _ => None,
        }
    }

    fn expr_is_ref(&self, e: &Expr) -> bool {
        match e {
            Expr::Reference(_) => true,
            Expr::Paren(p) => self.expr_is_ref(&p.expr),
            Expr::Path(_) => match Self::ident_of(e) {
                Some(id) if id == "self" => self.self_ref,
                Some(id) => self.lookup(&id).map(|k| k.is_ref).unwrap_or(false),
                None => false,
            },
            _ => false,
        }
    }

    /// bind the identifiers of a pattern; `scrut_ref[i]` tells whether tuple component i of the
    /// scrutinee is a reference (default binding mode => bindings are references)
    fn bind_pat(&mut self, p: &Pat, by_ref: bool, under: Option<bool>, scrut: Option<&Expr>) {
        match p {
            Pat::Ident(pi) => {
                let mut prim = under.unwrap_or(false);
                let mut by_ref = by_ref;
                if under.is_none() {
                    // a plain binding takes the kind of its initialiser when that is syntactically evident
                    if let Some(e) = scrut {
                        if let Some(k) = self.expr_kind(e) {
                            prim = k.prim;
                            by_ref = k.is_ref;
                        }
                    }
                }
                let k = Kind {
                    prim,
                    is_ref: by_ref || pi.by_ref.is_some(),
                };
                self.declare(&pi.ident.to_string(), k);
                if let Some((_, sub)) = &pi.subpat {
                    self.bind_pat(sub, by_ref, under, None);
                }
            }
            Pat::Tuple(t) => {
                let comps: Option<Vec<&Expr>> = match scrut {
                    Some(Expr::Tuple(te)) if te.elems.len() == t.elems.len() => {
                        Some(te.elems.iter().collect())
                    }
                    _ => None,
                };
                for (i, el) in t.elems.iter().enumerate() {
                    let (r, s) = match &comps {
                        Some(c) => (self.expr_is_ref(c[i]), Some(c[i])),
                        None => (by_ref, None),
                    };
                    self.bind_pat(el, r, under, s);
                }
            }
            Pat::TupleStruct(ts) => {
                let last = ts.path.segments.last().map(|s| s.ident.to_string()).unwrap_or_default();
                let u = if self.cfg.prim_ctors.contains(&last) {
                    Some(true)
                } else if self.cfg.nonprim_ctors.contains(&last) {
                    Some(false)
                } else if last == "Some" || last == "Ok" || last == "Err" {
                    under
                } else {
                    None
                };
                for el in &ts.elems {
                    self.bind_pat(el, by_ref, u, None);
                }
            }
            Pat::Or(o) => {
                for c in &o.cases {
                    self.bind_pat(c, by_ref, under, scrut);
                }
            }
            Pat::Reference(r) => self.bind_pat(&r.pat, false, under, None),
            Pat::Paren(pp) => self.bind_pat(&pp.pat, by_ref, under, scrut),
            Pat::Struct(s) => {
                for f in &s.fields {
                    self.bind_pat(&f.pat, by_ref, None, None);
                }
            }
            Pat::Type(t) => {
                let k = self.type_kind(&t.ty);
                if let Pat::Ident(pi) = &*t.pat {
                    self.declare(&pi.ident.to_string(), k);
                }
            }
            _ => {}
        }
    }

    pub fn bind_fn_inputs(&mut self, sig: &Signature) {
        self.self_ref = false;
        for a in &sig.inputs {
            match a {
                FnArg::Receiver(rc) => {
                    self.self_ref = rc.reference.is_some() || self.impl_self_ref;
                    if rc.reference.is_none() && rc.colon_token.is_some() {
                        self.self_ref = matches!(&*rc.ty, Type::Reference(_)) || self.impl_self_ref;
                    }
                }
                FnArg::Typed(pt) => {
                    let k = self.type_kind(&pt.ty);
                    if let Pat::Ident(pi) = &*pt.pat {
                        self.declare(&pi.ident.to_string(), k);
                    }
                }
            }
        }
    }

    fn deref_if_ref_prim(&mut self, e: &Expr) -> bool {
        if let Some(id) = Self::ident_of(e) {
            if let Some(k) = self.lookup(&id) {
                if k.prim && k.is_ref {
                    let r = self.r(e.span());
                    self.edits
                        .replace(r, vec![Piece::Lit(format!("*{}", id))], "R-deref");
                    self.note("R-deref", e.span());
                    return true;
                }
            }
        }
        false
    }
}

impl<'a, 'ast> Visit<'ast> for Rewriter<'a> {
    fn visit_attribute(&mut self, a: &'ast Attribute) {
        let name = a.path().segments.last().map(|s| s.ident.to_string()).unwrap_or_default();
        if self.cfg.drop_attrs.contains(&name) {
            let r = self.r(a.span());
            self.edits.delete(r, "R-drop:attr");
            self.note("R-drop:attr", a.span());
        }
    }

    fn visit_visibility(&mut self, v: &'ast Visibility) {
        // R-drop:vis -- `pub(crate)` / `pub(super)` become `pub` (the generated file is one crate)
        if let Visibility::Restricted(r) = v {
            let rg = self.r(r.span());
            self.edits.replace(rg, vec![Piece::Lit("pub".into())], "R-drop:vis");
        }
    }

    fn visit_impl_item_fn(&mut self, f: &'ast ImplItemFn) {
        self.visit_visibility(&f.vis);
        self.scopes.push(HashMap::new());
        for a in &f.attrs {
            self.visit_attribute(a);
        }
        self.bind_fn_inputs(&f.sig);
        self.visit_block(&f.block);
        self.scopes.pop();
    }

    fn visit_item_fn(&mut self, f: &'ast ItemFn) {
        self.scopes.push(HashMap::new());
        for a in &f.attrs {
            self.visit_attribute(a);
        }
        let saved = self.self_ref;
        self.bind_fn_inputs(&f.sig);
        self.visit_block(&f.block);
        self.self_ref = saved;
        self.scopes.pop();
    }

    fn visit_block(&mut self, b: &'ast Block) {
        self.scopes.push(HashMap::new());
        visit::visit_block(self, b);
        self.scopes.pop();
    }

    fn visit_stmt(&mut self, st: &'ast Stmt) {
        if !self.cfg.drop_stmts.is_empty() {
            let r = self.r(st.span());
            let t = norm(self.sf.slice(r));
            if self.cfg.drop_stmts.iter().any(|p| t.starts_with(p.as_str())) {
                self.edits.delete(r, "R-dropstmt");
                self.note("R-dropstmt", st.span());
                return;
            }
        }
        let st_start = self.r(st.span()).0;
        self.stmt_starts.push(st_start);
        visit::visit_stmt(self, st);
        self.stmt_starts.pop();
    }

    fn visit_macro(&mut self, m: &'ast Macro) {
        // expression macros (forward_err!, xraise!, vec!...): the rules apply inside their arguments too
        let args = crate::macro_args(m);
        let leaked: &'static [Expr] = Box::leak(args.into_boxed_slice());
        self.macro_depth += 1;
        for e in leaked {
            if !matches!(e, Expr::Verbatim(_)) {
                self.visit_expr(e);
            }
        }
        self.macro_depth -= 1;
    }

    fn visit_stmt_macro(&mut self, m: &'ast StmtMacro) {
        let name = m.mac.path.segments.last().map(|s| s.ident.to_string()).unwrap_or_default();
        if name == "assert" {
            // R-assert: `assert!(c)` / `assert!(c, msg..)` -> `vx_assert(c);` (prelude: `requires c`), i.e. the
            // run-time assertion becomes a proof obligation
            if let Ok(args) = m.mac.parse_body_with(punctuated::Punctuated::<Expr, Token![,]>::parse_terminated) {
                if let Some(c) = args.first() {
                    self.visit_expr(c);
                    let cr = self.r(c.span());
                    let whole = self.r(m.span());
                    self.edits.replace(
                        whole,
                        vec![Piece::Lit("vx_assert(".into()), Piece::Src(cr.0, cr.1), Piece::Lit(");".into())],
                        "R-assert",
                    );
                    self.note("R-assert", m.span());
                    return;
                }
            }
        }
        if self.cfg.drop_macros.contains(&name) {
            let r = self.r(m.span());
            self.edits.delete(r, "R-drop:macro");
            self.note("R-drop:macro", m.span());
            return;
        }
        self.visit_macro(&m.mac);
    }

    fn visit_expr_path(&mut self, p: &'ast ExprPath) {
        // R-capture: every other use of such a variable (read, assignment target) is a use of `*X`
        if let Some(id) = p.path.get_ident() {
            if self.cfg.capture_mut.iter().any(|x| id == x) {
                let r = self.r(p.span());
                self.edits.replace(r, vec![Piece::Lit(format!("(*{})", id))], "R-capture");
                self.note("R-capture", p.span());
                return;
            }
        }
        visit::visit_expr_path(self, p);
    }

    fn visit_expr_reference(&mut self, e: &'ast ExprReference) {
        // R-capture: a variable that a `move` closure captures and mutates is a `&mut` parameter of the wrapped
        // function; `&mut X` on such a variable is `&mut *X`
        if e.mutability.is_some() {
            if let Expr::Path(p) = &*e.expr {
                if let Some(id) = p.path.get_ident() {
                    if self.cfg.capture_mut.iter().any(|x| id == x) {
                        let r = self.r(e.expr.span());
                        self.edits.insert(r.0, "*".to_string(), "R-capture");
                        self.note("R-capture", e.span());
                        return;
                    }
                }
            }
        }
        visit::visit_expr_reference(self, e);
    }

    fn visit_local(&mut self, l: &'ast Local) {
        // R-refpat: `let &x = E;` -> `let x = *(E);` (a reference pattern binding a Copy value)
        if let (Pat::Reference(pr), Some(init)) = (&l.pat, &l.init) {
            if let (Pat::Ident(pi), None) = (&*pr.pat, &pr.mutability) {
                if init.diverge.is_none() && pi.by_ref.is_none() && pi.subpat.is_none() {
                    let patr = self.r(l.pat.span());
                    let er = self.r(init.expr.span());
                    self.edits.replace(patr, vec![Piece::Lit(pi.ident.to_string())], "R-refpat");
                    self.edits.insert(er.0, "*(".to_string(), "R-refpat");
                    self.edits.insert(er.1, ")".to_string(), "R-refpat");
                    self.note("R-refpat", l.span());
                }
            }
        }
        if let Some(init) = &l.init {
            self.visit_expr(&init.expr);
            if let Some((_, d)) = &init.diverge {
                self.visit_expr(d);
            }
            let by_ref = self.expr_is_ref(&init.expr);
            self.bind_pat(&l.pat, by_ref, None, Some(&init.expr));
        } else {
            self.bind_pat(&l.pat, false, None, None);
        }
    }

    fn visit_expr_let(&mut self, l: &'ast ExprLet) {
        self.visit_expr(&l.expr);
        let by_ref = self.expr_is_ref(&l.expr);
        self.bind_pat(&l.pat, by_ref, None, Some(&l.expr));
    }

    fn visit_expr_match(&mut self, m: &'ast ExprMatch) {
        self.visit_expr(&m.expr);
        let by_ref = self.expr_is_ref(&m.expr);
        for arm in &m.arms {
            self.scopes.push(HashMap::new());
            self.bind_pat(&arm.pat, by_ref, None, Some(&m.expr));
            if let Some((_, g)) = &arm.guard {
                self.visit_expr(g);
            }
            self.visit_expr(&arm.body);
            self.scopes.pop();
        }
    }

    fn visit_expr_closure(&mut self, c: &'ast ExprClosure) {
        if c.inputs.is_empty() && matches!(c.output, ReturnType::Default) {
            let br = self.r(c.body.span());
            let body = norm(self.sf.slice(br));
            if let Some((_, ty)) = self.cfg.closure_post.iter().find(|(k, _)| *k == body) {
                self.edits.replace(
                    br,
                    vec![
                        Piece::Lit(format!("-> (o: {}) ensures o == ", ty)),
                        Piece::Src(br.0, br.1),
                        Piece::Lit(" { ".into()),
                        Piece::Src(br.0, br.1),
                        Piece::Lit(" }".into()),
                    ],
                    "R-closurepost",
                );
                self.note("R-closurepost", c.span());
                return;
            }
        }
        if matches!(c.output, ReturnType::Default) {
            let whole = self.r(c.span());
            let src = norm(self.sf.slice(whole));
            if let Some((_, hdr0)) = self.cfg.closure_sig.iter().find(|(k, _)| *k == src) {
                let br = self.r(c.body.span());
                // R-closurepat: `HEADER @@ let PATTERN = NAME;` -- a pattern parameter (outside Verus' dialect) becomes the named
                // parameter of HEADER, destructured by a `let` with the SAME pattern at the start of the body
                let (hdr, pre) = match hdr0.split_once("@@") {
                    Some((h, p)) => (h.trim().to_string(), format!("{} ", p.trim())),
                    None => (hdr0.clone(), String::new()),
                };
                let hdr = &hdr;
                if !pre.is_empty() {
                    if !hdr.contains(" ensures ") {
                        self.unsupported.push("closure_sig with a `@@ let` prefix needs its own ensures".into());
                    }
                    self.edits.replace(
                        whole,
                        vec![Piece::Lit(format!("{} {{ {}", hdr, pre)), Piece::Src(br.0, br.1), Piece::Lit(" }".into())],
                        "R-closurepat",
                    );
                    self.note("R-closurepat", c.span());
                    return;
                }
                if self.macro_depth > 0 {
                    // R-hoist: inside a macro invocation the annotated closure syntax is not an expression rustc's macro
                    // parser accepts; bind the closure to a fresh name immediately before the enclosing statement
                    if let Some(&at) = self.stmt_starts.last() {
                        let name = format!("__vx_c{}", self.hoist_n);
                        self.hoist_n += 1;
                        // the hoisted body is ordinary code again: the rules apply inside it (nested closures stay where they are)
                        let saved_depth = self.macro_depth;
                        self.macro_depth = 0;
                        self.visit_expr(&c.body);
                        self.macro_depth = saved_depth;
                        let pieces = if hdr.contains(" ensures ") {
                            vec![Piece::Lit(format!("let {} = {} {{ ", name, hdr)), Piece::Src(br.0, br.1), Piece::Lit(" };\n".into())]
                        } else {
                            vec![
                                Piece::Lit(format!("let {} = {} ensures o == (", name, hdr)),
                                Piece::Src(br.0, br.1),
                                Piece::Lit(") { ".into()),
                                Piece::Src(br.0, br.1),
                                Piece::Lit(" };\n".into()),
                            ]
                        };
                        self.edits.replace((at, at), pieces, "R-hoist");
                        self.edits.replace(whole, vec![Piece::Lit(name)], "R-hoist");
                        self.note("R-hoist", c.span());
                        return;
                    }
                }
                // (opt-in) the rules apply inside the body of a closure that keeps its place under a header with its own postcondition
                if self.cfg.closure_sig_visit && hdr.contains(" ensures ") {
                    self.scopes.push(HashMap::new());
                    for p in &c.inputs {
                        self.bind_pat(p, false, None, None);
                    }
                    self.visit_expr(&c.body);
                    self.scopes.pop();
                }
                // a header that states its own postcondition (a body that calls a function value cannot be repeated in one)
                let pieces = if hdr.contains(" ensures ") {
                    vec![Piece::Lit(format!("{} {{ ", hdr)), Piece::Src(br.0, br.1), Piece::Lit(" }".into())]
                } else {
                    vec![
                        Piece::Lit(format!("{} ensures o == (", hdr)),
                        Piece::Src(br.0, br.1),
                        Piece::Lit(") { ".into()),
                        Piece::Src(br.0, br.1),
                        Piece::Lit(" }".into()),
                    ]
                };
                self.edits.replace(
                    whole,
                    pieces,
                    "R-closurepost",
                );
                self.note("R-closurepost", c.span());
                return;
            }
        }
        self.scopes.push(HashMap::new());
        for p in &c.inputs {
            // an untyped closure parameter keeps a kind declared for that name by the unit file
            if let Pat::Ident(pi) = p {
                if let Some(k) = self.lookup(&pi.ident.to_string()) {
                    self.declare(&pi.ident.to_string(), k);
                    continue;
                }
            }
            self.bind_pat(p, false, None, None);
        }
        self.visit_expr(&c.body);
        self.scopes.pop();
    }

    fn visit_expr_loop(&mut self, l: &'ast ExprLoop) {
        let r = self.r(l.span());
        if self.tail_loop == Some(r) && self.loop_depth_in_tail.is_none() {
            self.loop_depth_in_tail = Some(0);
            visit::visit_expr_loop(self, l);
            self.loop_depth_in_tail = None;
        } else {
            if let Some(d) = self.loop_depth_in_tail.as_mut() {
                *d += 1;
            }
            visit::visit_expr_loop(self, l);
            if let Some(d) = self.loop_depth_in_tail.as_mut() {
                *d -= 1;
            }
        }
    }
    fn visit_expr_while(&mut self, l: &'ast ExprWhile) {
        if let Some(d) = self.loop_depth_in_tail.as_mut() {
            *d += 1;
        }
        visit::visit_expr_while(self, l);
        if let Some(d) = self.loop_depth_in_tail.as_mut() {
            *d -= 1;
        }
    }
    fn visit_expr_for_loop(&mut self, l: &'ast ExprForLoop) {
        // R-forrange: `for P in A..=B { S }` over integers ->
        //   `{ let mut j = A; let end = B; let mut more = j <= end; while more { let P = j; { S } if j < end { j += 1; } else { more = false; } } }`
        // and `for P in A..B { S }` -> `{ let mut j = A; let end = B; while j < end { let P = j; { S } j += 1; } }`
        // (the documented meaning of Range / RangeInclusive iteration; a body with `continue` is not rewritten)
        if self.cfg.rfor {
            if let Expr::Range(rg) = &*l.expr {
                if let (Some(a), Some(b)) = (&rg.start, &rg.end) {
                    if !has_continue(&l.body) && matches!(&*l.pat, Pat::Ident(_) | Pat::Wild(_)) {
                        let closed = matches!(rg.limits, RangeLimits::Closed(_));
                        let for_start = self.r(l.for_token.span).0;
                        let brace_open = self.r(l.body.brace_token.span.open());
                        let brace_close = self.r(l.body.brace_token.span.close());
                        let pr = self.r(l.pat.span());
                        let ar = self.r(a.span());
                        let br = self.r(b.span());
                        let mut head = vec![Piece::Lit("{ let mut __vx_j = ".into()), Piece::Src(ar.0, ar.1), Piece::Lit("; let __vx_end = ".into()), Piece::Src(br.0, br.1)];
                        if closed {
                            head.push(Piece::Lit("; let mut __vx_more = __vx_j <= __vx_end; while __vx_more ".into()));
                        } else {
                            head.push(Piece::Lit("; while __vx_j < __vx_end ".into()));
                        }
                        self.edits.replace((for_start, brace_open.0), head, "R-forrange");
                        self.edits.replace(
                            (brace_open.1, brace_open.1),
                            vec![Piece::Lit(" let ".into()), Piece::Src(pr.0, pr.1), Piece::Lit(" = __vx_j; {".into())],
                            "R-forrange",
                        );
                        let tail = if closed {
                            "} if __vx_j < __vx_end { __vx_j += 1; } else { __vx_more = false; } "
                        } else {
                            "} __vx_j += 1; "
                        };
                        self.edits.insert(brace_close.0, tail.to_string(), "R-forrange");
                        self.edits.insert(brace_close.1, " }".to_string(), "R-forrange");
                        self.note("R-forrange", l.span());
                        if let Some(d) = self.loop_depth_in_tail.as_mut() {
                            *d += 1;
                        }
                        self.visit_expr(a);
                        self.visit_expr(b);
                        self.visit_block(&l.body);
                        if let Some(d) = self.loop_depth_in_tail.as_mut() {
                            *d -= 1;
                        }
                        return;
                    }
                }
            }
        }
        if self.cfg.rfor {
            // R-for: the language's own desugaring of `for` (IntoIterator::into_iter elided: the
            // iterated expressions here are iterators already)
            let for_start = self.r(l.for_token.span).0;
            let brace_open = self.r(l.body.brace_token.span.open());
            let brace_close = self.r(l.body.brace_token.span.close());
            let pr = self.r(l.pat.span());
            let er = self.r(l.expr.span());
            self.edits.replace(
                (for_start, brace_open.0),
                vec![Piece::Lit("{ let mut __vx_it = ".into()), Piece::Src(er.0, er.1), Piece::Lit("; let ghost __vx_it0 = __vx_it; loop ".into())],
                "R-for",
            );
            self.edits.replace(
                (brace_open.1, brace_open.1),
                vec![Piece::Lit(" match __vx_it.next() { Some(".into()), Piece::Src(pr.0, pr.1), Piece::Lit(") => {".into())],
                "R-for",
            );
            self.edits.insert(brace_close.0, "} None => { break; } } ".to_string(), "R-for");
            self.edits.insert(brace_close.1, " }".to_string(), "R-for");
            self.note("R-for", l.span());
        }
        if let Some(d) = self.loop_depth_in_tail.as_mut() {
            *d += 1;
        }
        visit::visit_expr_for_loop(self, l);
        if let Some(d) = self.loop_depth_in_tail.as_mut() {
            *d -= 1;
        }
    }
    fn visit_expr_break(&mut self, b: &'ast ExprBreak) {
        // R-break: the value of a `loop` in tail position is the function's result, so
        // `break E` from that loop is `return E`
        if self.loop_depth_in_tail == Some(0) && b.label.is_none() && b.expr.is_some() {
            let r = self.r(b.break_token.span);
            self.edits.replace(r, vec![Piece::Lit("return".into())], "R-break");
            self.note("R-break", b.span());
        }
        visit::visit_expr_break(self, b);
    }

    fn visit_expr_unary(&mut self, u: &'ast ExprUnary) {
        self.visit_expr(&u.expr);
        if self.cfg.rderef && matches!(u.op, UnOp::Neg(_)) {
            // `-x` with x: &i64  ==  `-*x`  (std's forward_ref_unop)
            self.deref_if_ref_prim(&u.expr);
        }
    }

    fn visit_expr_assign(&mut self, a: &'ast ExprAssign) {
        // R-destructure: `(a, b) = E;` (destructuring assignment to plain variables) is
        // `{ let __vx_t = E; a = __vx_t.0; b = __vx_t.1; }` -- the language's own desugaring
        if let Expr::Tuple(t) = &*a.left {
            let names: Vec<String> = t
                .elems
                .iter()
                .filter_map(|e| match e {
                    Expr::Path(p) if p.path.get_ident().is_some() => Some(p.path.get_ident().unwrap().to_string()),
                    _ => None,
                })
                .collect();
            if names.len() == t.elems.len() && !names.is_empty() {
                self.visit_expr(&a.right);
                let whole = self.r(a.span());
                let rr = self.r(a.right.span());
                let mut pieces = vec![Piece::Lit("{ let __vx_t = ".into()), Piece::Src(rr.0, rr.1), Piece::Lit("; ".into())];
                for (k, n) in names.iter().enumerate() {
                    pieces.push(Piece::Lit(format!("{} = __vx_t.{}; ", n, k)));
                }
                pieces.push(Piece::Lit("}".into()));
                self.edits.replace(whole, pieces, "R-destructure");
                self.note("R-destructure", a.span());
                return;
            }
        }
        if let Expr::Path(p) = &*a.left {
            if let Some(id) = p.path.get_ident() {
                if let Some((x, g)) = self.cfg.mirror.iter().find(|(x, _)| id == x) {
                    self.visit_expr(&a.right);
                    let whole = self.r(a.span());
                    self.edits.insert(whole.0, "{ ".to_string(), "R-mirror");
                    self.edits.insert(whole.1, format!("; proof {{ *{}.borrow_mut() = {}; }} }}", g, x), "R-mirror");
                    self.note("R-mirror", a.span());
                    return;
                }
            }
        }
        visit::visit_expr_assign(self, a);
    }

    fn visit_expr_binary(&mut self, b: &'ast ExprBinary) {
        // children first (their edits nest inside ours)
        self.visit_expr(&b.left);
        self.visit_expr(&b.right);
        let np = self.is_nonprim(&b.left) || self.is_nonprim(&b.right);
        if np && self.cfg.rop {
            if let Some((tr, m, assign)) = binop_trait(&b.op) {
                let l = self.r(b.left.span());
                let r = self.r(b.right.span());
                let whole = self.r(b.span());
                let mut pieces = vec![Piece::Lit(format!("core::ops::{}::{}(", tr, m))];
                if assign {
                    pieces.push(Piece::Lit("&mut ".into()));
                }
                pieces.push(Piece::Src(l.0, l.1));
                pieces.push(Piece::Lit(", ".into()));
                pieces.push(Piece::Src(r.0, r.1));
                pieces.push(Piece::Lit(")".into()));
                self.edits.replace(whole, pieces, "R-op");
                self.note("R-op", b.span());
                return;
            }
        }
        if np && self.cfg.rop {
            let cmp = match &b.op {
                BinOp::Lt(_) => Some(("PartialOrd", "lt")),
                BinOp::Le(_) => Some(("PartialOrd", "le")),
                BinOp::Gt(_) => Some(("PartialOrd", "gt")),
                BinOp::Ge(_) => Some(("PartialOrd", "ge")),
                _ => None,
            };
            if let Some((tr, m)) = cmp {
                // `a < b` is `PartialOrd::lt(&a, &b)` (the language's desugaring)
                let l = self.r(b.left.span());
                let r = self.r(b.right.span());
                let whole = self.r(b.span());
                self.edits.replace(
                    whole,
                    vec![
                        Piece::Lit(format!("core::cmp::{}::{}(&", tr, m)),
                        Piece::Src(l.0, l.1),
                        Piece::Lit(", &".into()),
                        Piece::Src(r.0, r.1),
                        Piece::Lit(")".into()),
                    ],
                    "R-op",
                );
                self.note("R-op", b.span());
                return;
            }
        }
        if !np && self.cfg.rderef && is_arith_or_cmp(&b.op) && binop_trait(&b.op).map(|t| !t.2).unwrap_or(true) {
            self.deref_if_ref_prim(&b.left);
            self.deref_if_ref_prim(&b.right);
        }
    }

    fn visit_expr_cast(&mut self, c: &'ast ExprCast) {
        // R-reborrow: `e as &T` on a reference `e` is the reborrow coercion `&*e`
        self.visit_expr(&c.expr);
        if let Type::Reference(tr) = &*c.ty {
            if tr.mutability.is_none() && self.expr_is_ref(&c.expr) {
                let er = self.r(c.expr.span());
                let whole = self.r(c.span());
                self.edits.replace(
                    whole,
                    vec![Piece::Lit("&*".into()), Piece::Src(er.0, er.1)],
                    "R-reborrow",
                );
                self.note("R-reborrow", c.span());
            }
        }
    }

    fn visit_expr_call(&mut self, c: &'ast ExprCall) {
        if !self.cfg.opaque_closure_args.is_empty() {
            let f = norm(&self.sf.slice(self.r(c.func.span())).to_string());
            if self.cfg.opaque_closure_args.iter().any(|p| f == *p) {
                let mut done = false;
                for a in c.args.iter() {
                    if let Expr::Closure(cl) = a {
                        let r = self.r(cl.span());
                        self.edits.replace(r, vec![Piece::Lit("vx_opaque_closure()".into())], "R-opaquearg");
                        self.note("R-opaquearg", cl.span());
                        done = true;
                    }
                }
                if done {
                    return;
                }
            }
        }
        if self.cfg.ralloc {
            let f = norm(&self.sf.slice(self.r(c.func.span())).to_string());
            if f == "Vec::with_capacity" || f == "VecDeque::with_capacity" {
                let fr = self.r(c.func.span());
                let target = if f.starts_with("VecDeque") { "vx_deque_with_capacity" } else { "vx_with_capacity" };
                self.edits.replace(fr, vec![Piece::Lit(target.into())], "R-alloc");
                self.note("R-alloc", c.span());
            }
        }
        if !self.cfg.state_arg.is_empty() {
            let f = norm(&self.sf.slice(self.r(c.func.span())).to_string());
            if self.cfg.state_calls.iter().any(|p| f == *p || f.ends_with(&format!("::{}", p))) {
                let at = self.r(c.paren_token.span.close()).0;
                let sep = if c.args.is_empty() || c.args.trailing_punct() { "" } else { ", " };
                self.edits.insert(at, format!("{}{}", sep, self.cfg.state_arg), "R-state");
                self.note("R-state", c.span());
            }
        }
        visit::visit_expr_call(self, c);
    }

    fn visit_expr_method_call(&mut self, m: &'ast ExprMethodCall) {
        let name = m.method.to_string();
        if self.cfg.rentry && name == "or_insert" && m.args.len() == 1 {
            if let Expr::MethodCall(e) = &*m.receiver {
                if e.method == "entry" && e.args.len() == 1 {
                    self.visit_expr(&e.receiver);
                    self.visit_expr(&e.args[0]);
                    self.visit_expr(&m.args[0]);
                    let rr = self.r(e.receiver.span());
                    let kr = self.r(e.args[0].span());
                    let vr = self.r(m.args[0].span());
                    let whole = self.r(m.span());
                    self.edits.replace(
                        whole,
                        vec![
                            Piece::Src(rr.0, rr.1),
                            Piece::Lit(".vx_entry_or_insert(".into()),
                            Piece::Src(kr.0, kr.1),
                            Piece::Lit(", ".into()),
                            Piece::Src(vr.0, vr.1),
                            Piece::Lit(")".into()),
                        ],
                        "R-entry",
                    );
                    self.note("R-entry", m.span());
                    return;
                }
            }
        }
        if self.cfg.rrangeiter {
            if let Expr::Paren(p) = &*m.receiver {
                if let Expr::Range(rg) = &*p.expr {
                    if let (Some(a), Some(b)) = (&rg.start, &rg.end) {
                        // `(A..=B).m()` -> `vx_range_incl(A, B).m()`
                        let ctor = if matches!(rg.limits, RangeLimits::Closed(_)) { "vx_range_incl(" } else { "vx_range(" };
                        self.visit_expr(a);
                        self.visit_expr(b);
                        for x in m.args.iter() {
                            self.visit_expr(x);
                        }
                        let ar = self.r(a.span());
                        let br = self.r(b.span());
                        let whole = self.r(m.receiver.span());
                        self.edits.replace(
                            whole,
                            vec![
                                Piece::Lit(ctor.into()),
                                Piece::Src(ar.0, ar.1),
                                Piece::Lit(", ".into()),
                                Piece::Src(br.0, br.1),
                                Piece::Lit(")".into()),
                            ],
                            "R-rangeiter",
                        );
                        self.note("R-rangeiter", m.span());
                        return;
                    }
                }
            }
        }
        if !self.cfg.state_arg.is_empty() && self.cfg.state_methods.contains(&name) {
            let at = self.r(m.paren_token.span.close()).0;
            let sep = if m.args.is_empty() || m.args.trailing_punct() { "" } else { ", " };
            self.edits.insert(at, format!("{}{}", sep, self.cfg.state_arg), "R-state");
            self.note("R-state", m.span());
        }
        if self.cfg.rmatch && (name == "map_or_else" || name == "map_or") && m.args.len() == 2 {
            let a0 = &m.args[0];
            let a1 = &m.args[1];
            let none_piece: Option<Vec<Piece>> = if name == "map_or_else" {
                match a0 {
                    Expr::Closure(c) if c.inputs.is_empty() && !has_escape(&c.body) => {
                        let r = self.r(c.body.span());
                        Some(vec![Piece::Src(r.0, r.1)])
                    }
                    _ => None,
                }
            } else {
                // the default of `map_or` is evaluated eagerly: only forms without effects are hoisted
                let const_like = match a0 {
                    Expr::Lit(_) | Expr::Path(_) => true,
                    Expr::Call(c) => matches!(&*c.func, Expr::Path(_)) && c.args.iter().all(|a| matches!(a, Expr::Lit(_))),
                    _ => false,
                };
                if const_like {
                    let r = self.r(a0.span());
                    Some(vec![Piece::Src(r.0, r.1)])
                } else {
                    None
                }
            };
            let some_piece: Option<Vec<Piece>> = match a1 {
                Expr::Path(_) => {
                    let r = self.r(a1.span());
                    Some(vec![Piece::Src(r.0, r.1), Piece::Lit("(__vx_v)".into())])
                }
                Expr::Closure(c) if c.inputs.len() == 1 && !has_escape(&c.body) => {
                    let pr = self.r(c.inputs[0].span());
                    let br = self.r(c.body.span());
                    Some(vec![
                        Piece::Lit("{ let ".into()),
                        Piece::Src(pr.0, pr.1),
                        Piece::Lit(" = __vx_v; ".into()),
                        Piece::Src(br.0, br.1),
                        Piece::Lit(" }".into()),
                    ])
                }
                _ => None,
            };
            if let (Some(np), Some(sp)) = (none_piece, some_piece) {
                // visit children so nested rewrites are recorded
                self.visit_expr(&m.receiver);
                self.visit_expr(a0);
                self.visit_expr(a1);
                let rr = self.r(m.receiver.span());
                let whole = self.r(m.span());
                let mut pieces = vec![Piece::Lit("match ".into()), Piece::Src(rr.0, rr.1), Piece::Lit(" { None => ".into())];
                pieces.extend(np);
                pieces.push(Piece::Lit(", Some(__vx_v) => ".into()));
                pieces.extend(sp);
                pieces.push(Piece::Lit(" }".into()));
                self.edits.replace(whole, pieces, "R-match");
                self.note("R-match", m.span());
                return;
            } else {
                self.unsupported.push(format!(
                    "line {}: `{}` with arguments outside R-match's shape",
                    self.sf.line_of(self.r(m.span()).0),
                    name
                ));
            }
        }
        if name == "get_unchecked" && m.args.len() == 1 {
            // R-unchecked: `x.get_unchecked(i)` -> `&x[i]`; the safety precondition of the unchecked
            // access (i in bounds) becomes Verus' index obligation
            self.visit_expr(&m.receiver);
            self.visit_expr(&m.args[0]);
            let rr = self.r(m.receiver.span());
            let ar = self.r(m.args[0].span());
            let whole = self.r(m.span());
            self.edits.replace(
                whole,
                vec![
                    Piece::Lit("&".into()),
                    Piece::Src(rr.0, rr.1),
                    Piece::Lit("[".into()),
                    Piece::Src(ar.0, ar.1),
                    Piece::Lit("]".into()),
                ],
                "R-unchecked",
            );
            self.note("R-unchecked", m.span());
            return;
        }
        if self.cfg.rmatch && name == "cloned" && m.args.is_empty() {
            // R-optmin: `a.iter().chain(b.iter()).min().cloned()` on two Options == the smaller of
            // the present values (Option::iter yields zero or one item)
            if let Expr::MethodCall(mn) = &*m.receiver {
                if mn.method == "min" && mn.args.is_empty() {
                    if let Expr::MethodCall(ch) = &*mn.receiver {
                        if ch.method == "chain" && ch.args.len() == 1 {
                            if let (Expr::MethodCall(ia), Expr::MethodCall(ib)) = (&*ch.receiver, &ch.args[0]) {
                                if ia.method == "iter" && ib.method == "iter" && ia.args.is_empty() && ib.args.is_empty() {
                                    self.visit_expr(&ia.receiver);
                                    self.visit_expr(&ib.receiver);
                                    let ra = self.r(ia.receiver.span());
                                    let rb = self.r(ib.receiver.span());
                                    let whole = self.r(m.span());
                                    self.edits.replace(
                                        whole,
                                        vec![
                                            Piece::Lit("vx_opt_min(".into()),
                                            Piece::Src(ra.0, ra.1),
                                            Piece::Lit(", ".into()),
                                            Piece::Src(rb.0, rb.1),
                                            Piece::Lit(")".into()),
                                        ],
                                        "R-optmin",
                                    );
                                    self.note("R-optmin", m.span());
                                    return;
                                }
                            }
                        }
                    }
                }
            }
        }
        if self.cfg.rmatch && self.cfg.rmatch_map && name == "map" && m.args.len() == 1 {
            if let Expr::Closure(c) = &m.args[0] {
                if c.inputs.len() == 1 && !has_escape(&c.body) {
                    self.visit_expr(&m.receiver);
                    self.visit_expr(&m.args[0]);
                    let rr = self.r(m.receiver.span());
                    let pr = self.r(c.inputs[0].span());
                    let br = self.r(c.body.span());
                    let whole = self.r(m.span());
                    self.edits.replace(
                        whole,
                        vec![
                            Piece::Lit("(match ".into()),
                            Piece::Src(rr.0, rr.1),
                            Piece::Lit(" { None => None, Some(".into()),
                            Piece::Src(pr.0, pr.1),
                            Piece::Lit(") => Some(".into()),
                            Piece::Src(br.0, br.1),
                            Piece::Lit(") })".into()),
                        ],
                        "R-match",
                    );
                    self.note("R-match", m.span());
                    return;
                }
            }
        }
        if self.cfg.rmatch_map_result && name == "map" && m.args.len() == 1 {
            if let Expr::Closure(c) = &m.args[0] {
                if c.inputs.len() == 1 && !has_escape(&c.body) {
                    self.visit_expr(&m.receiver);
                    self.visit_expr(&c.body);
                    let rr = self.r(m.receiver.span());
                    let pr = self.r(c.inputs[0].span());
                    let br = self.r(c.body.span());
                    let whole = self.r(m.span());
                    self.edits.replace(
                        whole,
                        vec![
                            Piece::Lit("(match ".into()),
                            Piece::Src(rr.0, rr.1),
                            Piece::Lit(" { Ok(".into()),
                            Piece::Src(pr.0, pr.1),
                            Piece::Lit(") => Ok(".into()),
                            Piece::Src(br.0, br.1),
                            Piece::Lit("), Err(__vx_e) => Err(__vx_e) })".into()),
                        ],
                        "R-match",
                    );
                    self.note("R-match", m.span());
                    return;
                }
            }
        }
        if self.cfg.rmatch_map_ok && name == "map" && m.args.len() == 1 {
            // R-match: `e.map(Ok)` on a Result -> `match e { Ok(v) => Ok(Ok(v)), Err(x) => Err(x) }` (a datatype
            // constructor used as a function value is outside Verus' dialect)
            if let Expr::Path(p) = &m.args[0] {
                let ptxt = norm(self.sf.slice(self.r(p.span())));
                if self.cfg.rmatch_map_result_paths.contains(&ptxt) {
                    // `e.map(PATH)` on a Result, PATH a function named by the unit file
                    self.visit_expr(&m.receiver);
                    let rr = self.r(m.receiver.span());
                    let pr = self.r(p.span());
                    let whole = self.r(m.span());
                    self.edits.replace(
                        whole,
                        vec![
                            Piece::Lit("(match ".into()),
                            Piece::Src(rr.0, rr.1),
                            Piece::Lit(" { Ok(__vx_v) => Ok(".into()),
                            Piece::Src(pr.0, pr.1),
                            Piece::Lit("(__vx_v)), Err(__vx_e) => Err(__vx_e) })".into()),
                        ],
                        "R-match",
                    );
                    self.note("R-match", m.span());
                    return;
                }
                if p.path.is_ident("Ok") {
                    self.visit_expr(&m.receiver);
                    let rr = self.r(m.receiver.span());
                    let whole = self.r(m.span());
                    self.edits.replace(
                        whole,
                        vec![
                            Piece::Lit("(match ".into()),
                            Piece::Src(rr.0, rr.1),
                            Piece::Lit(" { Ok(__vx_v) => Ok(Ok(__vx_v)), Err(__vx_e) => Err(__vx_e) })".into()),
                        ],
                        "R-match",
                    );
                    self.note("R-match", m.span());
                    return;
                }
            }
        }
        if self.cfg.rmatch && name == "partition_point" && m.args.len() == 1 {
            // R-ppoint: `s.partition_point(|x| *x <= K)` -> `s.vx_partition_point_le(K)` (`<`: `_lt`; prelude trait, std's
            // documented meaning on a sorted slice: the number of elements <= K)
            if let Expr::Closure(c) = &m.args[0] {
                if let (1, Expr::Binary(b)) = (c.inputs.len(), &*c.body) {
                    let pn = norm(self.sf.slice(self.r(c.inputs[0].span())));
                    let ln = norm(self.sf.slice(self.r(b.left.span())));
                    if (matches!(b.op, BinOp::Le(_)) || matches!(b.op, BinOp::Lt(_))) && ln == format!("*{}", pn) {
                        let target = if matches!(b.op, BinOp::Le(_)) { ".vx_partition_point_le(" } else { ".vx_partition_point_lt(" };
                        self.visit_expr(&m.receiver);
                        self.visit_expr(&b.right);
                        let rr = self.r(m.receiver.span());
                        let kr = self.r(b.right.span());
                        let whole = self.r(m.span());
                        self.edits.replace(
                            whole,
                            vec![
                                Piece::Src(rr.0, rr.1),
                                Piece::Lit(target.into()),
                                Piece::Src(kr.0, kr.1),
                                Piece::Lit(")".into()),
                            ],
                            "R-ppoint",
                        );
                        self.note("R-ppoint", m.span());
                        return;
                    }
                }
            }
        }
        if self.cfg.rmatch && name == "and_then" && m.args.len() == 1 {
            // R-match: `o.and_then(|p| BODY)` on Option -> `match o { None => None, Some(p) => BODY }`
            if let Expr::Closure(c) = &m.args[0] {
                if c.inputs.len() == 1 && !has_escape(&c.body) {
                    self.visit_expr(&m.receiver);
                    self.visit_expr(&m.args[0]);
                    let rr = self.r(m.receiver.span());
                    let pr = self.r(c.inputs[0].span());
                    let br = self.r(c.body.span());
                    let whole = self.r(m.span());
                    self.edits.replace(
                        whole,
                        vec![
                            Piece::Lit("match ".into()),
                            Piece::Src(rr.0, rr.1),
                            Piece::Lit(" { None => None, Some(".into()),
                            Piece::Src(pr.0, pr.1),
                            Piece::Lit(") => ".into()),
                            Piece::Src(br.0, br.1),
                            Piece::Lit(" }".into()),
                        ],
                        "R-match",
                    );
                    self.note("R-match", m.span());
                    return;
                }
            }
            self.unsupported.push(format!(
                "line {}: `and_then` with an argument outside R-match's shape",
                self.sf.line_of(self.r(m.span()).0)
            ));
        }
        visit::visit_expr_method_call(self, m);
    }
}
