//! vx -- mechanical extractor of real xray source text for Verus.
//!
//! Reads a JSON job (file given as argv[1]) and prints a JSON result on stdout.
//! Nothing here knows any contract: it selects items of /repo's source by *path*
//! (`impl Mul for &LazyBigint`, `impl XSequence :: fn len :: arm Self::Range`), copies their
//! source text byte for byte and applies only the rewrite rules of DESIGN.md 2.1 (R-*), each of
//! which is recorded in the result together with the source line it was applied at.
//!
//! exit 0: all items extracted; exit 3: at least one lost anchor / unsupported construct
//! (the driver turns that into UNDECIDED, never into a verdict).

mod render;
mod select;
mod rewrite;
mod scan;
mod skel;

use serde_json::{json, Value};
use std::collections::BTreeMap;

pub struct SourceFile {
    pub path: String,
    pub text: String,
    pub line_starts: Vec<usize>,
    pub ast: syn::File,
}

impl SourceFile {
    pub fn load(root: &str, rel: &str) -> Result<Self, String> {
        let p = format!("{}/{}", root, rel);
        let text = std::fs::read_to_string(&p).map_err(|e| format!("cannot read {p}: {e}"))?;
        let ast = syn::parse_file(&text).map_err(|e| format!("cannot parse {p}: {e}"))?;
        let mut line_starts = vec![0usize];
        for (i, b) in text.bytes().enumerate() {
            if b == b'\n' {
                line_starts.push(i + 1);
            }
        }
        Ok(Self {
            path: rel.to_string(),
            text,
            line_starts,
            ast,
        })
    }
    /// byte offset of a proc_macro2 LineColumn (line 1-based, column 0-based in chars)
    pub fn off(&self, lc: proc_macro2::LineColumn) -> usize {
        let ls = self.line_starts[lc.line - 1];
        let line = &self.text[ls..];
        let mut o = ls;
        for (n, (i, _)) in line.char_indices().enumerate() {
            if n == lc.column {
                return ls + i;
            }
            o = ls + i;
        }
        // column == number of chars in remaining text
        let _ = o;
        ls + line
            .char_indices()
            .nth(lc.column)
            .map(|(i, _)| i)
            .unwrap_or(line.len())
    }
    pub fn range(&self, sp: proc_macro2::Span) -> (usize, usize) {
        (self.off(sp.start()), self.off(sp.end()))
    }
    pub fn line_of(&self, off: usize) -> usize {
        match self.line_starts.binary_search(&off) {
            Ok(i) => i + 1,
            Err(i) => i,
        }
    }
    pub fn slice(&self, r: (usize, usize)) -> &str {
        &self.text[r.0..r.1]
    }
}

/// Arguments of a macro invocation as expressions: the token stream is split at top-level commas and
/// every piece is parsed on its own; a piece that is not an expression (a keyword such as `mod`, a type)
/// becomes `Expr::Verbatim` so that closures in later positions stay reachable.
pub fn macro_args(m: &syn::Macro) -> Vec<syn::Expr> {
    use proc_macro2::{TokenStream, TokenTree};
    use syn::parse::discouraged::Speculative;
    use syn::parse::{ParseStream, Parser};
    let parser = |input: ParseStream| -> syn::Result<Vec<syn::Expr>> {
        let mut v = vec![];
        while !input.is_empty() {
            let fork = input.fork();
            match fork.parse::<syn::Expr>() {
                Ok(e) if fork.is_empty() || fork.peek(syn::Token![,]) => {
                    input.advance_to(&fork);
                    v.push(e);
                }
                _ => {
                    let mut ts = TokenStream::new();
                    while !input.is_empty() && !input.peek(syn::Token![,]) {
                        let t: TokenTree = input.parse()?;
                        ts.extend(std::iter::once(t));
                    }
                    v.push(syn::Expr::Verbatim(ts));
                }
            }
            if input.peek(syn::Token![,]) {
                input.parse::<syn::Token![,]>()?;
            }
        }
        Ok(v)
    };
    parser.parse2(m.tokens.clone()).unwrap_or_default()
}

pub fn norm(s: &str) -> String {
    s.chars().filter(|c| !c.is_whitespace()).collect()
}

fn main() {
    let args: Vec<String> = std::env::args().collect();
    if args.len() < 2 {
        eprintln!("usage: vx <job.json>");
        std::process::exit(64);
    }
    let job: Value = serde_json::from_str(&std::fs::read_to_string(&args[1]).expect("job file"))
        .expect("job json");
    let root = job["repo"].as_str().expect("repo").to_string();
    let mode = job["mode"].as_str().unwrap_or("extract");
    let mut files: BTreeMap<String, SourceFile> = BTreeMap::new();
    let mut errors: Vec<Value> = vec![];
    let mut out_items: Vec<Value> = vec![];

    if mode == "scan" {
        let res = scan::run(&root, &job, &mut errors);
        let out = json!({"scan": res, "errors": errors});
        println!("{}", serde_json::to_string_pretty(&out).unwrap());
        std::process::exit(if errors.is_empty() { 0 } else { 3 });
    }

    let cfg = rewrite::Config::from_json(&job["rewrite"]);
    for it in job["items"].as_array().expect("items") {
        let id = it["id"].as_str().unwrap_or("?").to_string();
        let rel = it["file"].as_str().expect("file").to_string();
        if !files.contains_key(&rel) {
            match SourceFile::load(&root, &rel) {
                Ok(f) => {
                    files.insert(rel.clone(), f);
                }
                Err(e) => {
                    errors.push(json!({"id": id, "kind": "lost-anchor", "msg": e}));
                    continue;
                }
            }
        }
        let sf = &files[&rel];
        match select::extract_item(sf, it, &cfg) {
            Ok(v) => out_items.push(v),
            Err(e) => errors.push(json!({"id": id, "kind": e.0, "msg": e.1})),
        }
    }
    let out = json!({"items": out_items, "errors": errors});
    println!("{}", serde_json::to_string_pretty(&out).unwrap());
    std::process::exit(if errors.is_empty() { 0 } else { 3 });
}
