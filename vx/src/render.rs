//! Span-based renderer: source text is copied byte for byte except inside recorded edits.

use crate::SourceFile;

#[derive(Clone, Debug)]
pub enum Piece {
    Lit(String),
    /// a source sub-range, rendered recursively (nested edits inside it still apply)
    Src(usize, usize),
}

#[derive(Clone, Debug)]
pub struct Edit {
    pub start: usize,
    pub end: usize,
    pub pieces: Vec<Piece>,
    pub rule: &'static str,
    /// priority for equal ranges: larger wins as the outer edit
    pub prio: u32,
}

#[derive(Default)]
pub struct Edits {
    pub v: Vec<Edit>,
}

impl Edits {
    pub fn replace(&mut self, r: (usize, usize), pieces: Vec<Piece>, rule: &'static str) {
        self.v.push(Edit {
            start: r.0,
            end: r.1,
            pieces,
            rule,
            prio: 0,
        });
    }
    pub fn delete(&mut self, r: (usize, usize), rule: &'static str) {
        self.replace(r, vec![], rule)
    }
    pub fn insert(&mut self, at: usize, text: String, rule: &'static str) {
        self.replace((at, at), vec![Piece::Lit(text)], rule)
    }
}

pub struct Rendered {
    pub text: String,
    /// (output byte offset, source byte offset) at the start of every copied source run
    pub marks: Vec<(usize, usize)>,
}

pub fn render(sf: &SourceFile, range: (usize, usize), edits: &Edits) -> Rendered {
    let mut sorted: Vec<&Edit> = edits.v.iter().collect();
    // outermost first: by start asc, then end desc, then prio desc
    sorted.sort_by(|a, b| {
        a.start
            .cmp(&b.start)
            .then(b.end.cmp(&a.end))
            .then(b.prio.cmp(&a.prio))
    });
    let mut out = Rendered {
        text: String::new(),
        marks: vec![],
    };
    render_range(sf, range, &sorted, &mut out, None);
    out
}

fn render_range(
    sf: &SourceFile,
    range: (usize, usize),
    edits: &[&Edit],
    out: &mut Rendered,
    skip: Option<*const Edit>,
) {
    let mut pos = range.0;
    let mut i = 0;
    while i < edits.len() {
        let e = edits[i];
        i += 1;
        if Some(e as *const Edit) == skip {
            continue;
        }
        if e.start < pos || e.end > range.1 || e.start < range.0 {
            continue; // outside the range or nested in an edit already handled
        }
        // zero-width insertion at the very end of the range belongs to the outer context,
        // unless the range is itself the whole item
        if e.start > range.1 {
            break;
        }
        if e.start == e.end && e.start == range.1 && skip.is_some() {
            continue;
        }
        // copy source up to the edit
        if e.start > pos {
            out.marks.push((out.text.len(), pos));
            out.text.push_str(&sf.text[pos..e.start]);
        }
        for p in &e.pieces {
            match p {
                Piece::Lit(s) => out.text.push_str(s),
                Piece::Src(a, b) => render_range(sf, (*a, *b), edits, out, Some(e as *const Edit)),
            }
        }
        pos = e.end.max(pos);
        // zero-width edits: several may sit at the same position; continue
    }
    if pos < range.1 {
        out.marks.push((out.text.len(), pos));
        out.text.push_str(&sf.text[pos..range.1]);
    }
}

/// For every output line, the source line its first copied byte came from (0 = synthetic).
pub fn line_map(sf: &SourceFile, r: &Rendered) -> Vec<usize> {
    let mut res = vec![];
    let mut line_start = 0usize;
    let bytes = r.text.as_bytes();
    let mut starts = vec![0usize];
    for (i, b) in bytes.iter().enumerate() {
        if *b == b'\n' {
            starts.push(i + 1);
        }
    }
    let _ = &mut line_start;
    for (li, s) in starts.iter().enumerate() {
        let e = if li + 1 < starts.len() {
            starts[li + 1]
        } else {
            bytes.len()
        };
        // find a mark whose copied run covers some byte in [s,e)
        let mut src_line = 0usize;
        for (k, (o, so)) in r.marks.iter().enumerate() {
            let run_end = if k + 1 < r.marks.len() {
                r.marks[k + 1].0
            } else {
                bytes.len()
            };
            if *o < e && run_end > *s {
                // byte at max(o, s) is within this run (approximately: literal text after the
                // run is attributed to the run as well)
                let delta = s.saturating_sub(*o);
                src_line = sf.line_of(so + delta);
                break;
            }
        }
        res.push(src_line);
    }
    res
}
