//! Skeleton mode (R-skel, DESIGN.md 2.1): from the real body of a closure / function, keep
//!   * control flow (if / match / loops / early exits / closures as separate units),
//!   * the occurrences of the *declared primitives* (guards, effects, contracted callees), in
//!     evaluation order, with the argument positions the unit file asks for,
//! and drop every other computation.  Conditions become `sk_nondet()`.  The result is a Verus
//! function whose obligations are the primitives' preconditions.
//!
//! Everything dropped is data computation; what is kept is decided by the `prims` table of the unit
//! file, and every kept occurrence is reported (`events`) with its source line so that the scan can
//! check that no primitive occurrence lies outside a skeleton.

use crate::{norm, SourceFile};
use serde_json::{json, Value};
use syn::spanned::Spanned;
use syn::*;

#[derive(Clone, Debug)]
pub struct Prim {
    pub kind: String,        // "method" | "call" | "field" | "macro"
    pub name: String,        // method / field / macro name, or normalized path suffix for calls
    pub nargs: Option<usize>,
    pub emit: String,        // text to emit; placeholders: {argN} (N-th argument, see `arg_mode`),
    // {last_seg_argN} (last path segment of the N-th argument, e.g. `&builtin_permissions::PRINT` -> PRINT)
    pub try_emit: Option<String>, // emitted instead when the occurrence is directly under `?`
    pub arg_contains: Option<String>, // only if the normalized argument text contains this
}

pub struct Skel<'a> {
    pub sf: &'a SourceFile,
    pub prims: Vec<Prim>,
    pub events: Vec<Value>,
    pub unsupported: Vec<String>,
    pub closures: Vec<(String, String)>, // (name, body text) of closure skeletons
    pub name: String,
    pub ret_early: String,
    pub keep_idents: Vec<String>,
    ind: usize,
}

fn last_seg(e: &Expr) -> Option<String> {
    match e {
        Expr::Reference(r) => last_seg(&r.expr),
        Expr::Paren(p) => last_seg(&p.expr),
        Expr::Path(p) => p.path.segments.last().map(|s| s.ident.to_string()),
        _ => None,
    }
}

fn path_text(p: &Path) -> String {
    p.segments.iter().map(|s| s.ident.to_string()).collect::<Vec<_>>().join("::")
}

impl<'a> Skel<'a> {
    pub fn new(sf: &'a SourceFile, cfg: &Value, name: &str) -> Self {
        let mut prims = vec![];
        if let Some(a) = cfg["prims"].as_array() {
            for p in a {
                prims.push(Prim {
                    kind: p["kind"].as_str().unwrap_or("").to_string(),
                    name: p["name"].as_str().unwrap_or("").to_string(),
                    nargs: p["nargs"].as_u64().map(|x| x as usize),
                    emit: p["emit"].as_str().unwrap_or("").to_string(),
                    try_emit: p["try_emit"].as_str().map(|s| s.to_string()),
                    arg_contains: p["arg_contains"].as_str().map(|s| norm(s)),
                });
            }
        }
        Skel {
            sf,
            prims,
            events: vec![],
            unsupported: vec![],
            closures: vec![],
            name: name.to_string(),
            ret_early: cfg["early_return"].as_str().unwrap_or("return sk_ret();").to_string(),
            keep_idents: cfg["keep_idents"].as_array().map(|a| a.iter().filter_map(|x| x.as_str().map(|s| s.to_string())).collect()).unwrap_or_default(),
            ind: 1,
        }
    }

    fn line(&self, sp: proc_macro2::Span) -> usize {
        self.sf.line_of(self.sf.range(sp).0)
    }
    fn src(&self, sp: proc_macro2::Span) -> String {
        self.sf.slice(self.sf.range(sp)).to_string()
    }
    fn pad(&self) -> String {
        "    ".repeat(self.ind)
    }

    /// render an argument "precisely" if it only consists of kept identifiers, literals and
    /// boolean/comparison operators; otherwise None
    fn precise(&self, e: &Expr) -> Option<String> {
        match e {
            Expr::Lit(l) => Some(self.src(l.span())),
            Expr::Path(p) if p.path.segments.len() == 1 => {
                let id = p.path.segments[0].ident.to_string();
                if self.keep_idents.contains(&id) {
                    Some(id)
                } else {
                    None
                }
            }
            Expr::Paren(p) => self.precise(&p.expr).map(|s| format!("({})", s)),
            Expr::Unary(u) if matches!(u.op, UnOp::Not(_)) => self.precise(&u.expr).map(|s| format!("!{}", s)),
            Expr::Binary(b) if matches!(b.op, BinOp::And(_) | BinOp::Or(_) | BinOp::Eq(_) | BinOp::Ne(_)) => {
                let l = self.precise(&b.left)?;
                let r = self.precise(&b.right)?;
                Some(format!("{} {} {}", l, self.src(b.op.span()), r))
            }
            _ => None,
        }
    }

    fn emit_prim(&mut self, p: &Prim, args: &[&Expr], sp: proc_macro2::Span, under_try: bool, out: &mut Vec<String>) {
        let mut text = if under_try { p.try_emit.clone().unwrap_or_else(|| p.emit.clone()) } else { p.emit.clone() };
        for (i, a) in args.iter().enumerate() {
            let ph = format!("{{arg{}}}", i);
            if text.contains(&ph) {
                let v = self.precise(a).unwrap_or_else(|| "sk_nondet()".to_string());
                text = text.replace(&ph, &v);
            }
            let ph3 = format!("{{index_arg{}}}", i);
            if text.contains(&ph3) {
                // `&args[N]` -> N (literal index), anything else -> -1 (dynamic)
                let t = norm(&self.src(a.span()));
                let idx = t.find('[').and_then(|p| t[p + 1..].find(']').map(|q| t[p + 1..p + 1 + q].to_string()));
                let v = match idx {
                    Some(x) if x.chars().all(|c| c.is_ascii_digit()) && !x.is_empty() => x,
                    _ => "-1".to_string(),
                };
                text = text.replace(&ph3, &v);
            }
            let ph2 = format!("{{last_seg_arg{}}}", i);
            if text.contains(&ph2) {
                match last_seg(a) {
                    Some(s) => text = text.replace(&ph2, &s),
                    None => self.unsupported.push(format!("line {}: argument {} of `{}` is not a path", self.line(sp), i, p.name)),
                }
            }
        }
        self.events.push(json!({"prim": p.name, "kind": p.kind, "line": self.line(sp), "under_try": under_try, "emitted": text}));
        out.push(format!("{}{} // <- {}:{}", self.pad(), text, self.sf.path, self.line(sp)));
    }

    fn find_prim(&self, kind: &str, name: &str, nargs: usize, argtext: &str) -> Option<Prim> {
        for p in &self.prims {
            if p.kind != kind {
                continue;
            }
            let name_ok = if kind == "call" { name == p.name || name.ends_with(&format!("::{}", p.name)) } else { name == p.name };
            if !name_ok {
                continue;
            }
            if let Some(n) = p.nargs {
                if n != nargs {
                    continue;
                }
            }
            if let Some(c) = &p.arg_contains {
                if !argtext.contains(c.as_str()) {
                    continue;
                }
            }
            return Some(p.clone());
        }
        None
    }

    fn has_events_expr(&mut self, e: &Expr) -> bool {
        let mut tmp: Vec<String> = vec![];
        let saved_events = self.events.len();
        let saved_uns = self.unsupported.len();
        let saved_cl = self.closures.len();
        self.expr(e, false, &mut tmp);
        let has = !tmp.is_empty() || self.closures.len() > saved_cl;
        self.events.truncate(saved_events);
        self.unsupported.truncate(saved_uns);
        self.closures.truncate(saved_cl);
        has
    }

    pub fn block(&mut self, b: &Block, out: &mut Vec<String>) {
        for s in &b.stmts {
            self.stmt(s, out);
        }
    }

    fn stmt(&mut self, s: &Stmt, out: &mut Vec<String>) {
        match s {
            Stmt::Local(l) => {
                if let Some(init) = &l.init {
                    self.expr(&init.expr, false, out);
                    if let Some((_, d)) = &init.diverge {
                        let mut inner = vec![];
                        self.ind += 1;
                        self.expr(d, false, &mut inner);
                        self.ind -= 1;
                        out.push(format!("{}if sk_nondet() {{ // let-else diverges", self.pad()));
                        out.extend(inner);
                        out.push(format!("{}    {}", self.pad(), self.ret_early));
                        out.push(format!("{}}}", self.pad()));
                    }
                }
            }
            Stmt::Item(_) => {}
            Stmt::Expr(e, _) => self.expr(e, false, out),
            Stmt::Macro(m) => self.mac(&m.mac, out),
        }
    }

    fn mac(&mut self, m: &Macro, out: &mut Vec<String>) {
        let name = m.path.segments.last().map(|s| s.ident.to_string()).unwrap_or_default();
        let parsed = m.parse_body_with(punctuated::Punctuated::<Expr, Token![,]>::parse_terminated);
        match parsed {
            Ok(exprs) => {
                let v: Vec<Expr> = exprs.into_iter().collect();
                let leaked: &'static [Expr] = Box::leak(v.into_boxed_slice());
                for e in leaked {
                    self.expr(e, false, out);
                }
                let argtext = norm(&m.tokens.to_string());
                if let Some(p) = self.find_prim("macro", &name, leaked.len(), &argtext) {
                    let args: Vec<&Expr> = leaked.iter().collect();
                    self.emit_prim(&p, &args, m.span(), false, out);
                }
                // macros that return early on an error value
                if ["xraise", "xraise_opt", "forward_err"].contains(&name.as_str()) {
                    out.push(format!("{}if sk_nondet() {{ {} }} // {}! may return early", self.pad(), self.ret_early, name));
                }
            }
            Err(_) => {
                // cannot see inside: refuse if any primitive name occurs in the raw tokens
                let raw = m.tokens.to_string();
                for p in &self.prims {
                    let last = p.name.rsplit("::").next().unwrap_or(&p.name);
                    if raw.contains(last) {
                        self.unsupported.push(format!("line {}: macro `{}!` with unparsable body mentions primitive `{}`", self.line(m.span()), name, p.name));
                    }
                }
            }
        }
    }

    fn branchy(&mut self, branches: Vec<Vec<String>>, out: &mut Vec<String>, what: &str) {
        if branches.iter().all(|b| b.is_empty()) {
            return;
        }
        let n = branches.len();
        for (i, b) in branches.into_iter().enumerate() {
            if i == 0 {
                out.push(format!("{}if sk_nondet() {{ // {}", self.pad(), what));
            } else if i + 1 == n {
                out.push(format!("{}}} else {{", self.pad()));
            } else {
                out.push(format!("{}}} else if sk_nondet() {{", self.pad()));
            }
            out.extend(b);
        }
        out.push(format!("{}}}", self.pad()));
    }

    fn sub<F: FnOnce(&mut Self, &mut Vec<String>)>(&mut self, f: F) -> Vec<String> {
        let mut v = vec![];
        self.ind += 1;
        f(self, &mut v);
        self.ind -= 1;
        v
    }

    pub fn expr(&mut self, e: &Expr, under_try: bool, out: &mut Vec<String>) {
        match e {
            Expr::Try(t) => {
                // a primitive directly under `?`
                let before = out.len();
                self.expr(&t.expr, true, out);
                let emitted_try = out.len() > before && out.last().map(|l| l.contains("?;")).unwrap_or(false);
                if !emitted_try {
                    out.push(format!("{}if sk_nondet() {{ {} }} // `?`", self.pad(), self.ret_early));
                }
            }
            Expr::MethodCall(m) => {
                self.expr(&m.receiver, false, out);
                for a in &m.args {
                    self.expr(a, false, out);
                }
                let name = m.method.to_string();
                let argtext = m.args.iter().map(|a| norm(&self.src(a.span()))).collect::<Vec<_>>().join(",");
                if let Some(p) = self.find_prim("method", &name, m.args.len(), &argtext) {
                    let args: Vec<&Expr> = m.args.iter().collect();
                    self.emit_prim(&p, &args, m.span(), under_try, out);
                }
            }
            Expr::Call(c) => {
                self.expr(&c.func, false, out);
                for a in &c.args {
                    self.expr(a, false, out);
                }
                if let Expr::Path(p) = &*c.func {
                    let pt = path_text(&p.path);
                    let argtext = c.args.iter().map(|a| norm(&self.src(a.span()))).collect::<Vec<_>>().join(",");
                    if let Some(pr) = self.find_prim("call", &pt, c.args.len(), &argtext) {
                        let args: Vec<&Expr> = c.args.iter().collect();
                        self.emit_prim(&pr, &args, c.span(), under_try, out);
                    }
                }
            }
            Expr::Field(f) => {
                self.expr(&f.base, false, out);
                if let Member::Named(id) = &f.member {
                    if let Some(p) = self.find_prim("field", &id.to_string(), 0, "") {
                        self.emit_prim(&p, &[], f.span(), under_try, out);
                    }
                }
            }
            Expr::Macro(m) => self.mac(&m.mac, out),
            Expr::If(i) => {
                self.expr(&i.cond, false, out);
                let t = self.sub(|s, v| s.block(&i.then_branch, v));
                let el = match &i.else_branch {
                    Some((_, eb)) => self.sub(|s, v| s.expr(eb, false, v)),
                    None => vec![],
                };
                // a condition over kept identifiers only is kept exactly
                match self.precise(&i.cond) {
                    Some(c) if !(t.is_empty() && el.is_empty()) => {
                        out.push(format!("{}if {} {{ // if (condition kept)", self.pad(), c));
                        out.extend(t);
                        out.push(format!("{}}} else {{", self.pad()));
                        out.extend(el);
                        out.push(format!("{}}}", self.pad()));
                    }
                    _ => self.branchy(vec![t, el], out, "if"),
                }
            }
            Expr::Match(m) => {
                self.expr(&m.expr, false, out);
                let mut brs = vec![];
                for arm in &m.arms {
                    let b = self.sub(|s, v| {
                        if let Some((_, g)) = &arm.guard {
                            s.expr(g, false, v);
                        }
                        s.expr(&arm.body, false, v);
                    });
                    brs.push(b);
                }
                if brs.len() == 1 {
                    brs.push(vec![]);
                }
                self.branchy(brs, out, "match");
            }
            Expr::Block(b) => self.block(&b.block, out),
            Expr::Unsafe(b) => self.block(&b.block, out),
            Expr::Paren(p) => self.expr(&p.expr, under_try, out),
            Expr::Group(p) => self.expr(&p.expr, under_try, out),
            Expr::Reference(r) => self.expr(&r.expr, false, out),
            Expr::Unary(u) => self.expr(&u.expr, false, out),
            Expr::Cast(c) => self.expr(&c.expr, false, out),
            Expr::Binary(b) => {
                self.expr(&b.left, false, out);
                if matches!(b.op, BinOp::And(_) | BinOp::Or(_)) {
                    let r = self.sub(|s, v| s.expr(&b.right, false, v));
                    self.branchy(vec![r, vec![]], out, "short-circuit operand");
                } else {
                    self.expr(&b.right, false, out);
                }
            }
            Expr::Index(i) => {
                self.expr(&i.expr, false, out);
                self.expr(&i.index, false, out);
            }
            Expr::Tuple(t) => {
                for x in &t.elems {
                    self.expr(x, false, out);
                }
            }
            Expr::Array(t) => {
                for x in &t.elems {
                    self.expr(x, false, out);
                }
            }
            Expr::Struct(s) => {
                for f in &s.fields {
                    self.expr(&f.expr, false, out);
                }
                if let Some(r) = &s.rest {
                    self.expr(r, false, out);
                }
            }
            Expr::Repeat(r) => {
                self.expr(&r.expr, false, out);
            }
            Expr::Let(l) => self.expr(&l.expr, false, out),
            Expr::Assign(a) => {
                self.expr(&a.right, false, out);
                self.expr(&a.left, false, out);
            }
            Expr::Range(r) => {
                if let Some(s) = &r.start {
                    self.expr(s, false, out);
                }
                if let Some(s) = &r.end {
                    self.expr(s, false, out);
                }
            }
            Expr::Return(r) => {
                if let Some(x) = &r.expr {
                    self.expr(x, false, out);
                }
                out.push(format!("{}{}", self.pad(), self.ret_early));
            }
            Expr::Break(b) => {
                if let Some(x) = &b.expr {
                    self.expr(x, false, out);
                }
                // leaving a loop early only removes paths of the over-approximating `while sk_nondet()`
            }
            Expr::Continue(_) => {}
            Expr::While(w) => {
                self.expr(&w.cond, false, out);
                let b = self.sub(|s, v| {
                    s.block(&w.body, v);
                    s.expr(&w.cond, false, v);
                });
                if !b.is_empty() {
                    out.push(format!("{}while sk_nondet() {{", self.pad()));
                    out.extend(b);
                    out.push(format!("{}}}", self.pad()));
                }
            }
            Expr::Loop(l) => {
                let b = self.sub(|s, v| s.block(&l.body, v));
                if !b.is_empty() {
                    out.push(format!("{}while sk_nondet() {{", self.pad()));
                    out.extend(b);
                    out.push(format!("{}}}", self.pad()));
                }
            }
            Expr::ForLoop(f) => {
                self.expr(&f.expr, false, out);
                let b = self.sub(|s, v| s.block(&f.body, v));
                if !b.is_empty() {
                    out.push(format!("{}while sk_nondet() {{", self.pad()));
                    out.extend(b);
                    out.push(format!("{}}}", self.pad()));
                }
            }
            Expr::Closure(c) => {
                // a closure body runs at an unknown later time, possibly never: its skeleton is a
                // separate function with no ambient facts (conservative)
                if self.has_events_expr(&c.body) {
                    let k = self.closures.len() + 1;
                    let cname = format!("{}_closure{}", self.name, k);
                    let saved_ind = self.ind;
                    self.ind = 1;
                    let mut body = vec![];
                    // reserve the slot first so nested closures get later ordinals
                    self.closures.push((cname.clone(), String::new()));
                    self.expr(&c.body, false, &mut body);
                    self.ind = saved_ind;
                    let idx = self.closures.iter().position(|(n, _)| *n == cname).unwrap();
                    self.closures[idx].1 = body.join("\n");
                    out.push(format!("{}// closure at {}:{} -> fn {}", self.pad(), self.sf.path, self.line(c.span()), cname));
                }
            }
            Expr::Path(_) | Expr::Lit(_) | Expr::Infer(_) | Expr::Verbatim(_) => {}
            Expr::Async(_) | Expr::Await(_) | Expr::Const(_) | Expr::TryBlock(_) | Expr::Yield(_) => {
                self.unsupported.push(format!("line {}: expression form outside R-skel", self.line(e.span())));
            }
            _ => {}
        }
    }
}

/// Build the skeleton function(s) for a selected body.
pub fn build(sf: &SourceFile, cfg: &Value, name: &str, body: SkBody) -> (String, Vec<Value>, Vec<String>) {
    let mut sk = Skel::new(sf, cfg, name);
    let mut out = vec![];
    match body {
        SkBody::Block(b) => sk.block(b, &mut out),
        SkBody::Expr(e) => sk.expr(e, false, &mut out),
    }
    let header = cfg["header"].as_str().map(|s| s.to_string()).unwrap_or_else(|| format!("fn {}() -> (r: Result<(), Viol>)", name));
    let closure_header = cfg["closure_header"].as_str().unwrap_or("fn {name}() -> (r: Result<(), Viol>)").to_string();
    let tail = cfg["tail"].as_str().unwrap_or("Ok(())").to_string();
    let attr = cfg["attr"].as_str().unwrap_or("#[verifier::loop_isolation(false)]\n#[verifier::exec_allows_no_decreases_clause]");
    let mut text = String::new();
    text.push_str(&format!("{}\n{}\n{{\n", attr, header.trim()));
    if cfg["canary"].as_bool().unwrap_or(false) {
        text.push_str("    assert(false); /* vx canary */\n");
    }
    text.push_str(&out.join("\n"));
    text.push_str(&format!("\n    {}\n}}\n", tail));
    for (cname, cbody) in &sk.closures {
        text.push_str(&format!("{}\n{}\n{{\n", attr, closure_header.replace("{name}", cname)));
        if cfg["canary"].as_bool().unwrap_or(false) {
            text.push_str("    assert(false); /* vx canary */\n");
        }
        text.push_str(cbody);
        text.push_str(&format!("\n    {}\n}}\n", tail));
    }
    (text, sk.events, sk.unsupported)
}

pub enum SkBody<'a> {
    Block(&'a Block),
    Expr(&'a Expr),
}
