//! Skeleton mode (R-skel) -- see DESIGN.md 2.1.
