//! Path-based selection of source items and item-level operations (contract attachment by
//! header substitution, ghost insertions keyed by loop / statement ordinal, wrapping of arm and
//! closure bodies into functions whose header comes from the unit file).

use crate::render::{self, Piece};
use crate::rewrite::{Config, Rewriter};
use crate::{norm, SourceFile};
use serde_json::{json, Value};
use syn::spanned::Spanned;
use syn::visit::{self, Visit};
use syn::*;

pub type XErr = (&'static str, String);

#[derive(Clone)]
pub enum Cur<'a> {
    File(&'a File),
    Mod(&'a ItemMod),
    Impl(&'a ItemImpl),
    ItemFn(&'a ItemFn),
    ImplFn(&'a ImplItemFn),
    Item(&'a Item),
    Arm(&'a Arm),
    Closure(&'a ExprClosure),
    Expr(&'a Expr),
    Exprs(&'a [Expr]),
    /// consecutive statements of one block
    Stmts(&'a [Stmt]),
}

#[derive(Default)]
pub struct Coll<'ast> {
    pub fns: Vec<&'ast ItemFn>,
    pub arms: Vec<&'ast Arm>,
    pub closures: Vec<&'ast ExprClosure>,
    pub macros: Vec<&'ast Macro>,
    pub locals: Vec<&'ast Local>,
    pub loops: Vec<&'ast Expr>,
    pub stmts: Vec<&'ast Stmt>,
    pub fields: Vec<&'ast FieldValue>,
    pub ifs: Vec<&'ast ExprIf>,
    pub calls: Vec<&'ast ExprCall>,
    pub mcalls: Vec<&'ast ExprMethodCall>,
    pub matches: Vec<&'ast ExprMatch>,
    pub depth_fn: usize,
}

impl<'ast> Visit<'ast> for Coll<'ast> {
    fn visit_item_fn(&mut self, f: &'ast ItemFn) {
        self.fns.push(f);
        // do not descend: nested fn bodies are separate anchors
    }
    fn visit_arm(&mut self, a: &'ast Arm) {
        self.arms.push(a);
        visit::visit_arm(self, a);
    }
    fn visit_expr_match(&mut self, m: &'ast ExprMatch) {
        self.matches.push(m);
        visit::visit_expr_match(self, m);
    }
    fn visit_expr_closure(&mut self, c: &'ast ExprClosure) {
        self.closures.push(c);
        visit::visit_expr_closure(self, c);
    }
    fn visit_macro(&mut self, m: &'ast Macro) {
        self.macros.push(m);
    }
    fn visit_local(&mut self, l: &'ast Local) {
        self.locals.push(l);
        visit::visit_local(self, l);
    }
    fn visit_stmt(&mut self, s: &'ast Stmt) {
        self.stmts.push(s);
        visit::visit_stmt(self, s);
    }
    fn visit_expr(&mut self, e: &'ast Expr) {
        if matches!(e, Expr::While(_) | Expr::Loop(_) | Expr::ForLoop(_)) {
            self.loops.push(e);
        }
        if let Expr::If(i) = e {
            self.ifs.push(i);
        }
        visit::visit_expr(self, e);
    }
    fn visit_expr_call(&mut self, c: &'ast ExprCall) {
        self.calls.push(c);
        visit::visit_expr_call(self, c);
    }
    fn visit_expr_method_call(&mut self, c: &'ast ExprMethodCall) {
        self.mcalls.push(c);
        visit::visit_expr_method_call(self, c);
    }
    fn visit_field_value(&mut self, f: &'ast FieldValue) {
        self.fields.push(f);
        visit::visit_field_value(self, f);
    }
}

pub fn collect<'a>(cur: &Cur<'a>) -> Coll<'a> {
    let mut c = Coll::default();
    match cur {
        Cur::File(f) => {
            for it in &f.items {
                c.visit_item(it)
            }
        }
        Cur::Mod(m) => {
            if let Some((_, items)) = &m.content {
                for it in items {
                    c.visit_item(it)
                }
            }
        }
        Cur::Impl(i) => visit::visit_item_impl(&mut c, i),
        Cur::ItemFn(f) => visit::visit_item_fn(&mut c, f),
        Cur::ImplFn(f) => visit::visit_impl_item_fn(&mut c, f),
        Cur::Item(i) => visit::visit_item(&mut c, i),
        Cur::Arm(a) => visit::visit_arm(&mut c, a),
        Cur::Closure(cl) => visit::visit_expr_closure(&mut c, cl),
        Cur::Expr(e) => c.visit_expr(e),
        Cur::Exprs(es) => {
            for e in es.iter() {
                c.visit_expr(e)
            }
        }
        Cur::Stmts(ss) => {
            for st in ss.iter() {
                c.visit_stmt(st)
            }
        }
    }
    c
}

fn impl_header(sf: &SourceFile, i: &ItemImpl) -> String {
    let s = sf.off(i.impl_token.span.start());
    let e = sf.off(i.brace_token.span.open().start());
    norm(&sf.text[s..e])
}

fn split_ord(seg: &str) -> (String, usize) {
    if let Some(p) = seg.rfind('#') {
        if let Ok(k) = seg[p + 1..].trim().parse::<usize>() {
            return (seg[..p].trim().to_string(), k);
        }
    }
    (seg.trim().to_string(), 1)
}

pub fn resolve<'a>(sf: &'a SourceFile, path: &str) -> std::result::Result<Cur<'a>, XErr> {
    let mut cur = Cur::File(&sf.ast);
    for seg in path.split(" :: ") {
        let seg = seg.trim();
        let lost = |what: &str| -> XErr {
            (
                "lost-anchor",
                format!("{}: segment `{}` of `{}` not found ({})", sf.path, seg, path, what),
            )
        };
        if let Some(h) = seg.strip_prefix("impl") {
            let want = norm(&format!("impl{}", h));
            let items: &[Item] = match &cur {
                Cur::File(f) => &f.items,
                Cur::Mod(m) => m.content.as_ref().map(|c| &c.1[..]).unwrap_or(&[]),
                _ => return Err(lost("impl inside non-module")),
            };
            let mut found = None;
            for it in items {
                if let Item::Impl(i) = it {
                    if impl_header(sf, i) == want {
                        found = Some(i);
                        break;
                    }
                }
            }
            cur = Cur::Impl(found.ok_or_else(|| lost("no impl with this header"))?);
        } else if let Some(n) = seg.strip_prefix("fn ") {
            let (name, k) = split_ord(n);
            match &cur {
                Cur::Impl(i) => {
                    let mut c = 0;
                    let mut found = None;
                    for ii in &i.items {
                        if let ImplItem::Fn(f) = ii {
                            if f.sig.ident == name {
                                c += 1;
                                if c == k {
                                    found = Some(f);
                                }
                            }
                        }
                    }
                    cur = Cur::ImplFn(found.ok_or_else(|| lost("no such method"))?);
                }
                other => {
                    let coll = collect(other);
                    let f = coll
                        .fns
                        .iter()
                        .filter(|f| f.sig.ident == name)
                        .nth(k - 1)
                        .ok_or_else(|| lost("no such fn"))?;
                    cur = Cur::ItemFn(f);
                }
            }
        } else if let Some(n) = seg.strip_prefix("mod ") {
            let items: &[Item] = match &cur {
                Cur::File(f) => &f.items,
                Cur::Mod(m) => m.content.as_ref().map(|c| &c.1[..]).unwrap_or(&[]),
                _ => return Err(lost("mod inside non-module")),
            };
            let mut found = None;
            for it in items {
                if let Item::Mod(m) = it {
                    if m.ident == n.trim() {
                        found = Some(m);
                    }
                }
            }
            cur = Cur::Mod(found.ok_or_else(|| lost("no such mod"))?);
        } else if ["enum ", "struct ", "type ", "const ", "trait ", "static "]
            .iter()
            .any(|p| seg.starts_with(p))
        {
            let (kw, name) = seg.split_once(' ').unwrap();
            let body_items: Vec<&Item>;
            let items: Vec<&Item> = match &cur {
                Cur::File(f) => f.items.iter().collect(),
                Cur::Mod(m) => m.content.as_ref().map(|c| c.1.iter().collect()).unwrap_or_default(),
                Cur::ItemFn(f) => {
                    body_items = f.block.stmts.iter().filter_map(|s| if let Stmt::Item(i) = s { Some(i) } else { None }).collect();
                    body_items
                }
                Cur::ImplFn(f) => {
                    body_items = f.block.stmts.iter().filter_map(|s| if let Stmt::Item(i) = s { Some(i) } else { None }).collect();
                    body_items
                }
                _ => return Err(lost("item inside non-module")),
            };
            let mut found = None;
            for it in items {
                let ok = match (kw, it) {
                    ("enum", Item::Enum(e)) => e.ident == name.trim(),
                    ("struct", Item::Struct(e)) => e.ident == name.trim(),
                    ("type", Item::Type(e)) => e.ident == name.trim(),
                    ("const", Item::Const(e)) => e.ident == name.trim(),
                    ("trait", Item::Trait(e)) => e.ident == name.trim(),
                    ("static", Item::Static(e)) => e.ident == name.trim(),
                    _ => false,
                };
                if ok {
                    found = Some(it);
                    break;
                }
            }
            cur = Cur::Item(found.ok_or_else(|| lost("no such item"))?);
        } else if let Some(p) = seg.strip_prefix("arm ") {
            let (pat, k) = split_ord(p);
            let want = norm(&pat);
            let coll = collect(&cur);
            let a = coll
                .arms
                .iter()
                .filter(|a| norm(sf.slice(sf.range(a.pat.span()))).starts_with(&want))
                .nth(k - 1)
                .ok_or_else(|| lost("no such match arm"))?;
            cur = Cur::Arm(a);
        } else if let Some(pp) = seg.strip_prefix("armguard ") {
            let (pat, k) = split_ord(pp);
            let want = norm(&pat);
            let coll = collect(&cur);
            let a = coll
                .arms
                .iter()
                .filter(|a| norm(sf.slice(sf.range(a.pat.span()))).starts_with(&want))
                .nth(k - 1)
                .ok_or_else(|| lost("no such match arm"))?;
            let g = a.guard.as_ref().ok_or_else(|| lost("arm has no guard"))?;
            cur = Cur::Expr(&g.1);
        } else if let Some(pn) = seg.strip_prefix("closure/") {
            // the k-th closure with exactly N parameters
            let (nstr, k) = split_ord(pn);
            let n: usize = nstr.trim().parse().map_err(|_| lost("bad parameter count"))?;
            let coll = collect(&cur);
            let c = coll
                .closures
                .iter()
                .filter(|c| c.inputs.len() == n)
                .nth(k - 1)
                .ok_or_else(|| lost("no closure with that many parameters"))?;
            cur = Cur::Closure(c);
        } else if let Some(pn) = seg.strip_prefix("closure@") {
            // the k-th closure that has a parameter with the given name
            let (pname, k) = split_ord(pn);
            let coll = collect(&cur);
            let c = coll
                .closures
                .iter()
                .filter(|c| c.inputs.iter().any(|p| match p {
                    Pat::Ident(pi) => pi.ident == pname,
                    Pat::Type(pt) => matches!(&*pt.pat, Pat::Ident(pi) if pi.ident == pname),
                    _ => false,
                }))
                .nth(k - 1)
                .ok_or_else(|| lost("no closure with such a parameter"))?;
            cur = Cur::Closure(c);
        } else if seg.starts_with("closure") {
            let (_, k) = split_ord(seg);
            let coll = collect(&cur);
            let c = coll.closures.get(k - 1).ok_or_else(|| lost("no such closure"))?;
            cur = Cur::Closure(c);
        } else if let Some(n) = seg.strip_prefix("macro ") {
            let (name_raw, k) = split_ord(n);
            // `macro NAME@FIRST` selects the invocation whose first token is FIRST
            let (name, first) = match name_raw.split_once('@') {
                Some((a, b)) => (a.trim().to_string(), Some(b.trim().to_string())),
                None => (name_raw.clone(), None),
            };
            let coll = collect(&cur);
            let m = coll
                .macros
                .iter()
                .filter(|m| m.path.segments.last().map(|s| s.ident == name).unwrap_or(false))
                .filter(|m| match &first {
                    Some(f) => m.tokens.clone().into_iter().next().map(|t| t.to_string() == *f).unwrap_or(false),
                    None => true,
                })
                .nth(k - 1)
                .ok_or_else(|| lost("no such macro invocation"))?;
            let v: Vec<Expr> = crate::macro_args(m);
            let leaked: &'static [Expr] = Box::leak(v.into_boxed_slice());
            cur = Cur::Exprs(leaked);
        } else if let Some(n) = seg.strip_prefix("let ") {
            let (name, k) = split_ord(n);
            let coll = collect(&cur);
            let l = coll
                .locals
                .iter()
                .filter(|l| match &l.pat {
                    Pat::Ident(pi) => pi.ident == name,
                    Pat::Type(pt) => matches!(&*pt.pat, Pat::Ident(pi) if pi.ident == name),
                    _ => false,
                })
                .nth(k - 1)
                .ok_or_else(|| lost("no such let"))?;
            let init = l.init.as_ref().ok_or_else(|| lost("let without initialiser"))?;
            cur = Cur::Expr(&init.expr);
        } else if let Some(n) = seg.strip_prefix("stmts ") {
            // `stmts A .. B`: the consecutive statements of one block from the first statement whose
            // normalized text starts with A through the first following one that starts with B
            let (a, b) = n.split_once(" .. ").ok_or_else(|| lost("stmts needs `A .. B`"))?;
            let (wa, wb) = (norm(a), norm(b));
            struct F<'x> {
                sf: &'x SourceFile,
                wa: String,
                wb: String,
                hit: Option<&'x [Stmt]>,
            }
            impl<'x> Visit<'x> for F<'x> {
                fn visit_block(&mut self, blk: &'x Block) {
                    if self.hit.is_none() {
                        let texts: Vec<String> = blk.stmts.iter().map(|s| norm(self.sf.slice(self.sf.range(s.span())))).collect();
                        if let Some(i) = texts.iter().position(|t| t.starts_with(&self.wa)) {
                            if self.wb == "$" || self.wb == "$$" {
                                // `A .. $`: through the last statement before the block's tail expression;
                                // `A .. $$`: through the tail expression
                                let mut end = blk.stmts.len();
                                if let (Some(Stmt::Expr(_, None)), true) = (blk.stmts.last(), self.wb == "$") {
                                    end -= 1;
                                }
                                if end > i {
                                    self.hit = Some(&blk.stmts[i..end]);
                                    return;
                                }
                            } else if let Some(j) = texts.iter().skip(i).position(|t| t.starts_with(&self.wb)) {
                                self.hit = Some(&blk.stmts[i..=i + j]);
                                return;
                            }
                        }
                    }
                    visit::visit_block(self, blk);
                }
            }
            let mut f = F { sf, wa, wb, hit: None };
            match &cur {
                Cur::Arm(a) => f.visit_expr(&a.body),
                Cur::ItemFn(x) => f.visit_block(&x.block),
                Cur::ImplFn(x) => f.visit_block(&x.block),
                Cur::Closure(c) => f.visit_expr(&c.body),
                Cur::Expr(e) => f.visit_expr(e),
                _ => {}
            }
            cur = Cur::Stmts(f.hit.ok_or_else(|| lost("no such statement range"))?);
        } else if let Some(n) = seg.strip_prefix("loop#") {
            let k: usize = n.trim().parse().map_err(|_| lost("bad loop ordinal"))?;
            let coll = collect(&cur);
            let l = coll.loops.get(k - 1).ok_or_else(|| lost("no such loop"))?;
            cur = Cur::Expr(l);
        } else if let Some(n) = seg.strip_prefix("macrodef ") {
            let items: &[Item] = match &cur {
                Cur::File(f) => &f.items,
                _ => return Err(lost("macrodef outside file")),
            };
            let mut found = None;
            for it in items {
                if let Item::Macro(m) = it {
                    if m.ident.as_ref().map(|i| i == n.trim()).unwrap_or(false) {
                        found = Some(it);
                    }
                }
            }
            cur = Cur::Item(found.ok_or_else(|| lost("no such macro_rules definition"))?);
        } else if let Some(n) = seg.strip_prefix("blocktail-after-let ") {
            // the tail expression of the block that declares `let NAME`
            let name = n.trim().to_string();
            struct F<'x> {
                name: String,
                hit: Option<&'x Expr>,
            }
            impl<'x> Visit<'x> for F<'x> {
                fn visit_block(&mut self, b: &'x Block) {
                    if self.hit.is_none() {
                        let declares = b.stmts.iter().any(|s| match s {
                            Stmt::Local(l) => match &l.pat {
                                Pat::Ident(pi) => pi.ident == self.name,
                                Pat::Type(pt) => matches!(&*pt.pat, Pat::Ident(pi) if pi.ident == self.name),
                                _ => false,
                            },
                            _ => false,
                        });
                        if declares {
                            if let Some(Stmt::Expr(e, None)) = b.stmts.last() {
                                self.hit = Some(e);
                                return;
                            }
                        }
                    }
                    visit::visit_block(self, b);
                }
            }
            let mut f = F { name, hit: None };
            match &cur {
                Cur::Arm(a) => f.visit_expr(&a.body),
                Cur::ItemFn(x) => f.visit_block(&x.block),
                Cur::ImplFn(x) => f.visit_block(&x.block),
                Cur::Closure(c) => f.visit_expr(&c.body),
                Cur::Expr(e) => f.visit_expr(e),
                _ => {}
            }
            cur = Cur::Expr(f.hit.ok_or_else(|| lost("no block with such a let and a tail expression"))?);
        } else if let Some(n) = seg.strip_prefix("stmts-after-let ") {
            // every statement that follows `let NAME = ..` in the block that declares it, through the end of that block
            // (an anchor by structure: statements inserted or rewritten after the `let` stay inside the selection)
            let name = n.trim().to_string();
            struct G<'x> {
                name: String,
                hit: Option<&'x [Stmt]>,
            }
            impl<'x> Visit<'x> for G<'x> {
                fn visit_block(&mut self, b: &'x Block) {
                    if self.hit.is_none() {
                        let pos = b.stmts.iter().position(|s| match s {
                            Stmt::Local(l) => match &l.pat {
                                Pat::Ident(pi) => pi.ident == self.name,
                                Pat::Type(pt) => matches!(&*pt.pat, Pat::Ident(pi) if pi.ident == self.name),
                                // `let Some(NAME) = .. else { .. };`
                                Pat::TupleStruct(ts) => ts.elems.len() == 1 && matches!(&ts.elems[0], Pat::Ident(pi) if pi.ident == self.name),
                                _ => false,
                            },
                            _ => false,
                        });
                        if let Some(i) = pos {
                            if i + 1 < b.stmts.len() {
                                self.hit = Some(&b.stmts[i + 1..]);
                                return;
                            }
                        }
                    }
                    visit::visit_block(self, b);
                }
            }
            let mut g = G { name, hit: None };
            match &cur {
                Cur::Arm(a) => g.visit_expr(&a.body),
                Cur::ItemFn(x) => g.visit_block(&x.block),
                Cur::ImplFn(x) => g.visit_block(&x.block),
                Cur::Closure(c) => g.visit_expr(&c.body),
                Cur::Expr(e) => g.visit_expr(e),
                _ => {}
            }
            cur = Cur::Stmts(g.hit.ok_or_else(|| lost("no block with such a let followed by statements"))?);
        } else if let Some(n) = seg.strip_prefix("scrutinee#") {
            let k: usize = n.trim().parse().map_err(|_| lost("bad ordinal"))?;
            let coll = collect(&cur);
            let m = coll.matches.get(k - 1).ok_or_else(|| lost("no such match"))?;
            cur = Cur::Expr(&m.expr);
        } else if seg == "body" {
            // the statements (through the tail expression) of a function body
            let blk: &Block = match &cur {
                Cur::ItemFn(x) => &x.block,
                Cur::ImplFn(x) => &x.block,
                _ => return Err(lost("body outside fn")),
            };
            cur = match blk.stmts.as_slice() {
                [Stmt::Expr(e, None)] => Cur::Expr(e),
                st => Cur::Stmts(st),
            };
        } else if let Some(n) = seg.strip_prefix("mcall ") {
            // the argument list of the k-th method call with the given method name
            let (name, k) = split_ord(n);
            let coll = collect(&cur);
            let c = coll
                .mcalls
                .iter()
                .filter(|c| c.method == name)
                .nth(k - 1)
                .ok_or_else(|| lost("no such method call"))?;
            let v: Vec<Expr> = c.args.iter().cloned().collect();
            let leaked: &'static [Expr] = Box::leak(v.into_boxed_slice());
            cur = Cur::Exprs(leaked);
        } else if let Some(n) = seg.strip_prefix("call ") {
            // the argument list of the k-th call whose callee path ends with the given text
            let (pfx, k) = split_ord(n);
            let want = norm(&pfx);
            let coll = collect(&cur);
            let c = coll
                .calls
                .iter()
                .filter(|c| norm(sf.slice(sf.range(c.func.span()))).ends_with(&want))
                .nth(k - 1)
                .ok_or_else(|| lost("no such call"))?;
            let v: Vec<Expr> = c.args.iter().cloned().collect();
            let leaked: &'static [Expr] = Box::leak(v.into_boxed_slice());
            cur = Cur::Exprs(leaked);
        } else if let Some(n) = seg.strip_prefix("field ") {
            let (name, k) = split_ord(n);
            let coll = collect(&cur);
            let f = coll
                .fields
                .iter()
                .filter(|f| matches!(&f.member, Member::Named(id) if *id == name))
                .nth(k - 1)
                .ok_or_else(|| lost("no such struct-literal field"))?;
            cur = Cur::Expr(&f.expr);
        } else if let Some(n) = seg.strip_prefix("ifexpr ") {
            // the whole k-th `if` expression whose normalized source starts with the given text
            let (pfx, k) = split_ord(n);
            let want = norm(&pfx);
            let coll = collect(&cur);
            let found = coll
                .ifs
                .iter()
                .filter(|i| norm(sf.slice(sf.range(i.span()))).starts_with(&want))
                .nth(k - 1)
                .ok_or_else(|| lost("no such if expression"))?;
            // ExprIf is not an Expr: find the enclosing Expr::If by span
            struct F<'x> {
                want: (usize, usize),
                sf: &'x SourceFile,
                hit: Option<&'x Expr>,
            }
            impl<'x> Visit<'x> for F<'x> {
                fn visit_expr(&mut self, e: &'x Expr) {
                    if let Expr::If(_) = e {
                        if self.sf.range(e.span()) == self.want && self.hit.is_none() {
                            self.hit = Some(e);
                        }
                    }
                    visit::visit_expr(self, e);
                }
            }
            let mut f = F { want: sf.range(found.span()), sf, hit: None };
            match &cur {
                Cur::Arm(a) => f.visit_expr(&a.body),
                Cur::ItemFn(x) => f.visit_block(&x.block),
                Cur::ImplFn(x) => f.visit_block(&x.block),
                Cur::Closure(c) => f.visit_expr(&c.body),
                Cur::Expr(e) => f.visit_expr(e),
                _ => {}
            }
            cur = Cur::Expr(f.hit.ok_or_else(|| lost("if expression not reachable"))?);
        } else if let Some(n) = seg.strip_prefix("ifcond ") {
            // condition of the k-th `if` whose normalized condition starts with the given text
            let (pfx, k) = split_ord(n);
            let want = norm(&pfx);
            let coll = collect(&cur);
            let i = coll
                .ifs
                .iter()
                .filter(|i| norm(sf.slice(sf.range(i.cond.span()))).starts_with(&want))
                .nth(k - 1)
                .ok_or_else(|| lost("no such if"))?;
            cur = Cur::Expr(&i.cond);
        } else if let Some(n) = seg.strip_prefix("arg#") {
            let k: usize = n.trim().parse().map_err(|_| lost("bad arg ordinal"))?;
            match &cur {
                Cur::Exprs(es) => {
                    cur = Cur::Expr(es.get(k - 1).ok_or_else(|| lost("no such macro argument"))?)
                }
                _ => return Err(lost("arg# outside macro")),
            }
        } else {
            return Err(("unsupported", format!("unknown path segment `{}`", seg)));
        }
    }
    Ok(cur)
}

fn find_stmt<'a>(sf: &SourceFile, coll: &Coll<'a>, spec: &str) -> Option<&'a Stmt> {
    let (pfx, k) = split_ord(spec);
    let want = norm(&pfx);
    coll.stmts
        .iter()
        .filter(|s| norm(sf.slice(sf.range(s.span()))).starts_with(&want))
        .nth(k - 1)
        .copied()
}

fn attach_spec(
    sf: &SourceFile,
    rw: &mut Rewriter,
    sig: &Signature,
    block: &Block,
    spec: &str,
    ret_name: &str,
) {
    if let ReturnType::Type(_, t) = &sig.output {
        let r = sf.range(t.span());
        rw.edits.replace(
            r,
            vec![
                Piece::Lit(format!("({}: ", ret_name)),
                Piece::Src(r.0, r.1),
                Piece::Lit(")".into()),
            ],
            "contract:ret-name",
        );
    }
    let at = sf.off(block.brace_token.span.open().start());
    rw.edits
        .insert(at, format!("\n    {}\n    ", spec.trim()), "contract:spec");
}

/// the `loop` expression in tail position of an expression, if any
fn tail_loop_of(sf: &SourceFile, e: &Expr) -> Option<(usize, usize)> {
    match e {
        Expr::Loop(l) => Some(sf.range(l.span())),
        Expr::Block(b) => match b.block.stmts.last() {
            Some(Stmt::Expr(x, None)) => tail_loop_of(sf, x),
            _ => None,
        },
        Expr::Paren(p) => tail_loop_of(sf, &p.expr),
        _ => None,
    }
}

fn canary(sf: &SourceFile, rw: &mut Rewriter, block: &Block) {
    let p = sf.off(block.brace_token.span.open().end());
    rw.edits.insert(p, " assert(false); /* vx canary */ ".to_string(), "canary");
}

pub fn extract_item(sf: &SourceFile, it: &Value, cfg: &Config) -> std::result::Result<Value, XErr> {
    let want_canary = it["canary"].as_bool().unwrap_or(false);
    let id = it["id"].as_str().unwrap_or("?");
    let path = it["select"].as_str().ok_or(("unsupported", "missing select".to_string()))?;
    let cur = resolve(sf, path)?;
    let mut rw = Rewriter::new(sf, cfg);
    let ret_name = it["ret_name"].as_str().unwrap_or("r");
    let specs = it["specs"].as_object();
    let mut spec_used: Vec<String> = vec![];
    let mut fns_out: Vec<String> = vec![];

    // extra declared identifiers (for wrap mode): name -> {prim, is_ref}
    if let Some(decl) = it["declare"].as_object() {
        for (k, v) in decl {
            let kind = crate::rewrite::Kind {
                prim: v["prim"].as_bool().unwrap_or(true),
                is_ref: v["ref"].as_bool().unwrap_or(false),
            };
            rw.declare(k, kind);
            if v["force"].as_bool().unwrap_or(false) {
                rw.forced.insert(k.clone(), kind);
            }
        }
    }

    if it["skel"].is_object() {
        // ---------------- R-skel: skeleton instead of verbatim text
        let mut cfg = it["skel"].clone();
        if want_canary {
            cfg["canary"] = json!(true);
        }
        let name = cfg["name"].as_str().unwrap_or(id).to_string();
        let (body, span) = match &cur {
            Cur::Closure(c) => (crate::skel::SkBody::Expr(&c.body), c.span()),
            Cur::ItemFn(f) => (crate::skel::SkBody::Block(&f.block), f.span()),
            Cur::ImplFn(f) => (crate::skel::SkBody::Block(&f.block), f.span()),
            Cur::Arm(a) => (crate::skel::SkBody::Expr(&a.body), a.span()),
            Cur::Expr(e) => (crate::skel::SkBody::Expr(e), e.span()),
            _ => return Err(("unsupported", format!("`{}` does not select a body for a skeleton", path))),
        };
        let (text, events, unsupported) = crate::skel::build(sf, &cfg, &name, body);
        if !unsupported.is_empty() {
            return Err(("unsupported", unsupported.join("; ")));
        }
        let min_events = cfg["min_events"].as_u64().unwrap_or(1) as usize;
        if events.len() < min_events {
            return Err((
                "lost-anchor",
                format!("{}: skeleton of `{}` keeps {} primitive occurrence(s), expected at least {}", sf.path, path, events.len(), min_events),
            ));
        }
        let r = sf.range(span);
        let nlines = text.matches('\n').count() + 1;
        return Ok(json!({
            "id": id, "file": sf.path, "select": path,
            "src_lines": [sf.line_of(r.0), sf.line_of(r.1.saturating_sub(1))],
            "src_text_sha": format!("{:x}", fxhash(sf.slice(r))),
            "text": text, "line_map": vec![0usize; nlines], "fns": [name],
            "rewrites": [{"rule": "R-skel", "line": sf.line_of(r.0), "from": format!("{} primitive occurrence(s) kept, all other computation dropped", events.len())}],
            "events": events,
        }));
    }

    let range: (usize, usize);
    let mut wrap_needed = false;
    match &cur {
        Cur::Impl(i) => {
            range = sf.range(i.span());
            rw.set_impl_self_ref(matches!(&*i.self_ty, Type::Reference(_)));
            for a in &i.attrs {
                rw.visit_attribute(a);
            }
            let keep: Option<Vec<String>> = it["methods"].as_array().map(|a| {
                a.iter().filter_map(|x| x.as_str().map(|s| s.to_string())).collect()
            });
            if let Some(h) = it["header"].as_str() {
                let s = sf.off(i.impl_token.span.start());
                let e = sf.off(i.brace_token.span.open().start());
                rw.edits
                    .replace((s, e), vec![Piece::Lit(format!("{} ", h))], "R-self:header");
            }
            let mut seen: Vec<String> = vec![];
            for ii in &i.items {
                match ii {
                    ImplItem::Fn(f) => {
                        let name = f.sig.ident.to_string();
                        if keep.as_ref().map(|k| !k.contains(&name)).unwrap_or(false) {
                            rw.edits.delete(sf.range(ii.span()), "select:method-not-listed");
                            continue;
                        }
                        seen.push(name.clone());
                        fns_out.push(name.clone());
                        if let Some(sp) = specs.and_then(|s| s.get(&name)).and_then(|v| v.as_str()) {
                            attach_spec(sf, &mut rw, &f.sig, &f.block, sp, ret_name);
                            spec_used.push(name.clone());
                        }
                        if let Some(new) = it["rename_fn"][&name].as_str() {
                            rw.edits.replace(
                                sf.range(f.sig.ident.span()),
                                vec![Piece::Lit(new.to_string())],
                                "R-self:rename",
                            );
                        }
                        if want_canary {
                            canary(sf, &mut rw, &f.block);
                        }
                        rw.visit_impl_item_fn(f);
                    }
                    ImplItem::Type(_) if it["drop_assoc_types"].as_bool().unwrap_or(false) => {
                        rw.edits.delete(sf.range(ii.span()), "R-self:assoc-type");
                    }
                    _ => {}
                }
            }
            if let Some(k) = &keep {
                for want in k {
                    if !seen.contains(want) {
                        return Err((
                            "lost-anchor",
                            format!("{}: method `{}` not found in `{}`", sf.path, want, path),
                        ));
                    }
                }
            }
        }
        Cur::ItemFn(f) => {
            range = sf.range(f.span());
            let name = f.sig.ident.to_string();
            fns_out.push(name.clone());
            if let Some(sp) = specs.and_then(|s| s.get(&name)).and_then(|v| v.as_str()) {
                attach_spec(sf, &mut rw, &f.sig, &f.block, sp, ret_name);
                spec_used.push(name.clone());
            }
            if let Some(new) = it["rename_fn"][&name].as_str() {
                rw.edits.replace(
                    sf.range(f.sig.ident.span()),
                    vec![Piece::Lit(new.to_string())],
                    "R-self:rename",
                );
            }
            if want_canary {
                canary(sf, &mut rw, &f.block);
            }
            rw.visit_item_fn(f);
        }
        Cur::ImplFn(f) => {
            range = sf.range(f.span());
            let name = f.sig.ident.to_string();
            fns_out.push(name.clone());
            if let Some(sp) = specs.and_then(|s| s.get(&name)).and_then(|v| v.as_str()) {
                attach_spec(sf, &mut rw, &f.sig, &f.block, sp, ret_name);
                spec_used.push(name.clone());
            }
            if let Some(new) = it["rename_fn"][&name].as_str() {
                rw.edits.replace(
                    sf.range(f.sig.ident.span()),
                    vec![Piece::Lit(new.to_string())],
                    "R-self:rename",
                );
            }
            if let Some(sr) = it["self_ref"].as_bool() {
                rw.set_impl_self_ref(sr);
            }
            if want_canary {
                canary(sf, &mut rw, &f.block);
            }
            rw.visit_impl_item_fn(f);
        }
        Cur::Item(i) => {
            range = sf.range(i.span());
            rw.visit_item(i);
        }
        Cur::Arm(a) => {
            range = sf.range(a.body.span());
            wrap_needed = true;
            rw.tail_loop = tail_loop_of(sf, &a.body);
            rw.visit_expr(&a.body);
        }
        Cur::Closure(c) => {
            range = sf.range(c.body.span());
            wrap_needed = true;
            rw.visit_expr(&c.body);
        }
        Cur::Expr(e) => {
            range = sf.range(e.span());
            wrap_needed = true;
            rw.visit_expr(e);
        }
        Cur::Stmts(ss) => {
            let first = ss.first().ok_or(("lost-anchor", "empty statement range".to_string()))?;
            let last = ss.last().unwrap();
            range = (sf.range(first.span()).0, sf.range(last.span()).1);
            wrap_needed = true;
            // a statement range that ends in the block's tail expression: a `loop` there is the fragment's tail
            if it["wrap_tail"].is_null() {
                if let Some(Stmt::Expr(x, None)) = ss.last() {
                    rw.tail_loop = tail_loop_of(sf, x);
                }
            }
            for st in ss.iter() {
                rw.visit_stmt(st);
            }
        }
        _ => return Err(("unsupported", format!("`{}` does not select an extractable node", path))),
    }

    if let Some(s) = specs {
        for k in s.keys() {
            if !spec_used.contains(k) {
                return Err((
                    "lost-anchor",
                    format!("{}: contract given for `{}` but no such fn in `{}`", sf.path, k, path),
                ));
            }
        }
    }

    // type substitutions (R-self)
    if let Some(ts) = it["type_subst"].as_object() {
        struct TS<'x, 'y> {
            sf: &'x SourceFile,
            rw: &'x mut Rewriter<'y>,
            map: Vec<(String, String)>,
            range: (usize, usize),
        }
        impl<'x, 'y, 'ast> Visit<'ast> for TS<'x, 'y> {
            fn visit_type(&mut self, t: &'ast Type) {
                let r = self.sf.range(t.span());
                if r.0 >= self.range.0 && r.1 <= self.range.1 {
                    let n = norm(self.sf.slice(r));
                    for (k, v) in &self.map {
                        if &n == k {
                            self.rw.edits.replace(r, vec![Piece::Lit(v.clone())], "R-self:type");
                            return;
                        }
                    }
                }
                visit::visit_type(self, t);
            }
        }
        let map: Vec<(String, String)> = ts
            .iter()
            .map(|(k, v)| (norm(k), v.as_str().unwrap_or("").to_string()))
            .collect();
        let mut t = TS {
            sf,
            rw: &mut rw,
            map,
            range,
        };
        match &cur {
            Cur::Impl(i) => t.visit_item_impl(i),
            Cur::ItemFn(f) => t.visit_item_fn(f),
            Cur::ImplFn(f) => t.visit_impl_item_fn(f),
            Cur::Item(i) => t.visit_item(i),
            Cur::Arm(a) => t.visit_arm(a),
            Cur::Closure(c) => t.visit_expr_closure(c),
            Cur::Expr(e) => t.visit_expr(e),
            Cur::Exprs(es) => {
                for e in es.iter() {
                    t.visit_expr(e)
                }
            }
            Cur::Stmts(ss) => {
                for st in ss.iter() {
                    t.visit_stmt(st)
                }
            }
            _ => {}
        }
    }

    // ghost insertions
    if let Some(gs) = it["ghost"].as_array() {
        let coll = collect(&cur);
        for g in gs {
            let at = g["at"].as_str().unwrap_or("");
            let text = g["text"].as_str().unwrap_or("").to_string();
            let lost = |m: &str| -> XErr {
                ("lost-anchor", format!("{}: ghost anchor `{}` in `{}`: {}", sf.path, at, path, m))
            };
            if let Some((pos, k)) = at.strip_prefix("loop_body_start#").map(|k| (0, k)).or(at.strip_prefix("loop_body_end#").map(|k| (1, k))) {
                // the first / last position inside the body of the k-th loop (anchors that survive a restructured body)
                let k: usize = k.parse().map_err(|_| lost("bad ordinal"))?;
                let l = coll.loops.get(k - 1).ok_or_else(|| lost("no such loop"))?;
                let body = match l {
                    Expr::While(w) => &w.body,
                    Expr::Loop(w) => &w.body,
                    Expr::ForLoop(w) => &w.body,
                    _ => unreachable!(),
                };
                if pos == 0 {
                    rw.edits.insert(sf.off(body.brace_token.span.open().end()), format!("\n{}\n", text), "ghost:loop-body-start");
                } else {
                    // (after the last statement rather than at the brace: other rules insert at the brace itself)
                    let at_end = match body.stmts.last() {
                        Some(st) => sf.range(st.span()).1,
                        None => sf.off(body.brace_token.span.open().end()),
                    };
                    rw.edits.insert(at_end, format!("\n{}\n", text), "ghost:loop-body-end");
                }
            } else if let Some(k) = at.strip_prefix("loop#") {
                let k: usize = k.parse().map_err(|_| lost("bad ordinal"))?;
                let l = coll.loops.get(k - 1).ok_or_else(|| lost("no such loop"))?;
                let brace = match l {
                    Expr::While(w) => w.body.brace_token.span.open().start(),
                    Expr::Loop(w) => w.body.brace_token.span.open().start(),
                    Expr::ForLoop(w) => w.body.brace_token.span.open().start(),
                    _ => unreachable!(),
                };
                // optional guard: the loop header must still start with the recorded text
                if let Some(h) = g["header"].as_str() {
                    let hs = norm(sf.slice((sf.range(l.span()).0, sf.off(brace))));
                    if !hs.starts_with(&norm(h)) {
                        return Err(lost("loop header changed"));
                    }
                }
                rw.edits.insert(sf.off(brace), format!("\n{}\n", text), "ghost:loop-spec");
            } else if let Some(p) = at.strip_prefix("before:") {
                let s = find_stmt(sf, &coll, p).ok_or_else(|| lost("no such statement"))?;
                rw.edits.insert(sf.range(s.span()).0, format!("{}\n", text), "ghost:before");
            } else if let Some(p) = at.strip_prefix("after:") {
                let s = find_stmt(sf, &coll, p).ok_or_else(|| lost("no such statement"))?;
                rw.edits.insert(sf.range(s.span()).1, format!("\n{}", text), "ghost:after");
            } else if let Some(fname) = at.strip_prefix("body_start:") {
                let b = match &cur {
                    Cur::Impl(i) => i.items.iter().find_map(|ii| match ii {
                        ImplItem::Fn(f) if f.sig.ident == fname => Some(&f.block),
                        _ => None,
                    }),
                    _ => None,
                }
                .ok_or_else(|| lost("no such method"))?;
                let p = sf.off(b.brace_token.span.open().end());
                rw.edits.insert(p, format!("\n{}\n", text), "ghost:body-start");
            } else if at == "body_start" {
                let b = match &cur {
                    Cur::ItemFn(f) => &f.block,
                    Cur::ImplFn(f) => &f.block,
                    _ => return Err(lost("body_start outside fn")),
                };
                let p = sf.off(b.brace_token.span.open().end());
                rw.edits.insert(p, format!("\n{}\n", text), "ghost:body-start");
            } else {
                return Err(lost("unknown anchor form"));
            }
        }
    }

    if !rw.unsupported.is_empty() {
        return Err(("unsupported", rw.unsupported.join("; ")));
    }

    let rendered = render::render(sf, range, &rw.edits);
    let mut text = rendered.text.clone();
    // R-self:sig -- exact textual replacements in the item's signature named by the unit file (e.g. dropping
    // type parameters that are unused after R-self:type); each must occur exactly once
    let mut sig_applied: Vec<Value> = vec![];
    if let Some(ts) = it["sig_subst"].as_object() {
        for (k, v) in ts {
            let v = v.as_str().unwrap_or("");
            if text.matches(k.as_str()).count() != 1 {
                return Err(("lost-anchor", format!("sig_subst `{}` does not occur exactly once in `{}`", k, path)));
            }
            text = text.replacen(k.as_str(), v, 1);
            sig_applied.push(json!({"rule": "R-self:sig", "line": sf.line_of(range.0), "from": k}));
        }
    }
    let lmap = render::line_map(sf, &rendered);
    let mut pre_lines = 0usize;
    if wrap_needed {
        let w = it["wrap"]
            .as_str()
            .ok_or(("unsupported", format!("`{}` selects an expression; `wrap` header required", path)))?;
        // guard: identifiers the unit file claims the fragment binds must occur in the pattern
        if let (Cur::Arm(a), Some(b)) = (&cur, it["binds"].as_array()) {
            let pt = norm(sf.slice(sf.range(a.pat.span())));
            for x in b {
                let x = x.as_str().unwrap_or("");
                if !pt.contains(x) {
                    return Err(("lost-anchor", format!("arm pattern `{}` no longer binds `{}`", pt, x)));
                }
            }
        }
        if let (Cur::Closure(c), Some(b)) = (&cur, it["binds"].as_array()) {
            let pt: String = c.inputs.iter().map(|p| norm(sf.slice(sf.range(p.span())))).collect::<Vec<_>>().join(",");
            for x in b {
                let x = x.as_str().unwrap_or("");
                if !pt.contains(x) {
                    return Err(("lost-anchor", format!("closure parameters `{}` no longer bind `{}`", pt, x)));
                }
            }
        }
        let bp = it["wrap_body_prefix"].as_str().map(|s| format!("{}\n", s)).unwrap_or_default();
        let head = if want_canary {
            format!("{}\n{{ assert(false); /* vx canary */\n{}", w.trim(), bp)
        } else {
            format!("{}\n{{\n{}", w.trim(), bp)
        };
        if fns_out.is_empty() {
            if let Some(n) = it["wrap_name"].as_str() {
                fns_out.push(n.to_string());
            }
        }
        pre_lines = head.matches('\n').count();
        let pre = it["wrap_prefix"].as_str().map(|s| format!("{}\n", s)).unwrap_or_default();
        let suf = it["wrap_suffix"].as_str().map(|s| format!("{}\n", s)).unwrap_or_default();
        pre_lines += pre.matches('\n').count();
        let tail = it["wrap_tail"].as_str().map(|s| format!("\n{}", s)).unwrap_or_default();
        text = format!("{}{}{}{}\n}}\n{}", pre, head, text, tail, suf);
    }
    if let Some(pp) = it["prepend"].as_str() {
        // e.g. re-attach the subset of a dropped #[derive(..)] that Verus understands
        text = format!("{}\n{}", pp, text);
        pre_lines += pp.matches('\n').count() + 1;
    }
    let mut lm: Vec<usize> = vec![0; pre_lines];
    lm.extend(lmap);
    let mut applied: Vec<Value> = rw
        .applied
        .iter()
        .map(|a| json!({"rule": a.rule, "line": a.line, "from": a.from}))
        .collect();
    applied.extend(sig_applied);
    Ok(json!({
        "id": id,
        "file": sf.path,
        "select": path,
        "src_lines": [sf.line_of(range.0), sf.line_of(range.1.saturating_sub(1))],
        "src_text_sha": format!("{:x}", fxhash(sf.slice(range))),
        "text": text,
        "line_map": lm,
        "fns": fns_out,
        "rewrites": applied,
    }))
}

fn fxhash(s: &str) -> u64 {
    let mut h: u64 = 0xcbf29ce484222325;
    for b in s.bytes() {
        h ^= b as u64;
        h = h.wrapping_mul(0x100000001b3);
    }
    h
}
