//! Site enumeration: every occurrence, in the whole crate, of a constructor / call / method /
//! field that carries a proof obligation (type-invariant constructor sites, effect primitives).
//! Macro bodies are parsed as comma-separated expressions where possible; where not, their raw
//! tokens are scanned and every hit is reported with context "unparsed-macro" (conservative).

use crate::{norm, SourceFile};
use proc_macro2::{TokenStream, TokenTree};
use serde_json::{json, Value};
use syn::spanned::Spanned;
use syn::visit::{self, Visit};
use syn::*;

struct Pat_ {
    calls: Vec<String>,   // normalized path suffixes of call expressions, e.g. "XValue::Float"
    methods: Vec<String>, // method names, e.g. "get_rng"
    fields: Vec<String>,  // field names, e.g. "stdout"
    macros: Vec<String>,  // macro names, e.g. "writeln"
    idents: Vec<String>,  // plain identifier uses, e.g. "tca"
    pats: Vec<String>,    // tuple-struct patterns by last path segment, e.g. "Err"
}

struct Scan<'a> {
    sf: &'a SourceFile,
    pat: &'a Pat_,
    fns: Vec<String>,
    macros: Vec<String>,
    closures: usize,
    arms: Vec<String>,
    out: Vec<Value>,
}

impl<'a> Scan<'a> {
    fn site(&mut self, kind: &str, what: &str, sp: proc_macro2::Span, arg: String, ctx: &str) {
        let r = self.sf.range(sp);
        let line = self.sf.line_of(r.0);
        let mut text = self.sf.slice(r).to_string();
        if text.len() > 160 {
            text.truncate(160);
        }
        self.out.push(json!({
            "file": self.sf.path, "line": line, "kind": kind, "what": what,
            "enclosing_fn": self.fns.join("::"), "in_macros": self.macros.clone(),
            "closure_depth": self.closures, "arg": arg, "text": norm(&text), "context": ctx,
            "arm": self.arms.last().cloned().unwrap_or_default(),
        }));
    }

    fn scan_tokens(&mut self, ts: TokenStream) {
        let toks: Vec<TokenTree> = ts.into_iter().collect();
        for (i, t) in toks.iter().enumerate() {
            match t {
                TokenTree::Ident(id) => {
                    let name = id.to_string();
                    let next_is_group = matches!(toks.get(i + 1), Some(TokenTree::Group(g)) if g.delimiter() == proc_macro2::Delimiter::Parenthesis);
                    let prev_is_dot = matches!(toks.get(i.wrapping_sub(1)), Some(TokenTree::Punct(p)) if p.as_char() == '.');
                    if next_is_group && !prev_is_dot {
                        // reconstruct the path `A :: B :: name` from the preceding tokens
                        let mut full = name.clone();
                        let mut j = i;
                        while j >= 3 {
                            let c1 = matches!(&toks[j - 1], TokenTree::Punct(p) if p.as_char() == ':');
                            let c2 = matches!(&toks[j - 2], TokenTree::Punct(p) if p.as_char() == ':');
                            if c1 && c2 {
                                if let TokenTree::Ident(pid) = &toks[j - 3] {
                                    full = format!("{}::{}", pid, full);
                                    j -= 3;
                                    continue;
                                }
                            }
                            break;
                        }
                        for c in &self.pat.calls {
                            if full == *c || full.ends_with(&format!("::{}", c)) {
                                let arg = if let Some(TokenTree::Group(g)) = toks.get(i + 1) { norm(&g.stream().to_string()) } else { String::new() };
                                self.site("call", c, id.span(), arg, "unparsed-macro");
                            }
                        }
                    }
                    if prev_is_dot {
                        if next_is_group && self.pat.methods.contains(&name) {
                            self.site("method", &name, id.span(), String::new(), "unparsed-macro");
                        }
                        if !next_is_group && self.pat.fields.contains(&name) {
                            self.site("field", &name, id.span(), String::new(), "unparsed-macro");
                        }
                    }
                    if self.pat.idents.contains(&name) && !prev_is_dot {
                        self.site("ident", &name, id.span(), String::new(), "unparsed-macro");
                    }
                    let next_is_bang = matches!(toks.get(i + 1), Some(TokenTree::Punct(p)) if p.as_char() == '!');
                    if next_is_bang && self.pat.macros.contains(&name) {
                        self.site("macro", &name, id.span(), String::new(), "unparsed-macro");
                    }
                }
                TokenTree::Group(g) => self.scan_tokens(g.stream()),
                _ => {}
            }
        }
    }
}

fn path_text(p: &Path) -> String {
    p.segments.iter().map(|s| s.ident.to_string()).collect::<Vec<_>>().join("::")
}

impl<'a, 'ast> Visit<'ast> for Scan<'a> {
    fn visit_item_fn(&mut self, f: &'ast ItemFn) {
        self.fns.push(f.sig.ident.to_string());
        visit::visit_item_fn(self, f);
        self.fns.pop();
    }
    fn visit_impl_item_fn(&mut self, f: &'ast ImplItemFn) {
        self.fns.push(f.sig.ident.to_string());
        visit::visit_impl_item_fn(self, f);
        self.fns.pop();
    }
    fn visit_item_mod(&mut self, m: &'ast ItemMod) {
        // unit tests are not part of the interpreter
        if m.ident == "tests" {
            return;
        }
        visit::visit_item_mod(self, m);
    }
    fn visit_expr_closure(&mut self, c: &'ast ExprClosure) {
        self.closures += 1;
        visit::visit_expr_closure(self, c);
        self.closures -= 1;
    }
    fn visit_expr_call(&mut self, c: &'ast ExprCall) {
        if let Expr::Path(p) = &*c.func {
            let pt = path_text(&p.path);
            for pat in &self.pat.calls {
                if pt == *pat || pt.ends_with(&format!("::{}", pat)) {
                    let arg = c.args.iter().map(|a| norm(self.sf.slice(self.sf.range(a.span())))).collect::<Vec<_>>().join(",");
                    self.site("call", pat, c.span(), arg, "expr");
                }
            }
        }
        visit::visit_expr_call(self, c);
    }
    fn visit_expr_method_call(&mut self, m: &'ast ExprMethodCall) {
        let name = m.method.to_string();
        if self.pat.methods.contains(&name) {
            self.site("method", &name, m.span(), String::new(), "expr");
        }
        visit::visit_expr_method_call(self, m);
    }
    fn visit_local(&mut self, l: &'ast Local) {
        // `let Ok(x) = e else { .. }` inspects the failure case
        if let Some(init) = &l.init {
            if init.diverge.is_some() && !self.pat.pats.is_empty() {
                if let Pat::TupleStruct(ts) = &l.pat {
                    let last = ts.path.segments.last().map(|s| s.ident.to_string()).unwrap_or_default();
                    if last == "Ok" || last == "Err" {
                        self.site("let-else", &last, l.span(), String::new(), "expr");
                    }
                }
            }
        }
        visit::visit_local(self, l);
    }
    fn visit_arm(&mut self, a: &'ast Arm) {
        let mut t = norm(self.sf.slice(self.sf.range(a.span())));
        if t.len() > 240 {
            t.truncate(240);
        }
        self.arms.push(t);
        visit::visit_arm(self, a);
        self.arms.pop();
    }
    fn visit_pat_tuple_struct(&mut self, p: &'ast PatTupleStruct) {
        let last = p.path.segments.last().map(|s| s.ident.to_string()).unwrap_or_default();
        if self.pat.pats.contains(&last) {
            self.site("pattern", &last, p.span(), String::new(), "expr");
        }
        visit::visit_pat_tuple_struct(self, p);
    }
    fn visit_expr_path(&mut self, p: &'ast ExprPath) {
        if p.qself.is_none() && p.path.segments.len() == 1 {
            let name = p.path.segments[0].ident.to_string();
            if self.pat.idents.contains(&name) {
                self.site("ident", &name, p.span(), String::new(), "expr");
            }
        }
        visit::visit_expr_path(self, p);
    }
    fn visit_expr_field(&mut self, f: &'ast ExprField) {
        if let Member::Named(id) = &f.member {
            let name = id.to_string();
            if self.pat.fields.contains(&name) {
                self.site("field", &name, f.span(), String::new(), "expr");
            }
        }
        visit::visit_expr_field(self, f);
    }
    fn visit_macro(&mut self, m: &'ast Macro) {
        let name = m.path.segments.last().map(|s| s.ident.to_string()).unwrap_or_default();
        if self.pat.macros.contains(&name) {
            self.site("macro", &name, m.span(), norm(&m.tokens.to_string()), "expr");
        }
        self.macros.push(name.clone());
        let parsed = m.parse_body_with(punctuated::Punctuated::<Expr, Token![,]>::parse_terminated);
        match parsed {
            Ok(exprs) => {
                let v: Vec<Expr> = exprs.into_iter().collect();
                let leaked: &'static [Expr] = Box::leak(v.into_boxed_slice());
                for e in leaked {
                    self.visit_expr(e);
                }
            }
            Err(_) => {
                // `macro_rules!` definitions and exotic syntax: raw token scan
                if name != "macro_rules" {
                    self.scan_tokens(m.tokens.clone());
                }
            }
        }
        self.macros.pop();
    }
}

pub fn run(root: &str, job: &Value, errors: &mut Vec<Value>) -> Value {
    let strs = |v: &Value| -> Vec<String> {
        v.as_array().map(|a| a.iter().filter_map(|x| x.as_str().map(|s| s.to_string())).collect()).unwrap_or_default()
    };
    let pat = Pat_ {
        calls: strs(&job["calls"]),
        methods: strs(&job["methods"]),
        fields: strs(&job["fields"]),
        macros: strs(&job["macros"]),
        idents: strs(&job["idents"]),
        pats: strs(&job["pats"]),
    };
    let mut files: Vec<String> = vec![];
    fn walk(dir: &std::path::Path, root: &std::path::Path, out: &mut Vec<String>) {
        if let Ok(rd) = std::fs::read_dir(dir) {
            let mut ents: Vec<_> = rd.filter_map(|e| e.ok()).collect();
            ents.sort_by_key(|e| e.path());
            for e in ents {
                let p = e.path();
                if p.is_dir() {
                    walk(&p, root, out);
                } else if p.extension().map(|x| x == "rs").unwrap_or(false) {
                    out.push(p.strip_prefix(root).unwrap().to_string_lossy().to_string());
                }
            }
        }
    }
    let rootp = std::path::Path::new(root);
    walk(&rootp.join("src"), rootp, &mut files);
    let mut sites = vec![];
    for rel in files {
        match SourceFile::load(root, &rel) {
            Ok(sf) => {
                let mut s = Scan { sf: &sf, pat: &pat, fns: vec![], macros: vec![], closures: 0, arms: vec![], out: vec![] };
                s.visit_file(&sf.ast);
                sites.extend(s.out);
            }
            Err(e) => errors.push(json!({"kind": "lost-anchor", "msg": e})),
        }
    }
    json!({ "sites": sites })
}
