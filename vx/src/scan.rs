//! Site enumeration (constructor sites, effect sites, Result-inspection sites).
use serde_json::{json, Value};

pub fn run(_root: &str, _job: &Value, _errors: &mut Vec<Value>) -> Value {
    json!({})
}
